#!/bin/bash
# tools/run_seeded.sh [Cxx ...] : runs the claimed checks against every seeded change under
# /verif/seeded (each applied to a scratch copy of /repo's working tree, removed afterwards) and
# prints which check detects which change. Scratch copies live under $TMPDIR, outside /repo,/verif.
# Seeds are processed in parallel (JOBS, default 6). OWN=1 runs only the owning property's check
# on each change and writes seeded/RESULTS_own.tsv (all 138 changes incl. round 4, ~10 min).
set -uo pipefail
here="$(cd "$(dirname "$0")/.." && pwd)"
export here
claimed=$(python3 -c "import json;print(' '.join(c['property_id'] for c in json.load(open('$here/MANIFEST.json'))['checks']))")
export claimed
filter="$*"
out="$here/seeded/RESULTS.tsv"
tmpres=$(mktemp)
one() {
  d="$1"
  name=$(basename "$d"); prop=${name%%-*}
  tmp=$(mktemp -d "${TMPDIR:-/tmp}/verif-seed-XXXXXX")
  (cd /repo && tar --exclude=.git -cf - .) | (cd "$tmp" && tar xf -)
  if ! (cd "$tmp" && patch -p1 -s < "$d/patch.diff" >/dev/null 2>&1); then echo -e "$name\t$prop\tPATCH-FAILED\t"; rm -rf "$tmp"; return; fi
  hits=""
  cs="$claimed"; [ -n "${OWN:-}" ] && cs="$prop"   # OWN=1: only the owning property's check
  for c in $cs; do
    o=$("$here/bin/verifcheck" "$c" --tier quick --repo "$tmp" --verif "$here" --no-write 2>&1); code=$?
    if [ $code -eq 1 ]; then
      keys=$(echo "$o" | grep -E '^  FAIL ' | sed -E 's/^  FAIL ([^ ]+).*/\1/' | sort -u | head -3 | tr '\n' ',')
      hits="$hits $c[$keys]"
    elif [ $code -eq 2 ]; then
      hits="$hits $c(ERROR:$(echo "$o" | grep -E '^ERROR' | head -1 | cut -c1-120))"
    fi
  done
  own="missed"; echo "$hits" | grep -q " $prop\[" && own="DETECTED"
  echo -e "$name\t$prop\t$own\t$hits"
  rm -rf "$tmp"
}
export -f one
list=()
for d in "$here"/seeded/C*/; do
  name=$(basename "$d"); prop=${name%%-*}
  if [ -n "$filter" ] && ! echo " $filter " | grep -q " $prop "; then continue; fi
  list+=("$d")
done
printf '%s\n' "${list[@]}" | xargs -P "${JOBS:-6}" -I{} bash -c 'one "$@"' _ {} | tee -a "$tmpres"
if [ -z "$filter" ] && [ -z "${OWN:-}" ]; then sort "$tmpres" > "$out"; fi
if [ -z "$filter" ] && [ -n "${OWN:-}" ]; then sort "$tmpres" > "$here/seeded/RESULTS_own.tsv"; fi
rm -f "$tmpres"
