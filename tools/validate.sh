#!/bin/bash
# validates MANIFEST.json and all evidence files against the harness schemas
python3-vt - <<'PY'
import json,glob,jsonschema,sys
ok=True
jsonschema.validate(json.load(open('/verif/MANIFEST.json')), json.load(open('/root/.vp/MANIFEST.schema.json')))
es=json.load(open('/root/.vp/EVIDENCE.schema.json'))
for f in sorted(glob.glob('/verif/evidence/C*.json')):
    try:
        jsonschema.validate(json.load(open(f)), es)
    except Exception as e:
        ok=False; print('INVALID',f,str(e)[:300])
print('valid' if ok else 'INVALID')
PY
