#!/bin/bash
# tools/verify_benign.sh <Bxx> <n> : confirms that a sub-agent's refactoring builds and keeps the
# suite green in a scratch worktree, then stores it under /verif/benign/<Bxx>-R<n>/.
set -uo pipefail
id=$1; n=$2
src=/tmp/benign/$id-out/R$n
wt=/tmp/benignverify-$id-$n
export GOFLAGS=-mod=mod GOPROXY=off GOSUMDB=off GOTOOLCHAIN=local
[ -f $src/patch.diff ] || { echo "$id R$n: no patch"; exit 2; }
git -C /repo worktree remove --force $wt 2>/dev/null; rm -rf $wt
git -C /repo worktree add -q --detach $wt HEAD || exit 2
trap 'git -C /repo worktree remove --force '$wt' 2>/dev/null; rm -rf '$wt EXIT
git -C $wt apply $src/patch.diff || { echo "$id R$n: patch does not apply"; exit 1; }
(cd $wt && go build ./...) >/dev/null 2>&1 || { echo "$id R$n: does not build"; exit 1; }
unshare -n sh -c "ip link set lo up; cd $wt && go test -vet=off -count=1 ./..." > /tmp/bv-$id-$n.log 2>&1; c=$?
if [ $c -eq 0 ]; then
  d=/verif/benign/$id-R$n; mkdir -p $d; cp $src/patch.diff $d/patch.diff; cp $src/notes.md $d/notes.md 2>/dev/null
  echo "$id R$n: CONFIRMED (builds, suite ok)"
else
  echo "$id R$n: suite fails"; fi
