#!/usr/bin/env python3
"""Regenerates /verif/MANIFEST.json from the table below (one entry per claimed property)."""
import json, os, sys
here = os.path.dirname(os.path.dirname(os.path.abspath(__file__)))

BASELINE = "for m in $(cat /w/out/gomods.txt); do MF=$(cd /repo/$m && . /w/out/goenv.sh && gomodflag); (cd /repo/$m && go test $MF -json -vet=off -count=1 -timeout 25m ./...); done"

# id -> (category, technique, level text, level note, design ref)
CLAIMS = {}
def claim(id, cat, technique, text, note, ref):
    CLAIMS[id] = dict(cat=cat, technique=technique, text=text, note=note, ref=ref)

NOT_YET = {}

exec(open(os.path.join(here, "tools", "claims.py")).read())

props = [json.loads(l)["id"] for l in open(os.path.join(here, "properties.jsonl"))]
checks, na = [], []
for pid in props:
    if pid in CLAIMS:
        c = CLAIMS[pid]
        checks.append({
            "property_id": pid,
            "quick_cmd": f"./check {pid} --tier quick",
            "thorough_cmd": f"./check {pid} --tier thorough",
            "evidence_file": f"/verif/evidence/{pid}.json",
            "replay_cmd_template": f"./check {pid} --tier quick   # re-decides every obligation; the replay file {{path}} names the failing obligation key",
            "engine": "verifcheck",
            "level_claimed": {"category": c["cat"], "text": c["text"], "design_ref": c["ref"]},
            "level_note": c["note"],
            "technique": c["technique"],
        })
    else:
        na.append({"property_id": pid, "reason": NOT_YET.get(pid, "static check not built yet in this round; see DESIGN.md section 3 for the structural clause planned")})

manifest = {
    "version": 1,
    "setup_cmd": "./setup.sh",
    "hooks": {
        "guard": "verif",
        "enable": "none needed: the checks analyse /repo's sources statically (go/packages + go/types + go/ssa); no hook or instrumentation is compiled into the repository",
        "baseline_off_cmd": BASELINE,
        "source_commits": [],
        "add_only": True,
    },
    "engines": [
        {"name": "verifcheck", "path": "/verif/checker", "serves_properties": sorted(CLAIMS), "kind_free_text": "repository-specific static analyser (Go, vendored golang.org/x/tools v0.29.0): type-checked AST abstract interpreter (absint/penum), SSA value-range and dominance rules, call-graph (VTA/CHA) reachability rules, spec tables under /verif/spec as oracle"},
    ],
    "checks": checks,
    "not_applicable": na,
    "notes": "Technique family: static analysis only. Every check re-loads and type-checks /repo's current working tree and decides structural clauses named in DESIGN.md; the behavioural statements themselves (runtime values, schedules) are declined there. fix: commits in /repo repair defects the checks reported; see known_findings.json.",
}
json.dump(manifest, open(os.path.join(here, "MANIFEST.json"), "w"), indent=1)
print("claimed:", sorted(CLAIMS), "not applicable:", [n["property_id"] for n in na])
