#!/bin/bash
# tools/run_benign.sh [name ...] : applies every behaviour-preserving refactoring under
# /verif/benign/<name>/patch.diff to a scratch copy of /repo's working tree and runs every claimed
# check on it. Any exit status other than 0 is a FALSE ALARM (or a broken check) to be fixed in the
# machinery. Output: one line per refactoring; RESULTS in benign/RESULTS.tsv when run without filter.
set -uo pipefail
here="$(cd "$(dirname "$0")/.." && pwd)"
export here
claimed=$(python3 -c "import json;print(' '.join(c['property_id'] for c in json.load(open('$here/MANIFEST.json'))['checks']))")
[ -n "${CHECKS:-}" ] && claimed="$CHECKS"   # restrict to some checks (the results file is then not rewritten)
export claimed
filter="$*"
one() {
  d="$1"; name=$(basename "$d")
  tmp=$(mktemp -d "${TMPDIR:-/tmp}/verif-benign-XXXXXX")
  (cd /repo && tar --exclude=.git -cf - .) | (cd "$tmp" && tar xf -)
  if ! (cd "$tmp" && patch -p1 -s < "$d/patch.diff" >/dev/null 2>&1); then echo -e "$name\tPATCH-FAILED\t"; rm -rf "$tmp"; return; fi
  alarms=""
  for c in $claimed; do
    o=$("$here/bin/verifcheck" "$c" --tier quick --repo "$tmp" --verif "$here" --no-write 2>&1); code=$?
    if [ $code -ne 0 ]; then
      keys=$(echo "$o" | grep -E '^  FAIL |^ERROR' | sed -E 's/^  FAIL ([^ ]+).*/\1/' | sort -u | head -3 | tr '\n' ',' | cut -c1-300)
      alarms="$alarms $c(exit=$code)[$keys]"
    fi
  done
  if [ -z "$alarms" ]; then echo -e "$name\tsilent\t"; else echo -e "$name\tALARM\t$alarms"; fi
  rm -rf "$tmp"
}
export -f one
list=()
for d in "$here"/benign/*/; do
  [ -f "$d/patch.diff" ] || continue
  name=$(basename "$d")
  if [ -n "$filter" ] && ! echo " $filter " | grep -q " $name "; then continue; fi
  list+=("$d")
done
tmpres=$(mktemp)
printf '%s\n' "${list[@]}" | xargs -P "${JOBS:-6}" -I{} bash -c 'one "$@"' _ {} | tee -a "$tmpres"
if [ -z "$filter" ] && [ -z "${CHECKS:-}" ]; then sort "$tmpres" > "$here/benign/RESULTS.tsv"; fi
rm -f "$tmpres"
