#!/bin/bash
# tools/verify_seed.sh <Cxx> <A|B> : confirms a sub-agent's seeded change in a scratch worktree:
#   suite passes with the change, demo fails with it, demo passes without it. On success stores it
#   under /verif/seeded/<Cxx>-<X>/ (patch.diff, demo, meta.json).
set -uo pipefail
id=$1; x=$2
src=/tmp/seed/$id-out/$x
wt=/tmp/seedverify-$id-$x
export GOFLAGS=-mod=mod GOPROXY=off GOSUMDB=off GOTOOLCHAIN=local
[ -f $src/patch.diff ] || { echo "no patch $src"; exit 2; }
git -C /repo worktree remove --force $wt 2>/dev/null; rm -rf $wt
git -C /repo worktree add -q --detach $wt HEAD || exit 2
trap 'git -C /repo worktree remove --force '$wt' 2>/dev/null; rm -rf '$wt EXIT
demo=$(cat $src/demo_path.txt | tr -d '[:space:]')
pkg=./$(dirname $demo)
run() { unshare -n sh -c "ip link set lo up; cd $wt && $*"; }
# 1. demo passes on clean tree
cp $src/seed_demo_test.go $wt/$demo
run "go test -vet=off -count=1 -run 'SeedDemo' $pkg" > /tmp/sv-$id-$x.clean.log 2>&1; c1=$?
rm $wt/$demo
# 2. apply change; suite passes
git -C $wt apply $src/patch.diff || { echo "$id $x: patch does not apply"; exit 1; }
(cd $wt && go build ./...) > /tmp/sv-$id-$x.build.log 2>&1 || { echo "$id $x: does not build"; exit 1; }
run "go test -vet=off -count=1 ./..." > /tmp/sv-$id-$x.suite.log 2>&1; c2=$?
# 3. demo fails with change
cp $src/seed_demo_test.go $wt/$demo
run "go test -vet=off -count=1 -run 'SeedDemo' $pkg" > /tmp/sv-$id-$x.mut.log 2>&1; c3=$?
echo "$id $x: demo-clean=$c1 suite-with-change=$c2 demo-with-change=$c3"
if [ $c1 -eq 0 ] && [ $c2 -eq 0 ] && [ $c3 -ne 0 ]; then
  d=/verif/seeded/$id-$x; mkdir -p $d
  cp $src/patch.diff $d/patch.diff; cp $src/seed_demo_test.go $d/seed_demo_test.go; cp $src/notes.md $d/notes.md
  python3 - "$id" "$x" "$demo" <<'PY'
import json,sys
id,x,demo=sys.argv[1:4]
notes=open(f"/tmp/seed/{id}-out/{x}/notes.md").read()
json.dump({"property":id,"variant":x,"demo_path":demo,
 "needs":"see notes.md (written by the seeding sub-agent)",
 "confirmed_by":"tools/verify_seed.sh in a scratch worktree of /repo HEAD: demo passes on the clean tree; go build + full suite pass with the change; demo fails with the change",
 "commands":["go test -vet=off -count=1 -run SeedDemo ./"+demo.rsplit('/',1)[0]+"   (clean: ok)","git apply patch.diff; go build ./...; go test -vet=off -count=1 ./...   (ok)","go test -vet=off -count=1 -run SeedDemo ./"+demo.rsplit('/',1)[0]+"   (with change: FAIL)"],
 "detected_by":"(filled in by tools/run_seeded.sh results, see DESIGN.md)"}, open(f"/verif/seeded/{id}-{x}/meta.json","w"), indent=1)
PY
  echo "$id $x: CONFIRMED"
else
  echo "$id $x: NOT confirmed (logs /tmp/sv-$id-$x.*.log)"
fi
