#!/bin/bash
# tools/final.sh [quick|thorough] : runs every claimed check in the given tier (default quick),
# sequentially, prints one line each, and validates MANIFEST.json and the evidence files.
tier=${1:-quick}
here="$(cd "$(dirname "$0")/.." && pwd)"
rc=0
for c in $(python3 -c "import json;print(' '.join(c['property_id'] for c in json.load(open('$here/MANIFEST.json'))['checks']))"); do
  o=$("$here/check" $c --tier $tier 2>&1); code=$?
  echo "$c exit=$code $(echo "$o" | grep -E "tier=$tier" | sed -E 's/.*: ([0-9]+ obligations.*)/\1/')"
  if [ $code -ne 0 ]; then rc=1; echo "$o" | grep -E "FAIL|ERROR|missed|broken" | cut -c1-300 | head -5; fi
done
"$here/tools/validate.sh"
exit $rc
