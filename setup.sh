#!/bin/bash
# Builds the checker from the vendored sources under /verif/checker (offline).
set -euo pipefail
cd "$(dirname "$0")/checker"
export GOFLAGS=-mod=vendor GOPROXY=off GOSUMDB=off GOTOOLCHAIN=local GOWORK=off CGO_ENABLED=0
mkdir -p ../bin ../evidence
go build -o ../bin/verifcheck .
echo "built $(cd .. && pwd)/bin/verifcheck"
