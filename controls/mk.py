#!/usr/bin/env python3
"""Source of controls/controls.json: one still-compiling micro-mutation per rule instance class."""
import json, os
C = []
def k(id, prop, file, old, new, expect, why=""):
    C.append(dict(id=id, property=prop, file=file, old=old, new=new, expect=expect, why=why))
def k2(id, prop, edits, expect, why=""):
    C.append(dict(id=id, property=prop, edits=[dict(file=f, old=o, new=n) for f, o, n in edits], expect=expect, why=why))

# ---- C19
k("K01", "C19", "primitive/constants.go", "\tcase ConsistencyLevelLocalSerial:\n\tcase ConsistencyLevelLocalOne:\n\tdefault:\n\t\treturn false\n\t}\n\treturn true\n}\n\nfunc (c ConsistencyLevel) IsSerial",
  "\tcase ConsistencyLevelLocalSerial:\n\tdefault:\n\t\treturn false\n\t}\n\treturn true\n}\n\nfunc (c ConsistencyLevel) IsSerial",
  "closure:ConsistencyLevel.IsValid(ConsistencyLevelLocalOne)", "declared constant dropped from IsValid")
k("K02", "C19", "primitive/constants.go", "\tcase OpCodeAuthSuccess:\n\tdefault:\n\t\treturn false\n\t}\n\treturn true\n}\n\nfunc (c OpCode) IsDse",
  "\tcase OpCodeAuthSuccess:\n\tcase OpCodeBatch:\n\tdefault:\n\t\treturn false\n\t}\n\treturn true\n}\n\nfunc (c OpCode) IsDse",
  "classification:OpCode request-xor-response(OpCodeBatch)", "opcode classified as both")
k("K03", "C19", "primitive/constants.go", "\tcase ErrorCodeUnprepared:\n\t\treturn \"ErrorCode Unprepared [0x00002500]\"\n", "",
  "string:ErrorCode.String(ErrorCodeUnprepared)", "constant printed by the fallback")
k("K04", "C19", "primitive/constants.go", "func (v ProtocolVersion) SupportsResultMetadataId() bool {\n\treturn v >= ProtocolVersion5 && v != ProtocolVersionDse1\n",
  "func (v ProtocolVersion) SupportsResultMetadataId() bool {\n\treturn v >= ProtocolVersion5\n",
  "capability:SupportsResultMetadataId(-)@D1", "capability cell differs from spec")
k("K05", "C19", "primitive/constants.go", "func (v ProtocolVersion) Uses4BytesCollectionLength() bool {\n\treturn v >= ProtocolVersion3\n",
  "func (v ProtocolVersion) Uses4BytesCollectionLength() bool {\n\treturn v >= ProtocolVersion4\n",
  "capability:Uses4BytesCollectionLength(-)@v3")
k("K06", "C19", "primitive/constants.go", "\tQueryFlagPageSize          = QueryFlag(0x00000004)\n\tQueryFlagPagingState       = QueryFlag(0x00000008)\n",
  "\tQueryFlagPageSize          = QueryFlag(0x00000008)\n\tQueryFlagPagingState       = QueryFlag(0x00000004)\n",
  "capability:", "flag values swapped: SupportsQueryFlag rows keyed by value still hold, codes by value still hold -> only C02 layout catches it; here expect capability rows to be unaffected")
C.pop()  # K06 belongs to C02 (layout); kept in the catalogue there
k("K61", "C19", "primitive/util.go", "func CheckValidFailureCode(c FailureCode) error {\n\tif !c.IsValid() {", "func CheckValidFailureCode(c FailureCode) error {\n\tif c.IsValid() {",
  "check-helper:CheckValidFailureCode", "helper no longer negates its predicate")
k("K62", "C19", "primitive/constants.go", "\tcase FailureCodeKeyspaceNotFound:\n\tdefault:\n\t\treturn false", "\tcase FailureCodeKeyspaceNotFound:\n\tcase FailureCode(0x0007):\n\tdefault:\n\t\treturn false",
  "closure-other:FailureCode.IsValid(undeclared 0x7)", "undeclared value accepted")
k("K63", "C19", "primitive/constants.go", "\tErrorCodeUnprepared    = ErrorCode(0x00002500)", "\tErrorCodeUnprepared    = ErrorCode(0x00002600)",
  "codes:ErrorCode ErrorCodeUnprepared", "constant value differs from the specification")
# ---- C20
k("K07", "C20", "message/startup.go", "\tm.Options[StartupOptionClientId] = clientId", "\tm.Options[StartupOptionApplicationName] = clientId",
  "accessor-pairing:Startup.ClientId")
k("K08", "C20", "frame/frame.go", "\tif len(warnings) > 0 {\n\t\tf.Header.Flags = f.Header.Flags.Add(primitive.HeaderFlagWarning)\n\t} else {\n\t\tf.Header.Flags = f.Header.Flags.Remove(primitive.HeaderFlagWarning)",
  "\tif len(warnings) > 0 {\n\t\tf.Header.Flags = f.Header.Flags.Add(primitive.HeaderFlagCustomPayload)\n\t} else {\n\t\tf.Header.Flags = f.Header.Flags.Remove(primitive.HeaderFlagCustomPayload)",
  "mutator-flag:Frame.SetWarnings")
k("K09", "C20", "frame/frame.go", "\t\topCode != primitive.OpCodeOptions &&\n\t\topCode != primitive.OpCodeReady", "\t\topCode != primitive.OpCodeOptions",
  "compressible:isCompressible(OpCodeReady)")
k("K64", "C20", "frame/frame.go", "\tif tracingId != nil {\n\t\tf.Header.Flags = f.Header.Flags.Add(primitive.HeaderFlagTracing)\n\t} else {\n\t\tf.Header.Flags = f.Header.Flags.Remove(primitive.HeaderFlagTracing)\n\t}",
  "\tif tracingId != nil {\n\t\tf.Header.Flags = f.Header.Flags.Add(primitive.HeaderFlagTracing)\n\t}",
  "mutator-flag:Frame.SetTracingId", "clearing the part leaves the flag set")
k("K65", "C20", "frame/frame.go", "\tif compress && isCompressible(f.Body.Message.GetOpCode()) {", "\tif compress {",
  "mutator-flag:Frame.SetCompress", "compression flagged for any opcode")
k("K66", "C20", "message/startup.go", "\treturn found && v == \"1\"", "\treturn found && v == \"true\"",
  "accessor-pairing:Startup.ThrowOnOverload", "setter stores 1, getter compares true")

# ---- C17
k("K10", "C17", "message/deepcopy_generated.go", "\tif in.PagingState != nil {\n\t\tin, out := &in.PagingState, &out.PagingState\n\t\t*out = make([]byte, len(*in))\n\t\tcopy(*out, *in)\n\t}\n\tif in.SerialConsistency != nil {\n\t\tin, out := &in.SerialConsistency, &out.SerialConsistency\n\t\t*out = new(primitive.ConsistencyLevel)\n\t\t**out = **in\n\t}\n\tif in.DefaultTimestamp != nil {\n\t\tin, out := &in.DefaultTimestamp, &out.DefaultTimestamp\n\t\t*out = new(int64)\n\t\t**out = **in\n\t}\n\tif in.NowInSeconds != nil {\n\t\tin, out := &in.NowInSeconds, &out.NowInSeconds\n\t\t*out = new(int32)\n\t\t**out = **in\n\t}\n\tif in.ContinuousPagingOptions",
  "\tif in.SerialConsistency != nil {\n\t\tin, out := &in.SerialConsistency, &out.SerialConsistency\n\t\t*out = new(primitive.ConsistencyLevel)\n\t\t**out = **in\n\t}\n\tif in.DefaultTimestamp != nil {\n\t\tin, out := &in.DefaultTimestamp, &out.DefaultTimestamp\n\t\t*out = new(int64)\n\t\t**out = **in\n\t}\n\tif in.NowInSeconds != nil {\n\t\tin, out := &in.NowInSeconds, &out.NowInSeconds\n\t\t*out = new(int32)\n\t\t**out = **in\n\t}\n\tif in.ContinuousPagingOptions",
  "field:(*message.QueryOptions).DeepCopyInto.PagingState", "block for one field deleted")
k("K11", "C17", "frame/deepcopy_generated.go", "\t\t\t\tin, out := &val, &outVal\n\t\t\t\t*out = make([]byte, len(*in))\n\t\t\t\tcopy(*out, *in)\n", "\t\t\t\toutVal = val\n",
  "no-alias:(*frame.Body).DeepCopyInto", "map values alias the original")
k("K12", "C17", "message/result_metadata.go", "type ColumnMetadata struct {\n\tKeyspace string\n", "type ColumnMetadata struct {\n\tExtra    []string\n\tKeyspace string\n",
  "field:(*message.ColumnMetadata).DeepCopyInto.Extra", "field added without regenerating")
k("K67", "C17", "message/deepcopy_generated.go", "\t\t*out = make([]*BatchChild, len(*in))\n\t\tfor i := range *in {\n\t\t\tif (*in)[i] != nil {\n\t\t\t\tin, out := &(*in)[i], &(*out)[i]\n\t\t\t\t*out = new(BatchChild)\n\t\t\t\t(*in).DeepCopyInto(*out)\n\t\t\t}\n\t\t}\n",
  "\t\t*out = make([]*BatchChild, len(*in))\n\t\tcopy(*out, *in)\n",
  "no-alias:(*message.Batch).DeepCopyInto", "slice of pointers copied shallowly")
k("K68", "C17", "primitive/uuid.go", "\tnewUuid := *u\n\treturn &newUuid\n", "\treturn u\n",
  "(*primitive.UUID).DeepCopy", "hand-written copy returns the original")
k("K69", "C17", "message/deepcopy_generated.go", "\t\t*out = make([][][]byte, len(*in))\n\t\tfor i := range *in {\n\t\t\tif (*in)[i] != nil {\n\t\t\t\tin, out := &(*in)[i], &(*out)[i]\n\t\t\t\t*out = make([][]byte, len(*in))\n\t\t\t\tfor i := range *in {\n\t\t\t\t\tif (*in)[i] != nil {\n\t\t\t\t\t\tin, out := &(*in)[i], &(*out)[i]\n\t\t\t\t\t\t*out = make([]byte, len(*in))\n\t\t\t\t\t\tcopy(*out, *in)\n\t\t\t\t\t}\n\t\t\t\t}\n\t\t\t}\n\t\t}\n",
  "\t\t*out = make([][][]byte, len(*in))\n\t\tfor i := range *in {\n\t\t\tif (*in)[i] != nil {\n\t\t\t\tin, out := &(*in)[i], &(*out)[i]\n\t\t\t\t*out = make([][]byte, len(*in))\n\t\t\t\tcopy(*out, *in)\n\t\t\t}\n\t\t}\n",
  "no-alias:(*message.RowsResult).DeepCopyInto", "innermost level of a nested slice copied shallowly")
k("K70", "C17", "frame/deepcopy_generated.go", "\tif in.Header != nil {\n\t\tin, out := &in.Header, &out.Header\n\t\t*out = new(Header)\n\t\t**out = **in\n\t}\n\tif in.Body != nil {\n\t\tin, out := &in.Body, &out.Body\n\t\t*out = new(Body)\n\t\t(*in).DeepCopyInto(*out)\n\t}",
  "\tif in.Header != nil {\n\t\tin, out := &in.Header, &out.Header\n\t\t*out = new(Header)\n\t\t**out = **in\n\t}\n\tif in.Body != nil {\n\t\tin, out := &in.Body, &out.Body\n\t\t*out = new(Body)\n\t\t**out = **in\n\t}",
  "no-alias:(*frame.Frame).DeepCopyInto", "nested struct with references copied by value")

# ---- C04
k("K13", "C04", "message/result_metadata.go", "\t\tif pkCount > 0 {\n\t\t\tmetadata.PkIndices = make([]uint16, pkCount)", "\t\t{\n\t\t\tmetadata.PkIndices = make([]uint16, pkCount)",
  "nonneg-size:message.decodeVariablesMetadata", "guard on pk count dropped")
k("K14", "C04", "primitive/bytes.go", "\t} else if length < 0 {\n\t\treturn nil, nil\n\t} else if length == 0 {", "\t} else if length < -1 {\n\t\treturn nil, nil\n\t} else if length == 0 {",
  "nonneg-size:primitive.ReadBytes", "off-by-one in the null test")
k("K16", "C04", "datatype/list.go", "func readListType(source io.Reader, version primitive.ProtocolVersion) (decoded DataType, err error) {\n", "func readListType(source io.Reader, version primitive.ProtocolVersion) (decoded DataType, err error) {\n\tif version == 0 {\n\t\treturn readListType(source, version)\n\t}\n",
  "recursion-progress:", "recursion without reading")
k("K71", "C04", "message/result_metadata.go", "\t} else if metadata.ColumnCount < 0 {\n\t\treturn nil, fmt.Errorf(\"invalid RESULT Rows metadata column count: %d\", metadata.ColumnCount)\n\t}\n", "\t}\n",
  "nonneg-size:", "column count validation removed (interprocedural: make in result.go and decodeColumnsMetadata)")
k("K72", "C04", "datacodec/collection.go", "\t} else if size < 0 {\n\t\terr = fmt.Errorf(\"invalid collection size: %d\", size)\n\t}\n", "\t}\n",
  "nonneg-size:datacodec.adjustSliceLength", "collection size validation removed (flows through closures to reflect.MakeSlice)")
k("K73", "C04", "segment/decode.go", "\t\theader.UncompressedPayloadLength = int32(headerData & MaxPayloadLength)\n\t} else {", "\t\theader.UncompressedPayloadLength = int32(headerData) - 1\n\t} else {",
  "nonneg-size:(*segment.codec).decodeSegmentPayload", "length field no longer masked (flows through the header object to make in decodeSegmentPayload)")
k("K74", "C04", "primitive/values.go", "\t} else if length < 0 {\n\t\treturn nil, fmt.Errorf(\"invalid [value] length: %v\", length)\n", "\t} else if length < -3 {\n\t\treturn nil, fmt.Errorf(\"invalid [value] length: %v\", length)\n",
  "nonneg-size:primitive.ReadValue")

# ---- C13
k("K17", "C13", "datacodec/conversions.go", "func int64ToInt16(val int64) (int16, error) {\n\tif val < math.MinInt16 || val > math.MaxInt16 {", "func int64ToInt16(val int64) (int16, error) {\n\tif val < math.MinInt32 || val > math.MaxInt32 {",
  "narrowing:datacodec.int64ToInt16", "range check with the wrong bounds")
k("K19", "C13", "datacodec/conversions.go", "func uint32ToInt32(val uint32) (int32, error) {\n\tif val > math.MaxInt32 {\n\t\treturn 0, errValueOutOfRange(val)\n\t} else {\n\t\treturn int32(val), nil\n\t}\n}", "func uint32ToInt32(val uint32) (int32, error) {\n\treturn int32(val), nil\n}",
  "narrowing:datacodec.uint32ToInt32", "range test deleted")
k("K75", "C13", "datacodec/conversions.go", "func int64ToUint32(val int64) (uint32, error) {\n\tif val < 0 || val > math.MaxUint32 {", "func int64ToUint32(val int64) (uint32, error) {\n\tif val > math.MaxUint32 {",
  "narrowing:datacodec.int64ToUint32", "lower bound dropped")
k("K76", "C13", "datacodec/conversions.go", "\tif !val.IsInt64() || val.Int64() < math.MinInt16 || val.Int64() > math.MaxInt16 {", "\tif !val.IsInt64() || val.Int64() < math.MinInt16 {",
  "narrowing:datacodec.bigIntToInt16", "upper bound dropped on a big.Int source")
k("K77", "C13", "datacodec/conversions.go", "\tif float64(float32(val)) != val {\n\t\treturn 0, errValueOutOfRange(val)\n\t} else {\n\t\treturn float32(val), nil\n\t}", "\treturn float32(val), nil",
  "narrowing:datacodec.float64ToFloat32", "float narrowing without the round-trip test")
k("K78", "C13", "datacodec/conversions.go", "\tif parsed, err := strconv.ParseInt(val, 10, 16); err != nil {", "\tif parsed, err := strconv.ParseInt(val, 10, 32); err != nil {",
  "narrowing:datacodec.stringToInt16", "parse width wider than the target")

# ---- C08
k("K20", "C08", "compression/lz4/lz4.go", "i < compressedLength*maxCompressionRatio*2; i *= 2 {", "i <= compressedLength*8; i *= 2 {",
  "lz4-sizing:compression/lz4.decompress", "growth loop gives up at 8x")
k("K21", "C08", "compression/lz4/lz4.go", "\t\tdecompressedMessage := make([]byte, decompressedLength)", "\t\tdecompressedMessage := make([]byte, 4*len(compressedMessage))",
  "lz4-sizing:(compression/lz4.Compressor).DecompressWithLength", "destination guessed from the input size")
k("K79", "C08", "compression/lz4/lz4.go", "const maxCompressionRatio = 255", "const maxCompressionRatio = 100",
  "ratio-guard", "legitimate ratios above 100 rejected")
k("K80", "C08", "compression/lz4/lz4.go", "i < compressedLength*maxCompressionRatio*2; i *= 2 {", "i < compressedLength*maxCompressionRatio*2; i *= 4 {",
  "lz4-sizing:compression/lz4.decompress", "fourfold growth skips the last size (seeded C08-A)")
k("K81", "C08", "compression/lz4/lz4.go", "i < compressedLength*maxCompressionRatio*2; i *= 2 {", "i <= compressedLength*maxCompressionRatio; i *= 2 {",
  "lz4-sizing:compression/lz4.decompress", "bound tidied to <= 255x stops at 128x (seeded C06-B)")

# ---- C03
k("K22", "C03", "message/prepare.go", "\t\tsize += primitive.LengthOfInt // flags\n", "",
  "length-vs-encode:prepareCodec@v5", "flags word missing from the length")
k("K23", "C03", "message/query_options.go", "\tif flags.Contains(primitive.QueryFlagDefaultTimestamp) {\n\t\tlength += primitive.LengthOfLong\n", "\tif flags.Contains(primitive.QueryFlagDefaultTimestamp) {\n\t\tlength += primitive.LengthOfShort\n",
  "length-vs-encode:queryCodec@v", "default timestamp sized as a short")
k("K24", "C03", "frame/encode.go", "\tif header.Flags.Contains(primitive.HeaderFlagTracing) && body.Message.IsResponse() {\n\t\tlength += primitive.LengthOfUuid", "\tif header.Flags.Contains(primitive.HeaderFlagTracing) {\n\t\tlength += primitive.LengthOfUuid",
  "length-vs-encode:frame.body@", "tracing id counted for requests")
k("K25", "C03", "frame/convert.go", "BodyLength = int32(", "BodyLength = 1 + int32(",
  "bodylength-flow:", "BodyLength not the length of the emitted bytes")
k("K82", "C03", "message/error.go", "\t\tif version.SupportsWriteTimeoutContentions() && writeTimeout.WriteType == primitive.WriteTypeCas {\n\t\t\tlength += primitive.LengthOfShort // contentions", "\t\tif version >= primitive.ProtocolVersion5 && writeTimeout.WriteType == primitive.WriteTypeCas {\n\t\t\tlength += primitive.LengthOfShort // contentions",
  "length-vs-encode:errorCodec@D", "wrong version predicate in the length calculator only (seeded C03-B)")
k("K83", "C03", "primitive/string_list.go", "\tlength := LengthOfShort\n\tfor _, s := range list {\n\t\tlength += LengthOfString(s)", "\tlength := LengthOfShort\n\tfor _, s := range list {\n\t\tlength += len(s)",
  "primitive-length:primitive.WriteStringList", "per-element prefix forgotten in a primitive length")
k("K84", "C03", "message/result_metadata.go", "\t\tlength += primitive.LengthOfShort * len(metadata.PkIndices)", "\t\tlength += primitive.LengthOfInt * len(metadata.PkIndices)",
  "length-vs-encode:", "pk indices sized 4 bytes each")

k("K85", "C03", "compression/lz4/lz4.go", "\t\tif _, err = io.CopyN(ioutil.Discard, source, 1); err != nil {\n\t\t\treturn fmt.Errorf(\"cannot read empty message: %w\", err)\n\t\t}\n\t\treturn nil", "\t\t_ = ioutil.Discard\n\t\treturn nil",
  "decompress-consumes:compression/lz4.DecompressWithLength", "empty compressed body not drained (seeded C03-A)")
k("K86", "C03", "frame/decode.go", "io.LimitReader(source, int64(header.BodyLength))", "source",
  "compressed-body-bounded", "decompressor reads the unbounded stream")

# ---- C01
k("K26", "C01", "message/query_options.go", "\tif flags.Contains(primitive.QueryFlagPageSize) {\n\t\tif options.PageSize, err = primitive.ReadInt(source); err != nil {\n\t\t\treturn nil, fmt.Errorf(\"cannot read page size: %w\", err)\n\t\t}\n\t\tif flags.Contains(primitive.QueryFlagDsePageSizeBytes) {\n\t\t\toptions.PageSizeInBytes = true\n\t\t}\n\t}\n\tif flags.Contains(primitive.QueryFlagPagingState) {\n\t\tif options.PagingState, err = primitive.ReadBytes(source); err != nil {\n\t\t\treturn nil, fmt.Errorf(\"cannot read paging state: %w\", err)\n\t\t}\n\t}\n",
  "\tif flags.Contains(primitive.QueryFlagPagingState) {\n\t\tif options.PagingState, err = primitive.ReadBytes(source); err != nil {\n\t\t\treturn nil, fmt.Errorf(\"cannot read paging state: %w\", err)\n\t\t}\n\t}\n\tif flags.Contains(primitive.QueryFlagPageSize) {\n\t\tif options.PageSize, err = primitive.ReadInt(source); err != nil {\n\t\t\treturn nil, fmt.Errorf(\"cannot read page size: %w\", err)\n\t\t}\n\t\tif flags.Contains(primitive.QueryFlagDsePageSizeBytes) {\n\t\t\toptions.PageSizeInBytes = true\n\t\t}\n\t}\n",
  "enc-vs-dec:queryCodec@", "decoder reads paging state before page size")
k("K27", "C01", "message/execute.go", "\tif version.SupportsResultMetadataId() {\n\t\tif execute.ResultMetadataId, err = primitive.ReadShortBytes(source)", "\tif version >= primitive.ProtocolVersion5 {\n\t\tif execute.ResultMetadataId, err = primitive.ReadShortBytes(source)",
  "enc-vs-dec:executeCodec@D1", "decoder expects a field the encoder omits for DSE v1")
k("K28", "C01", "message/batch.go", "\t\tcase primitive.BatchChildTypeQueryString:\n\t\t\tif child.Query, err = primitive.ReadLongString(source); err != nil {", "\t\tcase primitive.BatchChildTypePreparedId:\n\t\t\tif child.Query, err = primitive.ReadLongString(source); err != nil {",
  "enc-vs-dec:batchCodec@", "child kind arms swapped (duplicate case would not compile, so one arm is relabelled)")
C.pop()
k2("K28", "C01", [("message/batch.go", "\t\tcase primitive.BatchChildTypeQueryString:\n\t\t\tif child.Query, err = primitive.ReadLongString(source); err != nil {", "\t\tcase primitive.BatchChildTypePreparedId:\n\t\t\tif child.Query, err = primitive.ReadLongString(source); err != nil {"),
  ("message/batch.go", "\t\tcase primitive.BatchChildTypePreparedId:\n\t\t\tif child.Id, err = primitive.ReadShortBytes(source); err != nil {", "\t\tcase primitive.BatchChildTypeQueryString:\n\t\t\tif child.Id, err = primitive.ReadShortBytes(source); err != nil {")],
  "enc-vs-dec:batchCodec@", "child kind arms swapped in the decoder")
k("K29", "C01", "message/prepare.go", "type Prepare struct {\n", "type Prepare struct {\n\tHint string\n",
  "field-coverage:Prepare.Hint", "exported field used by neither side")
k("K30", "C01", "message/main.go", "\t&authSuccessCodec{},\n", "",
  "registry:codec for OpCodeAuthSuccess", "codec dropped from the registry")
k("K15", "C01", "message/result.go", "\tdefault:\n\t\treturn nil, fmt.Errorf(\"unknown RESULT type: %v\", resultType)\n\t}\n}", "\t}\n\treturn nil, nil\n}",
  "non-nil-result:resultCodec@", "unknown result kind yields a nil message without error")
k("K87", "C01", "frame/decode.go", "\tif header.IsResponse && header.Flags.Contains(primitive.HeaderFlagWarning) {", "\tif header.IsResponse && header.Flags.Contains(primitive.HeaderFlagWarning) && header.Version >= primitive.ProtocolVersion5 {",
  "enc-vs-dec:frame.body@v4", "warnings read only from v5 on, written from v4 on")
k("K88", "C01", "message/result_metadata.go", "\tif flags.Contains(primitive.RowsFlagMetadataChanged) {\n\t\tif metadata.NewResultMetadataId, err = primitive.ReadShortBytes(source)", "\tif flags.Contains(primitive.RowsFlagHasMorePages) {\n\t\tif metadata.NewResultMetadataId, err = primitive.ReadShortBytes(source)",
  "enc-vs-dec:resultCodec@", "reader guards a field with the wrong flag constant")

# ---- C02
k("K06", "C02", "primitive/constants.go", "\tQueryFlagPageSize          = QueryFlag(0x00000004)\n\tQueryFlagPagingState       = QueryFlag(0x00000008)\n", "\tQueryFlagPageSize          = QueryFlag(0x00000008)\n\tQueryFlagPagingState       = QueryFlag(0x00000004)\n",
  "layout-enc:QUERY", "two flag bits swapped (symmetric: round trips still work)")
k2("K31", "C02", [("message/error.go", "\t\t} else if err = primitive.WriteInt(unavailable.Required, dest); err != nil {", "\t\t} else if err = primitive.WriteShort(uint16(unavailable.Required), dest); err != nil {"),
  ("message/error.go", "\t\tif msg.Required, err = primitive.ReadInt(source); err != nil {", "\t\tvar req uint16\n\t\tif req, err = primitive.ReadShort(source); err != nil {")],
  "layout-enc:ERROR", "width changed on both sides")
C.pop()
k("K33", "C02", "frame/decode.go", "\t\t} else if isResponse {\n\t\t\tif err := primitive.CheckResponseOpCode(header.OpCode); err != nil {\n\t\t\t\treturn nil, err\n\t\t\t}\n\t\t} else {", "\t\t} else if isResponse {\n\t\t} else {",
  "header-rejection:DecodeHeader", "response direction not checked against the opcode")
k2("K32", "C02", [("frame/encode.go", "\tif header.Flags.Contains(primitive.HeaderFlagTracing) && body.Message.IsResponse() {\n\t\tif err = primitive.WriteUuid(body.TracingId, dest); err != nil {\n\t\t\treturn fmt.Errorf(\"cannot encode body tracing id: %w\", err)\n\t\t}\n\t}\n\tif header.Flags.Contains(primitive.HeaderFlagCustomPayload) {\n\t\tif header.Version < primitive.ProtocolVersion4 {\n\t\t\treturn fmt.Errorf(\"custom payloads are not supported in protocol version %v\", header.Version)\n\t\t} else if err = primitive.WriteBytesMap(body.CustomPayload, dest); err != nil {\n\t\t\treturn fmt.Errorf(\"cannot encode body custom payload: %w\", err)\n\t\t}\n\t}\n",
   "\tif header.Flags.Contains(primitive.HeaderFlagCustomPayload) {\n\t\tif header.Version < primitive.ProtocolVersion4 {\n\t\t\treturn fmt.Errorf(\"custom payloads are not supported in protocol version %v\", header.Version)\n\t\t} else if err = primitive.WriteBytesMap(body.CustomPayload, dest); err != nil {\n\t\t\treturn fmt.Errorf(\"cannot encode body custom payload: %w\", err)\n\t\t}\n\t}\n\tif header.Flags.Contains(primitive.HeaderFlagTracing) && body.Message.IsResponse() {\n\t\tif err = primitive.WriteUuid(body.TracingId, dest); err != nil {\n\t\t\treturn fmt.Errorf(\"cannot encode body tracing id: %w\", err)\n\t\t}\n\t}\n"),
  ("frame/decode.go", "\tif header.IsResponse && header.Flags.Contains(primitive.HeaderFlagTracing) {\n\t\tif body.TracingId, err = primitive.ReadUuid(source); err != nil {\n\t\t\treturn nil, fmt.Errorf(\"cannot decode body tracing id: %w\", err)\n\t\t}\n\t}\n\tif header.Flags.Contains(primitive.HeaderFlagCustomPayload) {\n\t\tif body.CustomPayload, err = primitive.ReadBytesMap(source); err != nil {\n\t\t\treturn nil, fmt.Errorf(\"cannot decode body custom payload: %w\", err)\n\t\t}\n\t}\n",
   "\tif header.Flags.Contains(primitive.HeaderFlagCustomPayload) {\n\t\tif body.CustomPayload, err = primitive.ReadBytesMap(source); err != nil {\n\t\t\treturn nil, fmt.Errorf(\"cannot decode body custom payload: %w\", err)\n\t\t}\n\t}\n\tif header.IsResponse && header.Flags.Contains(primitive.HeaderFlagTracing) {\n\t\tif body.TracingId, err = primitive.ReadUuid(source); err != nil {\n\t\t\treturn nil, fmt.Errorf(\"cannot decode body tracing id: %w\", err)\n\t\t}\n\t}\n")],
  "prefix:", "custom payload moved before the tracing id on both sides")
k2("K89", "C02", [("message/result_metadata.go", "\tif flags.Contains(primitive.RowsFlagMetadataChanged) {\n\t\tif err = primitive.WriteShortBytes(metadata.NewResultMetadataId, dest); err != nil {\n\t\t\treturn fmt.Errorf(\"cannot write RESULT Rows metadata new result metadata id: %w\", err)\n\t\t}\n\t}\n\tif flags.Contains(primitive.RowsFlagDseContinuousPaging) {\n\t\tif err = primitive.WriteInt(metadata.ContinuousPageNumber, dest); err != nil {\n\t\t\treturn fmt.Errorf(\"cannot write RESULT Rows metadata continuous page number: %w\", err)\n\t\t}\n\t}\n",
   "\tif flags.Contains(primitive.RowsFlagDseContinuousPaging) {\n\t\tif err = primitive.WriteInt(metadata.ContinuousPageNumber, dest); err != nil {\n\t\t\treturn fmt.Errorf(\"cannot write RESULT Rows metadata continuous page number: %w\", err)\n\t\t}\n\t}\n\tif flags.Contains(primitive.RowsFlagMetadataChanged) {\n\t\tif err = primitive.WriteShortBytes(metadata.NewResultMetadataId, dest); err != nil {\n\t\t\treturn fmt.Errorf(\"cannot write RESULT Rows metadata new result metadata id: %w\", err)\n\t\t}\n\t}\n"),
  ("message/result_metadata.go", "\tif flags.Contains(primitive.RowsFlagMetadataChanged) {\n\t\tif metadata.NewResultMetadataId, err = primitive.ReadShortBytes(source); err != nil {\n\t\t\treturn nil, fmt.Errorf(\"cannot read RESULT Rows metadata new result metadata id: %w\", err)\n\t\t}\n\t}\n\tif flags.Contains(primitive.RowsFlagDseContinuousPaging) {\n\t\tif metadata.ContinuousPageNumber, err = primitive.ReadInt(source); err != nil {\n\t\t\treturn nil, fmt.Errorf(\"cannot read RESULT Rows metadata continuous paging number: %w\", err)\n\t\t}\n\t\tmetadata.LastContinuousPage = flags.Contains(primitive.RowsFlagDseLastContinuousPage)\n\t}\n",
   "\tif flags.Contains(primitive.RowsFlagDseContinuousPaging) {\n\t\tif metadata.ContinuousPageNumber, err = primitive.ReadInt(source); err != nil {\n\t\t\treturn nil, fmt.Errorf(\"cannot read RESULT Rows metadata continuous paging number: %w\", err)\n\t\t}\n\t\tmetadata.LastContinuousPage = flags.Contains(primitive.RowsFlagDseLastContinuousPage)\n\t}\n\tif flags.Contains(primitive.RowsFlagMetadataChanged) {\n\t\tif metadata.NewResultMetadataId, err = primitive.ReadShortBytes(source); err != nil {\n\t\t\treturn nil, fmt.Errorf(\"cannot read RESULT Rows metadata new result metadata id: %w\", err)\n\t\t}\n\t}\n")],
  "layout-enc:RESULT", "two optional metadata fields swapped in encoder and decoder (seeded C02-A)")
k("K90", "C02", "message/execute.go", "\tif version.SupportsResultMetadataId() {\n\t\tif execute.ResultMetadataId, err = primitive.ReadShortBytes(source)", "\tif version >= primitive.ProtocolVersion5 && version != primitive.ProtocolVersionDse2 {\n\t\tif execute.ResultMetadataId, err = primitive.ReadShortBytes(source)",
  "layout-dec:EXECUTE", "decoder drops a field the DSE v2 specification prescribes")
k("K91", "C02", "primitive/integers.go", "func ReadLong(source io.Reader) (decoded int64, err error) {\n\tif err = binary.Read(source, binary.BigEndian, &decoded); err != nil {\n\t\terr = fmt.Errorf(\"cannot read [long]: %w\", err)\n\t}\n\treturn decoded, err\n}",
  "func ReadLong(source io.Reader) (decoded int64, err error) {\n\tvar hi, lo int32\n\tif err = binary.Read(source, binary.BigEndian, &hi); err == nil {\n\t\terr = binary.Read(source, binary.BigEndian, &lo)\n\t}\n\tif err != nil {\n\t\treturn 0, fmt.Errorf(\"cannot read [long]: %w\", err)\n\t}\n\treturn int64(hi)<<32 | int64(lo), nil\n}",
  "bit-assembly:primitive.ReadLong", "long assembled from two sign-extended halves (seeded C01-B)")

# ---- C05
k("K34", "C05", "frame/decode.go", "\tcount := int64(header.BodyLength)\n\tbuf := bytes.NewBuffer(make([]byte, 0, count))", "\tcount := int64(header.BodyLength) + 1\n\tbuf := bytes.NewBuffer(make([]byte, 0, count))",
  "raw-count:DecodeRawBody", "raw run one byte longer than declared")
k("K35", "C05", "frame/encode.go", "\t\tframe.Header.BodyLength = int32(len(frame.Body))\n\t\tif err := c.EncodeHeader(frame.Header, dest); err != nil {\n\t\t\treturn fmt.Errorf(\"cannot encode raw header: %w\", err)\n\t\t} else if",
  "\t\tframe.Header.BodyLength = int32(len(frame.Body))\n\t\tvd := uint8(frame.Header.Version)\n\t\tif frame.Header.IsResponse {\n\t\t\tvd |= 0x80\n\t\t}\n\t\t_ = primitive.WriteByte(vd, dest)\n\t\t_ = primitive.WriteByte(uint8(frame.Header.Flags), dest)\n\t\t_ = primitive.WriteByte(uint8(frame.Header.OpCode), dest)\n\t\t_ = primitive.WriteStreamId(frame.Header.StreamId, dest, frame.Header.Version)\n\t\tif err := primitive.WriteInt(frame.Header.BodyLength, dest); err != nil {\n\t\t\treturn fmt.Errorf(\"cannot encode raw header: %w\", err)\n\t\t} else if",
  "header-shape:EncodeRawFrame", "inline header reimplementation with opcode before stream id")
k("K92", "C05", "frame/decode.go", "\tbuf := bytes.NewBuffer(make([]byte, 0, count))\n\tif _, err := io.CopyN(buf, source, count); err != nil {\n\t\treturn nil, fmt.Errorf(\"cannot decode raw body: %w\", err)\n\t}\n\treturn buf.Bytes(), nil",
  "\tif b, ok := source.(*bytes.Buffer); ok && int64(b.Len()) >= count {\n\t\treturn b.Next(int(count)), nil\n\t}\n\tbuf := bytes.NewBuffer(make([]byte, 0, count))\n\tif _, err := io.CopyN(buf, source, count); err != nil {\n\t\treturn nil, fmt.Errorf(\"cannot decode raw body: %w\", err)\n\t}\n\treturn buf.Bytes(), nil",
  "raw-", "zero-copy fast path aliases the caller's buffer (seeded C05-B)")
k("K93", "C05", "frame/convert.go", "c.DecodeBody(frame.Header, bytes.NewBuffer(frame.Body))", "c.DecodeBody(&Header{Version: frame.Header.Version, OpCode: frame.Header.OpCode, IsResponse: frame.Header.IsResponse}, bytes.NewBuffer(frame.Body))",
  "convert:ConvertFromRawFrame", "body decoded with a header that lost its flags")
k("K94", "C05", "frame/encode.go", "\tif header.Flags.Contains(primitive.HeaderFlagCustomPayload) {\n\t\tlength += primitive.LengthOfBytesMap(body.CustomPayload)", "\tif header.Flags.Contains(primitive.HeaderFlagCustomPayload) && len(body.CustomPayload) > 0 {\n\t\tlength += primitive.LengthOfBytesMap(body.CustomPayload)",
  "body-length:frame.body@", "empty custom payload not counted (seeded C05-A)")

# ---- C06 / C07
k("K36", "C06", "segment/encode.go", "\tif payloadLength > MaxPayloadLength {\n\t\treturn fmt.Errorf(\"paload length exceeds maximum allowed: %v > %v\", payloadLength, MaxPayloadLength)\n\t} else {", "\t{",
  "refusal:EncodeSegment", "max payload test deleted")
k("K37", "C06", "segment/decode.go", "\t\theader.CompressedPayloadLength = int32(headerData & MaxPayloadLength)\n\t\theaderData >>= 17", "\t\theader.CompressedPayloadLength = int32(headerData & MaxPayloadLength)\n\t\theaderData >>= 16",
  "reader-layout:", "second length read at the wrong shift")
k("K95", "C06", "segment/encode.go", "\tconst flagOffset = 34\n", "\tconst flagOffset = 33\n",
  "writer-layout:", "self-contained flag written at bit 33")
k("K96", "C06", "segment/encode.go", "\tif c.compressor == nil {\n\t\t\treturn c.encodeSegmentUncompressed(segment, dest)", "\tif c.compressor == nil || payloadLength == 0 {\n\t\t\treturn c.encodeSegmentUncompressed(segment, dest)",
  "trace:compressor=true", "empty payload takes the 3-byte header on a compressing codec (seeded C06-A)")
k("K97", "C06", "segment/encode.go", "binary.Write(dest, binary.LittleEndian, payloadCrc)", "binary.Write(dest, binary.BigEndian, payloadCrc)",
  "writer-layout:", "CRC-32 trailer big-endian")
k("K98", "C06", "segment/encode.go", "\t\t\tsegment.Header.CompressedPayloadLength = segment.Header.UncompressedPayloadLength\n\t\t\tsegment.Header.UncompressedPayloadLength = 0", "\t\t\tsegment.Header.CompressedPayloadLength = 0",
  "fallback:signalling", "fallback signalled through the other field")
k("K38", "C07", "segment/decode.go", "\tif actualHeaderCrc != expectedHeaderCrc {\n\t\treturn nil, fmt.Errorf(\n\t\t\t\"crc mismatch on header %x: received %x, computed %x\",\n\t\t\theaderData,\n\t\t\texpectedHeaderCrc,\n\t\t\tactualHeaderCrc)\n\t}\n", "\tif actualHeaderCrc != expectedHeaderCrc {\n\t\t_ = fmt.Sprintf(\"crc mismatch on header %x\", headerData)\n\t}\n",
  "crc-dominance:decodeSegmentHeader", "mismatch only logged")
k("K39", "C07", "segment/decode.go", "\tif actualPayloadCrc != expectedPayloadCrc {", "\tif actualPayloadCrc&0xFFFFFF != expectedPayloadCrc&0xFFFFFF {",
  "crc", "masked CRC-32 comparison")
k("K40", "C07", "crc/crc24.go", "const crc24Init uint32 = 0x875060", "const crc24Init uint32 = 0x875061",
  "crc-params:crc24Init", "wrong CRC-24 init")
k("K99", "C07", "segment/decode.go", "\tactualHeaderCrc := crc.ChecksumKoopman(headerData, headerLength)", "\tactualHeaderCrc := crc.ChecksumKoopman(headerData&0x7FFFFFFFF, headerLength)",
  "crc24:input", "padding bits excluded from the CRC-24 (seeded C07-A)")
k("K100", "C07", "segment/decode.go", "\tencodedPayload := make([]byte, length)\n", "\tif length == 0 {\n\t\tvar skip uint32\n\t\tif err := binary.Read(source, binary.LittleEndian, &skip); err != nil {\n\t\t\treturn nil, err\n\t\t}\n\t\treturn &Payload{Crc32: crc.ChecksumIEEE(nil)}, nil\n\t}\n\tencodedPayload := make([]byte, length)\n",
  "crc", "empty payload fast path skips the CRC-32 comparison (seeded C07-B)")
k("K101", "C07", "segment/decode.go", "\tactualPayloadCrc := crc.ChecksumIEEE(encodedPayload)", "\tactualPayloadCrc := crc.ChecksumIEEE(encodedPayload[:len(encodedPayload)/2])",
  "crc32:input", "CRC-32 over half the payload")

# ---- C18
k2("K48", "C18", [("frame/codec.go", "type codec struct {\n", "type codec struct {\n\tscratch []byte\n"),
  ("frame/encode.go", "func (c *codec) EncodeBody(header *Header, body *Body, dest io.Writer) error {\n", "func (c *codec) EncodeBody(header *Header, body *Body, dest io.Writer) error {\n\tc.scratch = c.scratch[:0]\n")],
  "write-free:(*frame.codec).EncodeBody", "scratch buffer cached in a codec field")
k2("K49", "C18", [("compression/lz4/lz4.go", "type Compressor struct{}\n", "type Compressor struct{}\n\nvar scratch []byte\n"),
  ("compression/lz4/lz4.go", "\t\tcompressedMessage := make([]byte, maxCompressedSize)\n", "\t\tif cap(scratch) < maxCompressedSize {\n\t\t\tscratch = make([]byte, maxCompressedSize)\n\t\t}\n\t\tcompressedMessage := scratch[:maxCompressedSize]\n")],
  "write-free:(compression/lz4.Compressor).Compress", "package-level scratch buffer reused")
k2("K102", "C18", [("datacodec/varint.go", "func readBigInt(source []byte) (val *big.Int) {", "var scratchModulus = new(big.Int)\n\nfunc readBigInt(source []byte) (val *big.Int) {"),
  ("datacodec/varint.go", "\t\t\tval.Sub(val, new(big.Int).Lsh(oneBigInt, uint(length)*8))", "\t\t\tval.Sub(val, scratchModulus.Lsh(oneBigInt, uint(length)*8))")],
  "write-free:datacodec.readBigInt", "shared scratch big.Int (seeded C18-B)")
k("K103", "C18", "datacodec/collection.go", "\text, size, err := c.createExtractor(source)\n", "\text, size, err := c.createExtractor(source)\n\tif c.elementCodec == nil {\n\t\tc.elementCodec = Blob // lazily default the element codec\n\t}\n",
  "write-free:(*datacodec.collectionCodec).Encode", "lazy initialisation of a field of a shared CQL codec")
k2("K104", "C18", [("frame/encode.go", "func (c *codec) EncodeBody(header *Header, body *Body, dest io.Writer) error {\n", "var bodyPool = sync.Pool{New: func() interface{} { return new(bytes.Buffer) }}\n\nfunc (c *codec) EncodeBody(header *Header, body *Body, dest io.Writer) error {\n\tpooled := bodyPool.Get().(*bytes.Buffer)\n\tdefer bodyPool.Put(pooled)\n\tif header == nil {\n\t\tbodyPool.Put(pooled)\n\t\treturn errors.New(\"nil header\")\n\t}\n"),
  ("frame/encode.go", "import (\n\t\"bytes\"\n", "import (\n\t\"bytes\"\n\t\"sync\"\n")],
  "pool:(*frame.codec).EncodeBody", "pooled buffer released twice on an error path (seeded C18-A)")

# ---- C09 / C10
k("K50", "C09", "client/inflight.go", "\tif managedStreamId {\n\t\t// the request was not registered: return the borrowed stream id to the pool\n\t\t_ = h.releaseStreamId(streamId)\n\t}\n", "",
  "borrow-release:", "release on the error exit removed")
k2("K51", "C09", [("client/inflight.go", "\t} else if len(h.inFlight) == h.maxInFlight {\n\t\treturn nil, fmt.Errorf(\"%v: too many in-flight requests: %v\", h, h.maxInFlight)\n\t} else if _, found := h.inFlight[streamId]; found {\n\t\treturn nil, fmt.Errorf(\"%v: stream id already in use: %d\", h, streamId)\n\t}\n", "\t}\n"),
  ("client/inflight.go", "\tvar inFlight *inFlightRequest\n\tif inFlight, err = h.addInFlight(streamId, managedStreamId); err == nil {", "\th.inFlightLock.RLock()\n\tif len(h.inFlight) == h.maxInFlight {\n\t\terr = fmt.Errorf(\"%v: too many in-flight requests: %v\", h, h.maxInFlight)\n\t} else if _, found := h.inFlight[streamId]; found {\n\t\terr = fmt.Errorf(\"%v: stream id already in use: %d\", h, streamId)\n\t}\n\th.inFlightLock.RUnlock()\n\tvar inFlight *inFlightRequest\n\tif err != nil {\n\t} else if inFlight, err = h.addInFlight(streamId, managedStreamId); err == nil {")],
  "atomic-insert:", "tests moved out of the write-lock region")
k("K52", "C09", "client/inflight.go", "\tselect {\n\tcase id, ok := <-h.streamIds:\n\t\tif !ok {\n\t\t\treturn -1, fmt.Errorf(\"%v: handler closed\", h)\n\t\t}\n\t\tlog.Debug().Msgf(\"%v: borrowed stream id: %v\", h, id)\n\t\treturn id, nil\n\tdefault:\n\t\treturn -1, fmt.Errorf(\"%v: no stream id available\", h)\n\t}", "\tid, ok := <-h.streamIds\n\tif !ok {\n\t\treturn -1, fmt.Errorf(\"%v: handler closed\", h)\n\t}\n\treturn id, nil",
  "non-blocking:", "blocking receive on the id pool")
k("K105", "C09", "client/inflight.go", "\tfor i := 1; i <= maxInFlight; i++ {", "\tfor i := 0; i < maxInFlight; i++ {",
  "non-blocking:", "pool prefilled with 0..N-1 (0 is the managed marker)")
k("K106", "C09", "client/inflight.go", "\t\t\tif inFlight.managedStreamId {\n\t\t\t\tif err := h.releaseStreamId(streamId); err != nil {\n\t\t\t\t\treturn err\n\t\t\t\t}\n\t\t\t}\n\t\t}\n\t\terr = inFlight.onFrameReceived(f)", "\t\t}\n\t\terr = inFlight.onFrameReceived(f)\n\t\tif err == nil && isLastFrame(f) && inFlight.managedStreamId {\n\t\t\terr = h.releaseStreamId(streamId)\n\t\t}",
  "incoming-release:", "id released only when delivery succeeded (seeded C09-B)")
k("K107", "C09", "client/inflight.go", "\t\t\tif rows.Metadata.Flags()&primitive.RowsFlagDseContinuousPaging != 0 {", "\t\t\tif f.Header.Version == primitive.ProtocolVersionDse2 && rows.Metadata.Flags()&primitive.RowsFlagDseContinuousPaging != 0 {",
  "last-frame:", "continuous paging recognised for DSE v2 only (seeded C09-A)")
k("K53", "C10", "client/inflight.go", "\tif inFlight, found = h.inFlight[streamId]; !found {", "\tif inFlight, found = h.inFlight[int16(f.Header.BodyLength)]; !found {",
  "routing-key:", "lookup key is not the frame's stream id")
k("K54", "C10", "client/client.go", "\t\t\tlog.Error().Msgf(\"%v: events queue is full, discarding event frame: %v\", c, incoming)\n\t\t}\n\t} else {\n", "\t\t\tlog.Error().Msgf(\"%v: events queue is full, discarding event frame: %v\", c, incoming)\n\t\t}\n\t}\n\t{\n",
  "event-routing:", "events also reach the in-flight handler")
k("K108", "C10", "client/inflight.go", "\tif inFlight, found = h.inFlight[streamId]; !found {\n\t\terr = fmt.Errorf(\"%v: unknown stream id: %d\", h, streamId)\n\t}\n\th.inFlightLock.RUnlock()", "\tif inFlight, found = h.inFlight[streamId]; !found {\n\t\treturn fmt.Errorf(\"%v: unknown stream id: %d\", h, streamId)\n\t}\n\th.inFlightLock.RUnlock()",
  "lock-pairing:inFlightRequestsHandler.onIncomingFrameReceived", "read lock leaked on the unknown-id path (seeded C10-B)")
k("K109", "C10", "client/inflight.go", "\t\t\t\treturn rows.Metadata.LastContinuousPage\n", "\t\t\t\treturn rows.Metadata.LastContinuousPage || rows.Metadata.PagingState == nil\n",
  "last-frame:", "page without paging state taken for the last one (seeded C10-A)")
k("K110", "C10", "client/inflight.go", "\t\tif isLastFrame(f) {\n\t\t\tr.stopTimeout()\n\t\t\tr.close(nil)\n\t\t} else {\n\t\t\tr.resetTimeout()\n\t\t}", "\t\tr.stopTimeout()\n\t\tr.close(nil)",
  "request-delivery:", "every page completes the request")

# ---- C15 / C16
k("K55", "C15", "client/client.go", "\toutgoing.Header.Flags = outgoing.Header.Flags.Remove(primitive.HeaderFlagCompressed)\n", "\toutgoing.Header.Flags.Remove(primitive.HeaderFlagCompressed)\n",
  "flag-clear:(*client.CqlClientConnection).writeSegment", "result of Remove discarded on the client side")
k("K56", "C15", "client/client.go", "\t\tpayloadAccumulator: &payloadAccumulator{\n\t\t\tframeCodec: frame.NewRawCodec(), // without compression\n\t\t},\n\t}\n\tconnection.ctx, connection.cancel = context.WithCancel(ctx)\n\tconnection.inFlightHandler", "\t}\n\tconnection.ctx, connection.cancel = context.WithCancel(ctx)\n\tconnection.inFlightHandler",
  "field-init:CqlClientConnection.payloadAccumulator", "accumulator never created")
k("K111", "C15", "client/client.go", "func (a *payloadAccumulator) reset() {\n\ta.targetLength = 0\n\ta.accumulatedData = nil\n}", "func (a *payloadAccumulator) reset() {\n\ta.accumulatedData = a.accumulatedData[:0]\n}",
  "accumulator:payloadAccumulator.reset clears", "reset keeps the stale target length (seeded C15-A)")
k("K112", "C15", "primitive/constants.go", "func (v ProtocolVersion) SupportsModernFramingLayout() bool {\n\treturn v >= ProtocolVersion5 && v != ProtocolVersionDse1 && v != ProtocolVersionDse2\n}", "func (v ProtocolVersion) SupportsModernFramingLayout() bool {\n\treturn v >= ProtocolVersion5 && v != ProtocolVersionDse1\n}",
  "modern-switch:SupportsModernFramingLayout@D2", "DSE v2 treated as a segment-framing version (seeded C15-B)")
k("K113", "C15", "client/server.go", "\tif !c.modernLayout &&\n\t\toutgoing.Header.Version.SupportsModernFramingLayout() &&\n\t\t(isReady(outgoing) || isAuthenticate(outgoing)) {", "\tif !c.modernLayout &&\n\t\toutgoing.Header.Version.SupportsModernFramingLayout() {",
  "modern-switch:CqlServerConnection.maybeSwitchToModernLayout", "server switches framing on any frame")
k("K114", "C15", "client/client.go", "\tfor payloadReader.Len() > 0 {\n\t\tif abort = c.readFrame(payloadReader); abort {\n\t\t\tbreak\n\t\t}\n\t}\n\treturn abort\n}\n\nfunc (c *CqlClientConnection) addMultiSegmentPayload", "\tif payloadReader.Len() > 0 {\n\t\tabort = c.readFrame(payloadReader)\n\t}\n\treturn abort\n}\n\nfunc (c *CqlClientConnection) addMultiSegmentPayload",
  "accumulator:(*client.CqlClientConnection).readSelfContainedSegment drain", "only the first envelope of a segment is read")
k("K57", "C16", "client/inflight.go", "func (r *inFlightRequest) resetTimeout() {", "func (r inFlightRequest) resetTimeout() {",
  "value-receiver:", "value receiver on a method that restarts the timer")
k2("K58", "C16", [("client/client.go", "\t\tclose(outgoing)\n\t\tclose(events)\n", "\t\tclose(outgoing)\n\t\t_ = events\n"),
  ("client/client.go", "\t\tlog.Debug().Err(err).Msgf(\"%v: already closed\", c)\n\t}\n\treturn err\n}\n\nfunc (c *CqlClientConnection) abort()", "\t\tlog.Debug().Err(err).Msgf(\"%v: already closed\", c)\n\t}\n\tif ch := c.EventChannel(); ch != nil {\n\t\tclose(c.events)\n\t}\n\treturn err\n}\n\nfunc (c *CqlClientConnection) abort()")],
  "close-once:", "close outside the won-CAS branch")
k("K59", "C16", "client/client.go", "\t\t\tif source, err := c.waitForIncomingData(); err != nil {\n\t\t\t\tabort = c.reportConnectionFailure(err, true)\n\t\t\t} else if c.modernLayout {", "\t\t\tif source, err := c.waitForIncomingData(); err != nil {\n\t\t\t\tif c.reportConnectionFailure(err, true) {\n\t\t\t\t\tc.abort()\n\t\t\t\t\treturn\n\t\t\t\t}\n\t\t\t} else if c.modernLayout {",
  "waitgroup:", "goroutine aborts and returns before Done")
k("K60", "C16", "client/inflight.go", "\t\t\tinFlight.close(fmt.Errorf(\"%v: handler closed\", h))", "\t\t\tinFlight.close(nil)",
  "pending-error:", "pending requests completed without an error")
k("K115", "C16", "client/inflight.go", "func (r *inFlightRequest) resetTimeout() {\n\tr.stopTimeout()\n\tr.startTimeout()\n}", "func (r *inFlightRequest) resetTimeout() {\n\tr.stopTimeout()\n\tif r.timeoutCtx.Err() == nil {\n\t\tr.startTimeout()\n\t}\n}",
  "timeout-restart:", "timer restarted only if the cancelled context has no error (seeded C16-A)")
k("K116", "C16", "client/server.go", "\t\tc.cancel()\n\t\terr = c.conn.Close()\n\t\tincoming := c.incoming", "\t\tc.cancel()\n\t\tif err = c.conn.Close(); err != nil {\n\t\t\treturn fmt.Errorf(\"%v: error closing: %w\", c, err)\n\t\t}\n\t\tincoming := c.incoming",
  "cleanup-complete:CqlServerConnection.Close", "Close returns early when the socket close fails (seeded C16-B)")
k("K117", "C16", "client/connection.go", "\t\t\tif holder.conn != nil {\n\t\t\t\tif err := holder.conn.Close(); err != nil {\n\t\t\t\t\tlog.Error().Err(err).Msg(err.Error())\n\t\t\t\t}\n\t\t\t}", "\t\t\tif err := holder.conn.Close(); err != nil {\n\t\t\t\tlog.Error().Err(err).Msg(err.Error())\n\t\t\t}",
  "field-init:connectionHolder.conn", "nil connection of a pending accept closed")
k("K118", "C16", "client/server.go", "func (c *CqlServerConnection) Send(f *frame.Frame) error {\n\tif c.IsClosed() {\n\t\treturn fmt.Errorf(\"%v: connection closed\", c)\n\t}\n", "func (c *CqlServerConnection) Send(f *frame.Frame) error {\n",
  "closed-test:CqlServerConnection.Send", "send without the closed-flag test")
k("K126", "C13", "datacodec/timestamp.go", "\t\tif millis, overflow = multiplyExact(seconds, 1000); !overflow {\n\t\t\tmillis, overflow = addExact(millis, nanos/millisecond)\n\t\t}", "\t\tmillis, overflow = multiplyExact(seconds, 1000)\n\t\tmillis, overflow = addExact(millis, nanos/millisecond)",
  "flag-examined:datacodec.ConvertTimeToEpochMillis -> multiplyExact#2", "overflow flag overwritten before it is tested")
k("K127", "C13", "datacodec/int.go", "\tcase int64:\n\t\tval, err = int64ToInt32(s)\n", "\tcase int64:\n\t\tval, _ = int64ToInt32(s)\n",
  "flag-examined:datacodec.convertToInt32 -> int64ToInt32#1", "range error discarded")
# ---- primitive byte-level rules (C01 primitive-pairing, C02 primitive-layout)
k("K144", "C01", "primitive/short_bytes.go", "func ReadShortBytes(source io.Reader) ([]byte, error) {\n\tif length, err := ReadShort(source); err != nil {", "func ReadShortBytes(source io.Reader) ([]byte, error) {\n\tif length, err := ReadInt(source); err != nil {",
  "primitive-pairing:shortbytes", "length read as [int] but written as [short]")
k("K145", "C01", "primitive/integers.go", "\tif err := binary.Write(dest, binary.BigEndian, l); err != nil {\n\t\treturn fmt.Errorf(\"cannot write [long]: %w\", err)", "\tif err := binary.Write(dest, binary.LittleEndian, l); err != nil {\n\t\treturn fmt.Errorf(\"cannot write [long]: %w\", err)",
  "primitive-pairing:long", "little-endian writer, big-endian reader")
k("K146", "C01", "primitive/bytes.go", "func ReadBytes(source io.Reader) ([]byte, error) {\n\tif length, err := ReadInt(source); err != nil {\n\t\treturn nil, fmt.Errorf(\"cannot read [bytes] length: %w\", err)\n\t} else if length < 0 {", "func ReadBytes(source io.Reader) ([]byte, error) {\n\tif length, err := ReadInt(source); err != nil {\n\t\treturn nil, fmt.Errorf(\"cannot read [bytes] length: %w\", err)\n\t} else if length < -1 {",
  "primitive-pairing:bytes", "null marker -1 is no longer accepted by the reader's null path")
k2("K147", "C02", [("primitive/string.go", "\tif length, err := ReadShort(source); err != nil {\n\t\treturn \"\", fmt.Errorf(\"cannot read [string] length: %w\", err)", "\tif length, err := ReadInt(source); err != nil {\n\t\treturn \"\", fmt.Errorf(\"cannot read [string] length: %w\", err)"),
   ("primitive/string.go", "\tif err := WriteShort(uint16(length), dest); err != nil {\n\t\treturn fmt.Errorf(\"cannot write [string] length: %w\", err)", "\tif err := WriteInt(int32(length), dest); err != nil {\n\t\treturn fmt.Errorf(\"cannot write [string] length: %w\", err)")],
  "primitive-layout:string", "[string] length 4 bytes on both sides: symmetric, invisible to pairing")
k("K148", "C02", "primitive/integers.go", "\tif err := binary.Write(dest, binary.BigEndian, l); err != nil {\n\t\treturn fmt.Errorf(\"cannot write [long]: %w\", err)", "\tif err := binary.Write(dest, binary.LittleEndian, l); err != nil {\n\t\treturn fmt.Errorf(\"cannot write [long]: %w\", err)",
  "primitive-layout:long", "little-endian [long]")

# ---- C11
k("K44", "C11", "datacodec/bigint.go", "\tcase *uint16:\n\t\tif d == nil {\n\t\t\terr = ErrNilDestination\n\t\t} else if wasNull {\n\t\t\t*d = 0\n\t\t} else {\n\t\t\t*d, err = int64ToUint16(val)\n\t\t}\n", "",
  "type-symmetry:bigintCodec source *uint16", "source type accepted, destination type not")
k("K137", "C11", "datacodec/int.go", "\t\t} else if wasNull {\n\t\t\t*d = nil\n\t\t} else {\n\t\t\t*d = val\n\t\t}\n\tcase *int:", "\t\t} else if wasNull {\n\t\t\t*d = nil\n\t\t} else {\n\t\t\t*d = int64(val)\n\t\t}\n\tcase *int:",
  "preferred-type:int", "untyped destination receives int64 instead of the documented int32")
k("K138", "C11", "datacodec/int.go", "\t\t\t*d = strconv.FormatInt(int64(val), 10)", "\t\t\t*d = strconv.FormatInt(int64(val), 16)",
  "text-base:convertFromInt32 -> FormatInt#1", "hexadecimal text on the decoding side only")
k("K139", "C11", "datacodec/int.go", "\t\t} else {\n\t\t\t*d = int64(val)\n\t\t}", "\t\t} else {\n\t\t\t*d = int64(val) + 1\n\t\t}",
  "conversion-purity:convertFromInt32 case *int64", "arithmetic on the decoded value")
k("K140", "C11", "datacodec/map.go", "\t\t\t} else if valueWasNull, err := valueCodec.Decode(encodedValue, decodedValue, version); err != nil {", "\t\t\t} else if valueWasNull, err := keyCodec.Decode(encodedValue, decodedValue, version); err != nil {",
  "element-pairing:writeMap/readMap", "map value decoded with the key codec")
k("K141", "C11", "datacodec/collection.go", "\t\tcase reflect.Array:\n\t\t\tif !wasNull {\n\t\t\t\tinjectorFactory = func(size int) (injector, error) {\n\t\t\t\t\treturn newSliceInjector(destValue)\n\t\t\t\t}\n\t\t\t}\n", "",
  "kind-symmetry:collectionCodec Array", "arrays accepted as sources only")
k("K142", "C11", "datacodec/tuple.go", "func writeTuple(ext extractor, elementCodecs []Codec, version primitive.ProtocolVersion) ([]byte, error) {\n\tbuf := &bytes.Buffer{}", "var tupleScratch bytes.Buffer\n\nfunc writeTuple(ext extractor, elementCodecs []Codec, version primitive.ProtocolVersion) ([]byte, error) {\n\tbuf := &tupleScratch\n\tbuf.Reset()",
  "fresh-result:datacodec.writeTuple", "result backed by a package-level buffer")
k("K143", "C11", "datacodec/map.go", "\t\t\t} else if err = inj.setElem(i, decodedKey, decodedValue, keyWasNull, valueWasNull); err != nil {", "\t\t\t} else if err = inj.setElem(i, decodedKey, decodedValue, valueWasNull, keyWasNull); err != nil {",
  "element-pairing:writeMap/readMap", "null flags of key and value swapped")

# ---- C12
k("K41", "C12", "datacodec/collection.go", "\tif version.Uses4BytesCollectionLength() {\n\t\tif size > math.MaxInt32 {", "\tif version.Uses4BytesCollectionLength() && size < 0 {\n\t\tif size > math.MaxInt32 {",
  "container-layout:list encode @v3", "v3+: count written as [short]")
k("K42", "C12", "datacodec/date.go", "\t\tdest = writeInt32(val - math.MinInt32)", "\t\tdest = writeInt32(val)",
  "value-layout:date encode", "date offset missing")
k("K128", "C12", "datacodec/float.go", "\tbinary.BigEndian.PutUint32(dest, math.Float32bits(val))", "\tbinary.LittleEndian.PutUint32(dest, math.Float32bits(val))",
  "value-layout:float encode", "little-endian float")
k("K129", "C12", "datacodec/boolean.go", "\t\tval = source[0] != 0", "\t\tval = source[0] == 1",
  "value-layout:boolean decode", "only 1 is read as true")
k("K130", "C12", "datacodec/smallint.go", "\t} else if length != primitive.LengthOfShort {", "\t} else if length < primitive.LengthOfShort {",
  "value-layout:smallint decode", "over-long smallint accepted")
k("K131", "C12", "datacodec/duration.go", "\t_, _ = primitive.WriteVint(int64(val.Months), writer)\n\t_, _ = primitive.WriteVint(int64(val.Days), writer)", "\t_, _ = primitive.WriteVint(int64(val.Days), writer)\n\t_, _ = primitive.WriteVint(int64(val.Months), writer)",
  "value-layout:duration encode", "days written before months")
k("K132", "C12", "datacodec/collection.go", "\t\t\t\tencodedElem, err = primitive.ReadShortBytes(reader)", "\t\t\t\tencodedElem, err = primitive.ReadBytes(reader)",
  "container-layout:list decode @v2", "v2 elements read as [bytes]")
k("K133", "C12", "datacodec/collection.go", "\t\tif size > math.MaxUint16 {\n\t\t\terr = collectionSizeTooLarge(size, math.MaxUint16)\n\t\t} else if size < 0 {", "\t\tif size < 0 {",
  "count-guard:list @v2", "v2 count can wrap at 65536")
k("K134", "C12", "datacodec/codec.go", "\tcase primitive.DataTypeCodeCounter:\n\t\treturn Counter, nil", "\tcase primitive.DataTypeCodeCounter:\n\t\treturn Int, nil",
  "value-layout:counter encode", "counter mapped to the 4-byte codec")
k("K135", "C12", "datacodec/tuple.go", "\t\t\t_ = primitive.WriteBytes(encodedElement, buf)", "\t\t\t_ = primitive.WriteShortBytes(encodedElement, buf)",
  "container-layout:tuple encode @v4", "tuple fields written as [short bytes]")
k("K136", "C12", "datacodec/decimal.go", "\tdest := make([]byte, primitive.LengthOfInt, primitive.LengthOfInt+len(unscaled))\n\tbinary.BigEndian.PutUint32(dest, uint32(val.Scale))\n\treturn append(dest, unscaled...)", "\tdest := make([]byte, primitive.LengthOfInt)\n\tbinary.BigEndian.PutUint32(dest, uint32(val.Scale))\n\treturn append(unscaled, dest...)",
  "value-layout:decimal encode", "scale written after the unscaled value")

# ---- C14
k("K45", "C14", "datacodec/int.go", "\t\tif d == nil {\n\t\t\terr = ErrNilDestination\n\t\t} else if wasNull {\n\t\t\t*d = 0\n\t\t} else {\n\t\t\t*d = int64(val)\n\t\t}", "\t\tif d == nil {\n\t\t\terr = ErrNilDestination\n\t\t} else if !wasNull {\n\t\t\t*d = int64(val)\n\t\t}",
  "null-dest:convertFromInt32 case *int64", "NULL leaves the destination untouched")
k("K46", "C14", "datacodec/boolean.go", "\tcase *bool:\n\t\tif wasNil = s == nil; !wasNil {\n\t\t\tval = *s\n\t\t}", "\tcase *bool:\n\t\tval = *s\n\t\twasNil = s == nil",
  "nil-source:convertToBoolean case *bool", "dereference before the nil test")
k("K47", "C14", "datacodec/map.go", "\t\t\t\tif encodedValue == nil {\n\t\t\t\t\treturn nil, errNilMapValue()\n\t\t\t\t}\n", "",
  "null-element:writeMap WriteShortBytes#2", "v2 writer reaches WriteShortBytes with a nil value")
k("K119", "C14", "datacodec/int.go", "\t\t} else if wasNull {\n\t\t\t*d = 0\n\t\t} else {\n\t\t\t*d = int64(val)", "\t\t} else if wasNull {\n\t\t\t*d = -1\n\t\t} else {\n\t\t\t*d = int64(val)",
  "null-dest:convertFromInt32 case *int64", "NULL stores a non-zero value")
k("K120", "C14", "datacodec/blob.go", "\tcase *[]byte:\n\t\tif d == nil {\n\t\t\terr = ErrNilDestination\n\t\t} else if wasNull {", "\tcase *[]byte:\n\t\tif wasNull {",
  "null-dest:convertFromBytes case *[]byte", "nil destination written through")
k("K121", "C14", "datacodec/int.go", "\tif val, wasNil, err = convertToInt32(source); err == nil && !wasNil {", "\t_ = wasNil\n\tif val, wasNil, err = convertToInt32(source); err == nil {",
  "encode-guard:intCodec.Encode", "nil source encoded as a value")
k("K122", "C14", "datacodec/reflection.go", "\t\t\tif wasNull {\n\t\t\t\tzero := reflect.Zero(destValue.Elem().Type())\n\t\t\t\tdestValue.Elem().Set(zero)\n\t\t\t}\n", "",
  "null-container:reflectDest", "NULL container leaves the destination untouched")
k("K123", "C14", "datacodec/collection.go", "\t\tcase reflect.Slice, reflect.Array:\n\t\t\tif !wasNil {\n\t\t\t\text, err = newSliceExtractor(sourceValue)\n\t\t\t\tsize = sourceValue.Len()\n\t\t\t}", "\t\tcase reflect.Slice, reflect.Array:\n\t\t\t_ = wasNil\n\t\t\text, err = newSliceExtractor(sourceValue)\n\t\t\tsize = sourceValue.Len()",
  "null-container:collectionCodec.createExtractor", "nil slice encoded as an empty collection")
k("K124", "C14", "datacodec/varint.go", "\tval := readBigInt(source)\n\twasNull = val == nil\n", "\tval := readBigInt(source)\n\twasNull = false\n",
  "decode-guard:varintCodec.Decode(nil)", "NULL varint reported as present")
k("K125", "C14", "datacodec/injectors.go", "\tif valueWasNull {\n\t\tzero := reflect.Zero(elementType)\n\t\ti.dest.Index(index).Set(zero)\n\t} else {", "\tif valueWasNull {\n\t\t_ = reflect.Zero(elementType)\n\t} else {",
  "null-element:sliceInjector.setElem(null)", "NULL element keeps the previous slice element")

# ---- rules added after the second round of seeded changes
k("K149", "C11", "datacodec/conversions.go", "func int32ToUint16(val int32) (uint16, error) {\n\tif val < 0 || val > math.MaxUint16 {", "func int32ToUint16(val int32) (uint16, error) {\n\tif val < 0 || val > math.MaxInt16 {",
  "helper-tight:datacodec.int32ToUint16", "range check stricter than the target type")
k2("K150", "C11", [("datacodec/injectors.go", "\treturn &mapInjector{dest}, nil", "\treturn &mapInjector{dest: dest}, nil"), ("datacodec/injectors.go", "type mapInjector struct {\n\tdest reflect.Value\n}", "type mapInjector struct {\n\tdest    reflect.Value\n\tscratch reflect.Value\n}"),
   ("datacodec/injectors.go", "func (i *mapInjector) zeroKey(_ int) (interface{}, error) {\n\tzero := ensurePointer(nilSafeZero(i.dest.Type().Key()))\n\treturn zero.Interface(), nil", "func (i *mapInjector) zeroKey(_ int) (interface{}, error) {\n\tif !i.scratch.IsValid() {\n\t\ti.scratch = ensurePointer(nilSafeZero(i.dest.Type().Key()))\n\t}\n\treturn i.scratch.Interface(), nil")],
  "fresh-element:(*datacodec.mapInjector).zeroKey", "one decoding target reused for every key")
k("K151", "C14", "datacodec/varchar.go", "\tcase []rune:\n\t\tif s != nil {\n\t\t\tval = []byte(string(s))\n\t\t}", "\tcase []rune:\n\t\tval = []byte(string(s))",
  "nil-source:convertToStringBytes nil []rune", "nil []rune encoded as an empty string")
k("K152", "C02", "primitive/short_bytes.go", "\t} else if length < 0 {\n\t\treturn nil, nil", "\t} else if int16(length) < 0 {\n\t\treturn nil, nil",
  "primitive-layout:shortbytes", "lengths >= 32768 taken for null: content not consumed")
k("K153", "C12", "primitive/short_bytes.go", "\t} else if length < 0 {\n\t\treturn nil, nil", "\t} else if int16(length) < 0 {\n\t\treturn nil, nil",
  "notation-layout:shortbytes", "v2 collection elements of 32 KiB and more decode as null")
k2("K154", "C18", [("frame/encode.go", "\t\"io\"\n", "\t\"io\"\n\t\"sync\"\n"),
   ("frame/encode.go", "func (c *codec) EncodeBody(header *Header, body *Body, dest io.Writer) error {", "var scratchBuffers = sync.Pool{New: func() interface{} { return &bytes.Buffer{} }}\n\nfunc (c *codec) EncodeBody(header *Header, body *Body, dest io.Writer) error {"),
   ("frame/encode.go", "\t\t\tuncompressedBody := bytes.NewBuffer(make([]byte, 0, uncompressedBodyLength))\n", "\t\t\tuncompressedBody := scratchBuffers.Get().(*bytes.Buffer)\n\t\t\tdefer scratchBuffers.Put(uncompressedBody)\n\t\t\tuncompressedBody.Grow(uncompressedBodyLength)\n"),
   ("frame/encode.go", "\t\t\t\treturn fmt.Errorf(\"cannot compress body: %w\", err)\n\t\t\t}\n\t\t\treturn nil", "\t\t\t\treturn fmt.Errorf(\"cannot compress body: %w\", err)\n\t\t\t}\n\t\t\tuncompressedBody.Reset()\n\t\t\treturn nil")],
  "pool-hygiene:(*frame.codec).EncodeBody Get#1", "pooled scratch buffer returned dirty on the error exits")
k2("K155", "C01", [("frame/encode.go", "\t\"io\"\n", "\t\"io\"\n\t\"sync\"\n"),
   ("frame/encode.go", "func (c *codec) EncodeBody(header *Header, body *Body, dest io.Writer) error {", "var scratchBuffers = sync.Pool{New: func() interface{} { return &bytes.Buffer{} }}\n\nfunc (c *codec) EncodeBody(header *Header, body *Body, dest io.Writer) error {"),
   ("frame/encode.go", "\t\t\tuncompressedBody := bytes.NewBuffer(make([]byte, 0, uncompressedBodyLength))\n", "\t\t\tuncompressedBody := scratchBuffers.Get().(*bytes.Buffer)\n\t\t\tdefer scratchBuffers.Put(uncompressedBody)\n\t\t\tuncompressedBody.Grow(uncompressedBodyLength)\n"),
   ("frame/encode.go", "\t\t\t\treturn fmt.Errorf(\"cannot compress body: %w\", err)\n\t\t\t}\n\t\t\treturn nil", "\t\t\t\treturn fmt.Errorf(\"cannot compress body: %w\", err)\n\t\t\t}\n\t\t\tuncompressedBody.Reset()\n\t\t\treturn nil")],
  "pool-hygiene:(*frame.codec).EncodeBody Get#1", "a rejected frame's partial body is prepended to the next compressed frame")

k("K156", "C04", "datacodec/codec.go", "\t\tif !keyType.Comparable() {\n", "\t\tif false && !keyType.Comparable() {\n",
  "reflect-key:datacodec.PreferredGoType MapOf#1", "reflect.MapOf reachable with a non-comparable key type")

k2("K157", "C06", [("segment/codec.go", "import (\n\t\"io\"\n)", "import (\n\t\"bytes\"\n\t\"io\"\n)"),
   ("segment/codec.go", "type codec struct {\n\tcompressor PayloadCompressor\n}", "type codec struct {\n\tcompressor PayloadCompressor\n\tcompressed bytes.Buffer\n}"),
   ("segment/encode.go", "\tcompressedPayload := bytes.NewBuffer(make([]byte, 0, len(segment.Payload.UncompressedData)))", "\tcompressedPayload := &c.compressed")],
  "codec-stateless:(*segment.codec).encodeSegmentCompressed", "scratch buffer kept in the codec: stale bytes after an uncompressed fallback")
k2("K158", "C18", [("segment/codec.go", "import (\n\t\"io\"\n)", "import (\n\t\"bytes\"\n\t\"io\"\n)"),
   ("segment/codec.go", "type codec struct {\n\tcompressor PayloadCompressor\n}", "type codec struct {\n\tcompressor PayloadCompressor\n\tcompressed bytes.Buffer\n}"),
   ("segment/encode.go", "\tcompressedPayload := bytes.NewBuffer(make([]byte, 0, len(segment.Payload.UncompressedData)))", "\tcompressedPayload := &c.compressed")],
  "write-free:(*segment.codec).encodeSegmentCompressed", "address of a codec field handed to a writer")

# ---- rules added after the second round of seeded changes (client, compression)
k("K159", "C08", "compression/lz4/lz4.go", "\t\treturn nil\n\t}\n}\n\nfunc (c Compressor) Decompress(", "\t\t_ = c.Compress(source, dest)\n\t\treturn nil\n\t}\n}\n\nfunc (c Compressor) Decompress(",
  "drain-once:(compression/lz4.Compressor).CompressWithLength", "the drained source is read a second time")
k("K160", "C09", "client/inflight.go", "\tif inFlight, found = h.inFlight[streamId]; !found {\n\t\terr = fmt.Errorf(\"%v: unknown stream id: %d\", h, streamId)\n\t}", "\tif inFlight, found = h.inFlight[streamId]; !found {\n\t\terr = fmt.Errorf(\"%v: unknown stream id: %d\", h, streamId)\n\t} else if inFlight.IsDone() {\n\t\terr = fmt.Errorf(\"%v: request closed\", inFlight)\n\t}",
  "incoming-release:onIncomingFrameReceived path", "late final frame of a failed request never frees the id")
k("K161", "C09", "client/client.go", "\t\toutgoing:     make(chan *frame.Frame, maxInFlight),", "\t\toutgoing:     make(chan *frame.Frame, maxPending),",
  "enqueue-capacity:CqlClientConnection.outgoing", "queue smaller than the number of registrable requests")
k("K162", "C10", "client/client.go", "\tfor payloadReader.Len() > 0 {\n\t\tif abort = c.readFrame(payloadReader); abort {\n\t\t\tbreak\n\t\t}\n\t}", "\tif payloadReader.Len() > 0 {\n\t\tabort = c.readFrame(payloadReader)\n\t}",
  "segment-drain:(*client.CqlClientConnection).readSelfContainedSegment drain", "only the first envelope of a segment is delivered")
k("K163", "C15", "client/server.go", "\tfor payloadReader.Len() > 0 {", "\tfor payloadReader.Len() > primitive.FrameHeaderLengthV3AndHigher {",
  "accumulator:(*client.CqlServerConnection).readSelfContainedSegment drain", "trailing empty-body envelope dropped")
k("K164", "C16", "client/client.go", "\tgo func() {\n\t\tabort := false\n\t\tfor !abort && !c.IsClosed() {\n\t\t\tif outgoing, ok := <-c.outgoing; !ok {", "\tgo func() {\n\t\tdefer c.waitGroup.Done()\n\t\tabort := false\n\t\tfor !abort && !c.IsClosed() {\n\t\t\tif outgoing, ok := <-c.outgoing; !ok {",
  "waitgroup:(*client.CqlClientConnection).outgoingLoop$1", "deferred Done runs after abort -> Close -> Wait")
k2("K165", "C18", [("segment/decode.go", "\t\"io\"\n", "\t\"io\"\n\t\"sync\"\n"),
   ("segment/decode.go", "func (c *codec) decodeSegmentPayload(header *Header, source io.Reader) (*Payload, error) {", "var compressedPayloadPool = sync.Pool{New: func() interface{} { return make([]byte, MaxPayloadLength) }}\n\nfunc (c *codec) decodeSegmentPayload(header *Header, source io.Reader) (*Payload, error) {"),
   ("segment/decode.go", "\tencodedPayload := make([]byte, length)\n", "\tscratch := compressedPayloadPool.Get().([]byte)\n\tdefer compressedPayloadPool.Put(scratch)\n\tencodedPayload := scratch[:length]\n")],
  "pool-hygiene:(*segment.codec).decodeSegmentPayload Get#1 escape", "pooled payload buffer aliased by the returned segment")

k2("K166", "C10", [("client/inflight.go", "\tif inFlight, err = h.addInFlight(streamId, managedStreamId); err == nil {", "\tif inFlight, err = h.addInFlight(streamId, managedStreamId, h.maxPendingFor(f)); err == nil {"),
   ("client/inflight.go", "func (h *inFlightRequestsHandler) addInFlight(streamId int16, managedStreamId bool) (*inFlightRequest, error) {\n\tinFlight := newInFlightRequest(h.String(), streamId, managedStreamId, h.ctx, h.maxPending, h.timeout)", "func (h *inFlightRequestsHandler) maxPendingFor(f *frame.Frame) int {\n\tif f.Body != nil {\n\t\tif query, ok := f.Body.Message.(*message.Query); ok && query.Options != nil && query.Options.ContinuousPagingOptions != nil {\n\t\t\treturn h.maxPending\n\t\t}\n\t}\n\treturn 1\n}\n\nfunc (h *inFlightRequestsHandler) addInFlight(streamId int16, managedStreamId bool, maxPending int) (*inFlightRequest, error) {\n\tinFlight := newInFlightRequest(h.String(), streamId, managedStreamId, h.ctx, maxPending, h.timeout)")],
  "pending-capacity:inFlightRequest.incoming", "buffer sized per request kind; EXECUTE with continuous paging forgotten")

# ---- rules added after the third round of seeded changes
k("K167", "C01", "message/error.go", "\t\tif msg.WriteType == primitive.WriteTypeCas && version.SupportsWriteTimeoutContentions() {", "\t\tif msg.WriteType == primitive.WriteTypeCas && version >= primitive.ProtocolVersion5 {",
  "enc-vs-dec:errorCodec@D1 [p0.(*message.WriteTimeout).WriteType=\"CAS\"]", "decoder reads a field for a value the encoder never looked at (reader-driven case split)")
k("K168", "C01", "primitive/string_list.go", "\tif length < 0 {\n\t\treturn nil, nil", "\tif int16(length) < 0 {\n\t\treturn nil, nil",
  "primitive-pairing:stringlist", "string lists of 32768+ elements read back as nil")
k("K169", "C02", "primitive/bytes.go", "\t} else if length < 0 {\n\t\treturn nil, nil", "\t} else if length == -1 {\n\t\treturn nil, nil\n\t} else if length < 0 {\n\t\treturn nil, fmt.Errorf(\"invalid [bytes] length: %d\", length)",
  "primitive-layout:bytes", "negative lengths other than -1 rejected although the specification defines them as null")
k("K170", "C08", "compression/lz4/lz4.go", "\tfor i := compressedLength * 2; i < compressedLength*maxCompressionRatio*2; i *= 2 {", "\tfor i := compressedLength * 2; i < compressedLength*maxCompressionRatio*2 && i <= 1<<17; i *= 2 {",
  "lz4-sizing:compression/lz4.decompress UncompressBlock#1", "growth cut short by a second size test")
k("K171", "C08", "compression/snappy/snappy.go", "\t} else {\n\t\tcompressedMessage := snappy.Encode(nil, uncompressedMessage.Bytes())", "\t} else if uncompressedMessage.Len() == 0 {\n\t\treturn nil\n\t} else {\n\t\tcompressedMessage := snappy.Encode(nil, uncompressedMessage.Bytes())",
  "compress-writes:(compression/snappy.Compressor).CompressWithLength", "nothing written for the empty input")
k("K172", "C06", "segment/encode.go", "\t\treturn fmt.Errorf(\"cannot compress segment payload: %w\", err)\n\t} else {", "\t\treturn fmt.Errorf(\"cannot compress segment payload: %w\", err)\n\t} else if compressedPayload.Len() > MaxPayloadLength {\n\t\treturn fmt.Errorf(\"compressed payload length exceeds maximum allowed: %v\", compressedPayload.Len())\n\t} else {",
  "only-refusal:(*segment.codec).encodeSegmentCompressed", "incompressible near-maximum payloads refused")
k("K173", "C09", "client/inflight.go", "\tif f.Header.OpCode == primitive.OpCodeResult {\n\t\tresult := f.Body.Message.(message.Result)", "\tif f.Header.Version.SupportsDseRevisionType(primitive.DseRevisionTypeMoreContinuousPages) && f.Header.OpCode == primitive.OpCodeResult {\n\t\tresult := f.Body.Message.(message.Result)",
  "last-frame:isLastFrame@D1", "last-frame detection gated by a version predicate that excludes DSE v1")

k("K174", "C15", "segment/decode.go", "\tif _, err := io.ReadFull(source, encodedPayload); err != nil {", "\tif _, err := source.Read(encodedPayload); err != nil {",
  "full-reads:(*segment.codec).decodeSegmentPayload Read#1", "segment payload read with a single Read")
k2("K175", "C18", [("datacodec/reflection.go", "\t\"strings\"\n", "\t\"strings\"\n\t\"sync\"\n"),
   ("datacodec/reflection.go", "func locateFieldByName(structValue reflect.Value, name string) (value reflect.Value) {\n\tstructType := structValue.Type()\n", "var structFieldIndexes sync.Map\n\nfunc locateFieldByName(structValue reflect.Value, name string) (value reflect.Value) {\n\tstructType := structValue.Type()\n\tcached, _ := structFieldIndexes.LoadOrStore(structType, map[string]int{})\n\tindexes := cached.(map[string]int)\n\tif i, found := indexes[name]; found {\n\t\treturn structValue.Field(i)\n\t}\n"),
   ("datacodec/reflection.go", "\t\t\tvalue = structValue.Field(i)\n\t\t\tbreak", "\t\t\tindexes[name] = i\n\t\t\tvalue = structValue.Field(i)\n\t\t\tbreak")],
  "write-free:datacodec.locateFieldByName", "plain map published through a sync.Map and filled without a lock")
k("K176", "C13", "datacodec/conversions.go", "\tif f64, accuracy := val.Float64(); accuracy != big.Exact {", "\tif f64, _ := val.Float64(); val.MinPrec() > 53 {",
  "flag-examined:datacodec.bigFloatToFloat64 -> big.Float64#1", "accuracy of big.Float.Float64 dropped")
k("K177", "C12", "datacodec/udt.go", "\t\tif reader.Len() > 0 {\n\t\t\tvar err error", "\t\tif reader.Len() == 0 {\n\t\t\tbreak\n\t\t}\n\t\tif true {\n\t\t\tvar err error",
  "every-position-injected:udt inject @v4", "missing trailing UDT fields are not injected as NULL")
k("K178", "C14", "datacodec/reflection.go", "\tif kind != reflect.Interface &&\n\t\tkind != reflect.Ptr &&", "\tif kind != reflect.Interface &&\n\t\tkind != reflect.Array &&\n\t\tkind != reflect.Ptr &&",
  "nillable-wrap:ensureNillable(Array)", "array-kind preferred types (UUID) not made nillable")
k("K179", "C11", "datacodec/varint.go", "\tcase uint:\n\t\tval = new(big.Int).SetUint64(uint64(s))\n", "\tcase uint:\n\t\tval = big.NewInt(int64(s))\n",
  "conversion-purity:convertToBigInt case uint", "uint encoded through a signed cast")
k("K180", "C17", "frame/deepcopy_generated.go", "\t\t*out = make([]byte, len(*in))\n\t\tcopy(*out, *in)\n\t}\n\treturn\n}\n\n// DeepCopy is an autogenerated deepcopy function, copying the receiver, creating a new RawFrame.", "\t\tif cap(*out) >= len(*in) {\n\t\t\t*out = (*out)[:len(*in)]\n\t\t} else {\n\t\t\t*out = make([]byte, len(*in))\n\t\t}\n\t\tcopy(*out, *in)\n\t}\n\treturn\n}\n\n// DeepCopy is an autogenerated deepcopy function, copying the receiver, creating a new RawFrame.",
  "field:(*frame.RawFrame).DeepCopyInto.Body", "existing buffer reused: the copy can stay an alias of the original")

# ---- round 4 rules
k("K181", "C05", "frame/encode.go", "primitive.WriteByte(uint8(header.Flags), dest)", "primitive.WriteByte(uint8(header.Flags.Remove(primitive.HeaderFlagWarning)), dest)",
  "header-verbatim:EncodeHeader flags@v4", "a header flag is dropped when the header is written")
k("K182", "C10", "client/inflight.go", "\t} else if _, found := h.inFlight[streamId]; found {\n\t\treturn nil, fmt.Errorf(\"%v: stream id already in use: %d\", h, streamId)\n\t}", "\t} else if _, found := h.inFlight[streamId]; found {\n\t\tlog.Debug().Msgf(\"%v: stream id already in use: %d\", h, streamId)\n\t}",
  "duplicate-refused:addInFlight", "an id still in flight is accepted again")
k("K183", "C10", "client/client.go", "\t\t\tlog.Debug().Msgf(\"%v: incoming event frame successfully delivered: %v\", c, incoming)\n\t\tdefault:\n\t\t\tlog.Error().Msgf(\"%v: events queue is full, discarding event frame: %v\", c, incoming)\n\t\t}",
  "\t\t\tlog.Debug().Msgf(\"%v: incoming event frame successfully delivered: %v\", c, incoming)\n\t\t}",
  "reader-never-blocks:", "reader goroutine blocks on a full event channel")
k("K184", "C08", "compression/snappy/snappy.go", "\t\tif decompressedMessage, err := snappy.Decode(nil, compressedMessage.Bytes()); err != nil {", "\t\tif n, err := snappy.DecodedLen(compressedMessage.Bytes()); err == nil && n > 16*compressedMessage.Len() {\n\t\t\treturn fmt.Errorf(\"suspicious ratio\")\n\t\t} else if decompressedMessage, err := snappy.Decode(nil, compressedMessage.Bytes()); err != nil {",
  "ratio-guard:", "legitimate highly compressible data refused")
k("K185", "C03", "frame/encode.go", "\t\tframe.Header.BodyLength = int32(len(frame.Body))\n\t\tif err := c.EncodeHeader(frame.Header, dest); err != nil {\n\t\t\treturn fmt.Errorf(\"cannot encode raw header", "\t\tif err := c.EncodeHeader(frame.Header, dest); err != nil {\n\t\t\treturn fmt.Errorf(\"cannot encode raw header",
  "bodylength-flow:(*frame.codec).EncodeRawFrame sets BodyLength", "raw frame goes out under a stale declared length")
k("K186", "C12", "datacodec/decimal.go", "\tbinary.BigEndian.PutUint32(dest, uint32(val.Scale))", "\tscale := val.Scale\n\tif val.Unscaled == nil {\n\t\tscale = 0\n\t}\n\tbinary.BigEndian.PutUint32(dest, uint32(scale))",
  "value-layout:decimal encode", "scale replaced by a constant on one path")

k("K187", "C15", "client/client.go", "\t\t} else {\n\t\t\taccumulator.targetLength = int(primitive.FrameHeaderLengthV3AndHigher + header.BodyLength)", "\t\t} else if header.BodyLength > 1<<20 {\n\t\t\treturn true\n\t\t} else {\n\t\t\taccumulator.targetLength = int(primitive.FrameHeaderLengthV3AndHigher + header.BodyLength)",
  "accumulator-refusal:(*client.CqlClientConnection).addMultiSegmentPayload", "a large multi-segment frame is refused by the accumulator itself")

k("K188", "C06", "segment/decode.go", "\tpayload := &Payload{Crc32: actualPayloadCrc}\n\t// Decompress payload if needed\n\tif c.compressor == nil || header.CompressedPayloadLength == 0 {", "\tpayload := &Payload{Crc32: actualPayloadCrc}\n\t// Decompress payload if needed\n\tif c.compressor == nil || length == header.UncompressedPayloadLength {",
  "decode-decision:", "decoder re-derives 'stored as is' from two lengths being equal")
k("K189", "C08", "segment/encode.go", "\t\tif segment.Header.CompressedPayloadLength <= segment.Header.UncompressedPayloadLength {\n\t\t\tpayload = compressedPayload", "\t\tif segment.Header.CompressedPayloadLength <= segment.Header.UncompressedPayloadLength {\n\t\t\tpayload = compressedPayload\n\t\t\tif segment.Header.CompressedPayloadLength == segment.Header.UncompressedPayloadLength {\n\t\t\t\tsegment.Header.CompressedPayloadLength, segment.Header.UncompressedPayloadLength = segment.Header.UncompressedPayloadLength, 0\n\t\t\t}",
  "encode-decision:", "compressed bytes sent under a header that says stored as is")


json.dump(C, open(os.path.join(os.path.dirname(os.path.abspath(__file__)), "controls.json"), "w"), indent=1)
print(len(C), "controls")
