package main

// Parser and expander for spec/wire.grammar: the specification's layouts compiled, per protocol
// version, into the trace language of the abstract interpreter.

import (
	"fmt"
	"go/constant"
	"go/token"
	"os"
	"sort"
	"strconv"
	"strings"
)

type gItem interface{}

type gAtom struct {
	kind   string
	label  string
	flagsT string // flags<T>:atom
}
type gRef struct{ name, param string }
type gFlagCond struct {
	T     string
	mask  uint64
	set   bool
	vers  map[string]bool
	dir   string
	items []gItem
}
type gAlt struct {
	consts []constant.Value
	star   bool
	vers   map[string]bool
	items  []gItem
}
type gSwitch struct {
	atom gAtom
	alts []gAlt
}
type gLoop struct {
	counter *gAtom
	items   []gItem
}
type gVer struct {
	vers  map[string]bool
	items []gItem
}
type gChoice struct {
	name  string
	items []gItem
}
type gEither struct{ alts [][]gItem }

type grammar struct {
	rules  map[string][]gItem
	params map[string]string // rule -> formal flag parameter
	rec    map[string]string
	atoms  map[string]bool
}

var grammarAtoms = []string{"byte", "short", "int", "long", "string", "longstring", "bytes", "shortbytes", "uuid", "stringlist", "stringmap", "stringmultimap", "bytesmap", "inet", "inetaddr", "value", "positionalvalues", "namedvalues", "reasonmap"}

type gtok struct {
	kind string // id num str sym
	s    string
	line int
}

func tokenizeGrammar(text string, line0 int) []gtok {
	var toks []gtok
	line := line0
	rs := []rune(text)
	for i := 0; i < len(rs); {
		c := rs[i]
		switch {
		case c == '\n':
			line++
			i++
		case c == ' ' || c == '\t' || c == '\r':
			i++
		case c == '"':
			j := i + 1
			for j < len(rs) && rs[j] != '"' {
				j++
			}
			toks = append(toks, gtok{"str", string(rs[i+1 : j]), line})
			i = j + 1
		case c == '-' && i+1 < len(rs) && rs[i+1] == '>':
			toks = append(toks, gtok{"sym", "->", line})
			i += 2
		case c == '→':
			j := i + 1
			for j < len(rs) && (rs[j] >= 'a' && rs[j] <= 'z') {
				j++
			}
			toks = append(toks, gtok{"dir", string(rs[i+1 : j]), line})
			i = j
		case strings.ContainsRune("[]{}():;,|*@?<>&!/", c):
			toks = append(toks, gtok{"sym", string(c), line})
			i++
		case c >= '0' && c <= '9':
			j := i
			for j < len(rs) && (rs[j] >= '0' && rs[j] <= '9' || rs[j] >= 'a' && rs[j] <= 'f' || rs[j] >= 'A' && rs[j] <= 'F' || rs[j] == 'x' || rs[j] == 'X' || rs[j] == '+') {
				j++
			}
			toks = append(toks, gtok{"num", string(rs[i:j]), line})
			i = j
		default:
			j := i
			for j < len(rs) && (rs[j] == '_' || rs[j] == 'ε' || rs[j] >= 'a' && rs[j] <= 'z' || rs[j] >= 'A' && rs[j] <= 'Z' || rs[j] >= '0' && rs[j] <= '9' || rs[j] == '+') {
				j++
			}
			if j == i {
				fatalf("wire.grammar line %d: unexpected character %q", line, string(c))
			}
			toks = append(toks, gtok{"id", string(rs[i:j]), line})
			i = j
		}
	}
	return toks
}

func loadGrammar(path string) *grammar {
	b, err := os.ReadFile(path)
	if err != nil {
		fatalf("wire.grammar: %v", err)
	}
	g := &grammar{rules: map[string][]gItem{}, params: map[string]string{}, rec: map[string]string{}, atoms: map[string]bool{}}
	for _, a := range grammarAtoms {
		g.atoms[a] = true
	}
	type chunk struct {
		name, param, text string
		line              int
	}
	var chunks []*chunk
	var cur *chunk
	for n, line := range strings.Split(string(b), "\n") {
		if i := strings.Index(line, "#"); i >= 0 {
			line = line[:i]
		}
		if strings.HasPrefix(line, "%rec ") {
			f := strings.Fields(line)
			if len(f) == 3 {
				g.rec[f[1]] = f[2]
			}
			continue
		}
		if i := strings.Index(line, ":="); i > 0 && len(line) > 0 && line[0] != ' ' && line[0] != '\t' {
			head := strings.TrimSpace(line[:i])
			name, param := head, ""
			if j := strings.Index(head, "<"); j > 0 {
				name, param = head[:j], strings.TrimSuffix(head[j+1:], ">")
			}
			cur = &chunk{name: name, param: param, text: line[i+2:] + "\n", line: n + 1}
			chunks = append(chunks, cur)
			continue
		}
		if cur != nil {
			cur.text += line + "\n"
		}
	}
	for _, c := range chunks {
		p := &gparser{toks: tokenizeGrammar(c.text, c.line), g: g, rule: c.name}
		items := p.items(nil)
		if p.pos < len(p.toks) {
			fatalf("wire.grammar line %d: unexpected %q in rule %s", p.toks[p.pos].line, p.toks[p.pos].s, c.name)
		}
		g.rules[c.name] = items
		g.params[c.name] = c.param
	}
	return g
}

type gparser struct {
	toks []gtok
	pos  int
	g    *grammar
	rule string
}

func (p *gparser) peek() *gtok {
	if p.pos < len(p.toks) {
		return &p.toks[p.pos]
	}
	return nil
}
func (p *gparser) isSym(s string) bool {
	t := p.peek()
	return t != nil && t.kind == "sym" && t.s == s
}
func (p *gparser) expect(s string) {
	if !p.isSym(s) {
		t := p.peek()
		got, line := "end of rule", 0
		if t != nil {
			got, line = t.s, t.line
		}
		fatalf("wire.grammar line %d (rule %s): expected %q, got %q", line, p.rule, s, got)
	}
	p.pos++
}

func (p *gparser) versions() map[string]bool {
	// after '@': list of version tokens separated by ','
	var parts []string
	for {
		t := p.peek()
		if t == nil || (t.kind != "num" && t.kind != "id") {
			break
		}
		parts = append(parts, t.s)
		p.pos++
		if p.isSym(",") {
			p.pos++
			continue
		}
		break
	}
	return parseVersions(strings.Join(parts, ","))
}

func parseGConst(t *gtok) constant.Value {
	if t.kind == "str" {
		return constant.MakeString(t.s)
	}
	if v, ok := parseSpecValue(t.s); ok {
		return v
	}
	fatalf("wire.grammar line %d: bad constant %q", t.line, t.s)
	return nil
}

// items parses until one of the terminators (not consumed).
func (p *gparser) items(term map[string]bool) []gItem {
	var out []gItem
	for {
		t := p.peek()
		if t == nil {
			return out
		}
		if t.kind == "sym" && term[t.s] {
			return out
		}
		switch {
		case t.kind == "sym" && t.s == "[":
			p.pos++
			fc := &gFlagCond{}
			fc.T = p.toks[p.pos].s
			p.pos++
			switch {
			case p.isSym("&"):
				fc.set = true
			case p.isSym("!"):
				fc.set = false
			default:
				fatalf("wire.grammar line %d: expected & or ! after flag type", t.line)
			}
			p.pos++
			m, err := strconv.ParseUint(p.toks[p.pos].s, 0, 64)
			if err != nil {
				fatalf("wire.grammar line %d: bad mask %q", t.line, p.toks[p.pos].s)
			}
			fc.mask = m
			p.pos++
			for !p.isSym(":") {
				nt := p.peek()
				switch {
				case nt != nil && nt.kind == "sym" && nt.s == "@":
					p.pos++
					fc.vers = p.versions()
				case nt != nil && nt.kind == "dir":
					fc.dir = nt.s
					p.pos++
				default:
					fatalf("wire.grammar line %d: unexpected %q in flag condition", t.line, nt.s)
				}
			}
			p.expect(":")
			fc.items = p.items(map[string]bool{"]": true})
			p.expect("]")
			out = append(out, fc)
		case t.kind == "sym" && t.s == "{":
			p.pos++
			sw := &gSwitch{}
			a := p.atom()
			sw.atom = *a
			p.expect(":")
			for !p.isSym("}") {
				alt := gAlt{}
				for {
					ct := p.peek()
					if ct.kind == "sym" && ct.s == "*" {
						alt.star = true
						p.pos++
					} else {
						alt.consts = append(alt.consts, parseGConst(ct))
						p.pos++
					}
					if p.isSym("|") {
						p.pos++
						continue
					}
					break
				}
				if p.isSym("@") {
					p.pos++
					alt.vers = p.versions()
				}
				p.expect("->")
				alt.items = p.items(map[string]bool{";": true, "}": true})
				if p.isSym(";") {
					p.pos++
				}
				sw.alts = append(sw.alts, alt)
			}
			p.expect("}")
			out = append(out, sw)
		case t.kind == "sym" && t.s == "@":
			p.pos++
			v := &gVer{vers: p.versions()}
			p.expect("(")
			v.items = p.items(map[string]bool{")": true})
			p.expect(")")
			out = append(out, v)
		case t.kind == "sym" && t.s == "?":
			p.pos++
			c := &gChoice{name: p.toks[p.pos].s}
			p.pos++
			p.expect("(")
			c.items = p.items(map[string]bool{")": true})
			p.expect(")")
			out = append(out, c)
		case t.kind == "id" && t.s == "alt":
			p.pos++
			p.expect("(")
			e := &gEither{}
			for {
				e.alts = append(e.alts, p.items(map[string]bool{")": true, "/": true}))
				if p.isSym("/") {
					p.pos++
					continue
				}
				break
			}
			p.expect(")")
			out = append(out, e)
		case t.kind == "id" && t.s == "ε":
			p.pos++
		case t.kind == "id" && t.s == "count":
			p.pos++
			p.expect("(")
			p.pos++ // label
			p.expect(")")
			p.expect("*")
			p.expect("(")
			lp := &gLoop{items: p.items(map[string]bool{")": true})}
			p.expect(")")
			out = append(out, lp)
		case t.kind == "id":
			// n:atom * ( ... )  |  flags<T>:atom  |  atom  |  NAME  |  NAME<T>
			if p.pos+1 < len(p.toks) && p.toks[p.pos+1].kind == "sym" && p.toks[p.pos+1].s == ":" && t.s != "flags" && len(t.s) <= 2 && p.pos+2 < len(p.toks) && p.g.atoms[p.toks[p.pos+2].s] {
				p.pos += 2
				a := p.atom()
				p.expect("*")
				p.expect("(")
				lp := &gLoop{counter: a, items: p.items(map[string]bool{")": true})}
				p.expect(")")
				out = append(out, lp)
				continue
			}
			if t.s == "flags" {
				p.pos++
				p.expect("<")
				T := p.toks[p.pos].s
				p.pos++
				p.expect(">")
				p.expect(":")
				a := p.atom()
				a.flagsT = T
				out = append(out, a)
				continue
			}
			if p.g.atoms[t.s] {
				out = append(out, p.atom())
				continue
			}
			// non-terminal
			p.pos++
			ref := &gRef{name: t.s}
			if p.isSym("<") {
				p.pos++
				ref.param = p.toks[p.pos].s
				p.pos++
				p.expect(">")
			}
			out = append(out, ref)
		default:
			fatalf("wire.grammar line %d (rule %s): unexpected token %q", t.line, p.rule, t.s)
		}
	}
}

func (p *gparser) atom() *gAtom {
	t := p.peek()
	if t == nil || !p.g.atoms[t.s] {
		got := "end"
		line := 0
		if t != nil {
			got, line = t.s, t.line
		}
		fatalf("wire.grammar line %d (rule %s): expected a notation, got %q", line, p.rule, got)
	}
	p.pos++
	a := &gAtom{kind: t.s}
	if p.isSym("(") {
		p.pos++
		var lbl []string
		for !p.isSym(")") {
			lbl = append(lbl, p.toks[p.pos].s)
			p.pos++
		}
		p.pos++
		a.label = strings.Join(lbl, " ")
	}
	return a
}

// ---------------------------------------------------------------------------------------
// expansion

type genv struct {
	ver   string
	dir   string // "request" | "response" | ""
	flags map[string]uint64
	bind  map[string]string // formal flag parameter -> actual type
	stack []string
}

func (e *genv) clone() *genv {
	n := &genv{ver: e.ver, dir: e.dir, flags: map[string]uint64{}, bind: map[string]string{}, stack: append([]string(nil), e.stack...)}
	for k, v := range e.flags {
		n.flags[k] = v
	}
	for k, v := range e.bind {
		n.bind[k] = v
	}
	return n
}

// grammarLegality is loaded from spec/codes.tsv (flag type -> bit -> versions).
var grammarLegality legality

type gtrace struct {
	items   []*seqItem
	env     *genv
	illegal bool // ends at a discriminator value that other versions define: not version-valid here
}

// testedBits: for each flag type, the bits some rule tests for the version.
func (g *grammar) testedBits(ver string) map[string]uint64 { return g.testedBitsFrom("", ver) }

// testedBitsFrom: for each flag type, the bits that carry a body part (tested with '&') for the
// version in the rules reachable from start ("" = all rules).
func (g *grammar) testedBitsFrom(start, ver string) map[string]uint64 {
	out := map[string]uint64{}
	var walk func(items []gItem, bind map[string]string, seen map[string]bool)
	walk = func(items []gItem, bind map[string]string, seen map[string]bool) {
		for _, it := range items {
			switch x := it.(type) {
			case *gFlagCond:
				T := x.T
				if a, ok := bind[T]; ok {
					T = a
				}
				if x.vers == nil || x.vers[ver] {
					if x.set || grammarLegality[T][x.mask][ver] {
						// '!' tests count only for bits the specification defines for this version
						out[T] |= x.mask
					}
					walk(x.items, bind, seen)
				}
			case *gSwitch:
				for _, a := range x.alts {
					if a.vers == nil || a.vers[ver] {
						walk(a.items, bind, seen)
					}
				}
			case *gLoop:
				walk(x.items, bind, seen)
			case *gVer:
				if x.vers[ver] {
					walk(x.items, bind, seen)
				}
			case *gChoice:
				walk(x.items, bind, seen)
			case *gEither:
				for _, a := range x.alts {
					walk(a, bind, seen)
				}
			case *gRef:
				k := x.name + "<" + x.param + ">"
				if seen[k] {
					continue
				}
				seen[k] = true
				nb := bind
				if f := g.params[x.name]; f != "" {
					nb = map[string]string{}
					for a, b := range bind {
						nb[a] = b
					}
					act := x.param
					if a, ok := bind[act]; ok {
						act = a
					}
					nb[f] = act
				}
				walk(g.rules[x.name], nb, seen)
			}
		}
	}
	if start != "" {
		walk(g.rules[start], map[string]string{}, map[string]bool{})
		return out
	}
	for _, items := range g.rules {
		walk(items, map[string]string{}, map[string]bool{})
	}
	return out
}

const maxSpecTraces = 200000

func (g *grammar) expand(rule string, ver, dir string) []*gtrace {
	items, ok := g.rules[rule]
	if !ok {
		fatalf("wire.grammar: no rule %s", rule)
	}
	env := &genv{ver: ver, dir: dir, flags: map[string]uint64{}, bind: map[string]string{}, stack: []string{rule}}
	tested := g.testedBitsFrom(rule, ver)
	return g.expandSeq(items, env, tested)
}

func (g *grammar) expandSeq(items []gItem, env *genv, tested map[string]uint64) []*gtrace {
	cur := []*gtrace{{env: env}}
	for _, it := range items {
		var next []*gtrace
		for _, t := range cur {
			if t.illegal {
				next = append(next, t)
				continue
			}
			for _, e := range g.expandItem(it, t.env, tested) {
				next = append(next, &gtrace{items: append(append([]*seqItem(nil), t.items...), e.items...), env: e.env, illegal: e.illegal})
			}
		}
		if len(next) > maxSpecTraces {
			fatalf("wire.grammar: more than %d traces", maxSpecTraces)
		}
		cur = next
	}
	return cur
}

func subsets(mask uint64) []uint64 {
	var bits []uint64
	for b := uint64(1); b != 0 && b <= mask; b <<= 1 {
		if mask&b != 0 {
			bits = append(bits, b)
		}
	}
	out := []uint64{0}
	for _, b := range bits {
		n := len(out)
		for i := 0; i < n; i++ {
			out = append(out, out[i]|b)
		}
	}
	sort.Slice(out, func(i, j int) bool { return out[i] < out[j] })
	return out
}

func (g *grammar) expandItem(it gItem, env *genv, tested map[string]uint64) []*gtrace {
	switch x := it.(type) {
	case *gAtom:
		if x.flagsT == "" {
			return []*gtrace{{items: []*seqItem{{kind: "op", name: x.kind, key: x.label}}, env: env}}
		}
		var out []*gtrace
		for _, s := range subsets(tested[x.flagsT]) {
			ne := env.clone()
			ne.flags[x.flagsT] = s
			out = append(out, &gtrace{items: []*seqItem{{kind: "op", name: x.kind, key: "flags:" + x.flagsT, arg: Val{K: KConst, C: constant.MakeUint64(s)}}}, env: ne})
		}
		return out
	case *gFlagCond:
		T := x.T
		if a, ok := env.bind[T]; ok {
			T = a
		}
		if x.vers != nil && !x.vers[env.ver] {
			return []*gtrace{{env: env}}
		}
		if x.dir != "" && env.dir != "" && x.dir != env.dir {
			return []*gtrace{{env: env}}
		}
		val, ok := env.flags[T]
		if !ok {
			fatalf("wire.grammar: flag condition on %s before its flag word", T)
		}
		if (val&x.mask != 0) == x.set {
			return g.expandSeq(x.items, env, tested)
		}
		return []*gtrace{{env: env}}
	case *gVer:
		if x.vers[env.ver] {
			return g.expandSeq(x.items, env, tested)
		}
		return []*gtrace{{env: env}}
	case *gChoice:
		out := []*gtrace{{env: env}}
		return append(out, g.expandSeq(x.items, env, tested)...)
	case *gEither:
		var out []*gtrace
		seen := map[string]bool{}
		for _, a := range x.alts {
			for _, t := range g.expandSeq(a, env, tested) {
				k := seqString(t.items)
				if !seen[k] {
					seen[k] = true
					out = append(out, t)
				}
			}
		}
		return out
	case *gSwitch:
		var out []*gtrace
		var explicit []constant.Value
		for _, a := range x.alts {
			explicit = append(explicit, a.consts...)
		}
		for _, a := range x.alts {
			if a.vers != nil && !a.vers[env.ver] {
				// defined by other versions only: a frame using it is not version-valid
				for _, c := range a.consts {
					out = append(out, &gtrace{items: []*seqItem{{kind: "op", name: x.atom.kind, key: "disc:illegal", arg: Val{K: KConst, C: c}}}, env: env, illegal: true})
				}
				continue
			}
			rest := g.expandSeq(a.items, env, tested)
			if a.star {
				for _, r := range rest {
					out = append(out, &gtrace{items: append([]*seqItem{{kind: "op", name: x.atom.kind, key: "disc:*", excl: explicit}}, r.items...), env: r.env, illegal: r.illegal})
				}
			}
			for _, c := range a.consts {
				for _, r := range rest {
					out = append(out, &gtrace{items: append([]*seqItem{{kind: "op", name: x.atom.kind, key: "disc", arg: Val{K: KConst, C: c}}}, r.items...), env: r.env, illegal: r.illegal})
				}
			}
		}
		return out
	case *gLoop:
		var pre []*seqItem
		if x.counter != nil {
			pre = append(pre, &seqItem{kind: "op", name: x.counter.kind, key: x.counter.label})
		}
		lp := &seqItem{kind: "loop"}
		for _, b := range g.expandSeq(x.items, env, tested) {
			if b.illegal {
				lp.illegalAlts = append(lp.illegalAlts, &seqAlt{items: b.items})
				continue
			}
			lp.alts = append(lp.alts, &seqAlt{items: b.items})
		}
		nonEmpty := false
		for _, a := range lp.alts {
			if len(a.items) > 0 {
				nonEmpty = true
			}
		}
		if nonEmpty {
			pre = append(pre, lp)
		}
		return []*gtrace{{items: pre, env: env}}
	case *gRef:
		for _, s := range env.stack {
			if s == x.name {
				stem, ok := g.rec[x.name]
				if !ok {
					fatalf("wire.grammar: recursive rule %s has no %%rec directive", x.name)
				}
				return []*gtrace{{items: []*seqItem{{kind: "rec", name: stem}}, env: env}}
			}
		}
		items, ok := g.rules[x.name]
		if !ok {
			fatalf("wire.grammar: unknown non-terminal %s", x.name)
		}
		ne := env.clone()
		ne.stack = append(ne.stack, x.name)
		if f := g.params[x.name]; f != "" {
			act := x.param
			if a, ok := env.bind[act]; ok {
				act = a
			}
			ne.bind[f] = act
		}
		out := g.expandSeq(items, ne, tested)
		// restore the stack / binding of the caller but keep flag words
		for _, t := range out {
			e := t.env.clone()
			e.stack = env.stack
			e.bind = env.bind
			t.env = e
		}
		return out
	}
	fatalf("wire.grammar: unknown item %T", it)
	return nil
}

// specAccepts: the code trace w (an encoder path with its constants) is one the specification
// generates: same notations, loops and recursion; flag words agree on the bits the specification
// tests; discriminators agree.
func specAccepts(spec, w []*seqItem, tested map[string]uint64) (bool, string) {
	ok, why, _ := specAcceptsX(spec, w, tested, false)
	return ok, why
}

// specAcceptsX: with prefix=true the specification trace only has to be a prefix of the code trace
// (used for "version-illegal discriminator" markers); illegal reports that an iteration of the code
// matched a marker inside a loop.
func specAcceptsX(spec, w []*seqItem, tested map[string]uint64, prefix bool) (bool, string, bool) {
	i, j := 0, 0
	for i < len(spec) {
		s := spec[i]
		if j >= len(w) {
			// the code trace ended: remaining specification items must be skippable loops
			if s.kind == "loop" && j > 0 && zeroCount(w[j-1]) {
				i++
				continue
			}
			return false, fmt.Sprintf("item %d: code trace ends, specification continues with %s", j+1, s.kind+":"+s.name), false
		}
		c := w[j]
		if s.kind == "loop" && c.kind != "loop" && j > 0 && zeroCount(w[j-1]) {
			i++ // the code wrote a zero count: no iterations follow
			continue
		}
		if s.kind != c.kind {
			return false, fmt.Sprintf("item %d: specification %s, code %s", j+1, s.kind+":"+s.name, c.kind+":"+c.name), false
		}
		switch s.kind {
		case "op":
			if s.name != c.name {
				return false, fmt.Sprintf("item %d: specification says [%s], code has [%s]", j+1, s.name, c.name), false
			}
			if s.key == "disc:*" && c.arg.K == KConst {
				for _, x := range s.excl {
					if x.Kind() == c.arg.C.Kind() && constant.Compare(x, token.EQL, c.arg.C) {
						return false, fmt.Sprintf("item %d: value %s has its own layout in the specification", j+1, constLabel(c.arg.C)), false
					}
				}
			}
			if s.arg.K == KConst && c.arg.K == KConst {
				if strings.HasPrefix(s.key, "flags:") {
					mask := tested[strings.TrimPrefix(s.key, "flags:")]
					fc := c.arg.C
					if c.arg.OC != nil {
						fc = c.arg.OC
					}
					cu, ok := constant.Uint64Val(constant.ToInt(fc))
					if !ok {
						if iv, ok := constant.Int64Val(fc); ok {
							cu = uint64(uint32(iv))
						}
					}
					su, _ := constant.Uint64Val(s.arg.C)
					if cu&mask != su {
						return false, fmt.Sprintf("item %d: flag word %#x vs %#x", j+1, cu&mask, su), false
					}
				} else if s.arg.C.Kind() != c.arg.C.Kind() || !constant.Compare(s.arg.C, token.EQL, c.arg.C) {
					return false, fmt.Sprintf("item %d: discriminator %s vs %s", j+1, constLabel(s.arg.C), constLabel(c.arg.C)), false
				}
			} else if s.key == "disc:illegal" {
				return false, fmt.Sprintf("item %d: discriminator unknown", j+1), false
			}
		case "rec", "dyn":
			if s.name != c.name {
				return false, fmt.Sprintf("item %d: recursion %s vs %s", j+1, s.name, c.name), false
			}
		case "loop":
			for _, ca := range c.alts {
				ok := false
				why := ""
				for _, sa := range s.alts {
					if m, w2, _ := specAcceptsX(sa.items, ca.items, tested, false); m {
						ok = true
						break
					} else if why == "" || strings.HasPrefix(w2, "item") {
						why = w2
					}
				}
				if !ok {
					for _, ia := range s.illegalAlts {
						if m, _, _ := specAcceptsX(ia.items, ca.items, tested, true); m {
							return false, fmt.Sprintf("item %d (loop): iteration %s uses a value other versions define", j+1, seqString(ca.items)), true
						}
					}
					return false, fmt.Sprintf("item %d (loop): code iteration %s is not a layout of the specification (%s)", j+1, seqString(ca.items), why), false
				}
			}
		}
		i++
		j++
	}
	if j < len(w) && !prefix {
		return false, fmt.Sprintf("item %d: specification layout ends, code continues with %s", j+1, w[j].kind+":"+w[j].name), false
	}
	return true, "", false
}

func zeroCount(it *seqItem) bool {
	return it.kind == "op" && it.arg.K == KConst && it.arg.C.Kind() == constant.Int && constant.Sign(it.arg.C) == 0
}
