package main

// C09: stream ids - the structural discipline of the id pool and the in-flight map.
// C10: responses reach the request with the same stream id - def-use and path rules of the
//      receive path.
//
//  C09 borrow-release   typestate over all paths of the enqueue function: after a successful borrow a
//                       path ends with the request registered (success) or the id released (error)
//      incoming-release on the receive path an id is released exactly on the paths that removed the
//                       entry (last frame), whatever the outcome of the delivery
//      atomic-insert    the map insert is dominated, inside one write-lock region, by the duplicate
//                       test on the same key and the capacity test
//      non-blocking     every operation on the id pool channel is a select with default; the only
//                       plain send is the constructor prefill 1..N into a channel of capacity N
//      last-frame       isLastFrame is false exactly for RESULT Rows pages flagged continuous and not
//                       last (decision table by path enumeration)
//  C10 event-routing, routing-key, deliver-once, not-found-clean, lock-pairing, complete-after-send

import (
	"fmt"
	"go/constant"
	"go/token"
	"go/types"
	"sort"
	"strings"

	"golang.org/x/tools/go/ssa"
)

func init() {
	register("C09", "other", checkC09)
	register("C10", "other", checkC10)
}

// clientRun interprets a method of a client type with the named functions as call atoms.
func clientRun(p *Program, typ, method string, atoms ...string) (*Interp, []*PathOut) {
	fn := p.LookupMethod("client", typ, method)
	h := &effHooks{}
	in := newInterp(p, h)
	set := map[string]bool{}
	for _, a := range atoms {
		set[a] = true
	}
	in.NoInline = func(f *types.Func) bool { return set[shortFuncName(f)] }
	recv, args := paramVals(fn)
	outs := in.RunFunc(fn, recv, args, nil)
	return in, outs
}

func pathEvents(o *PathOut) []string {
	var ev []string
	for _, s := range o.St.trace {
		switch s.Kind {
		case "callret":
			ev = append(ev, s.Name+":"+s.Extra)
		case "callatom":
			ev = append(ev, "call "+s.Name)
		case "ext":
			if strings.Contains(s.Name, "sync.") {
				ev = append(ev, s.Name)
			}
		case "select", "send", "recv", "close", "delete", "defer", "go":
			ev = append(ev, s.Kind+" "+s.Name+" "+s.Key+s.Extra)
		}
	}
	return ev
}

func hasEvent(ev []string, prefix string) bool {
	for _, e := range ev {
		if strings.HasPrefix(e, prefix) {
			return true
		}
	}
	return false
}

func indexEvent(ev []string, prefix string) int {
	for i, e := range ev {
		if strings.HasPrefix(e, prefix) {
			return i
		}
	}
	return -1
}

func checkC09(p *Program, r *Report) {
	r.Explanation = "Histories and schedules are not explored; the discipline that makes the invariants hold is decided on every path and call site: the enqueue function's typestate (a borrowed id is registered or released on every exit), the receive path's release exactly with the removal of the entry, the check-then-insert of the in-flight map inside one write-lock region, non-blocking access to the id pool with a prefill of exactly 1..N, and the decision table of isLastFrame. These are necessary conditions of uniqueness, conservation and refusal; uniqueness under all interleavings would need a model checker, and ids of requests that time out are outside the statement."
	r.Trusted = []string{"absint evaluator (call atoms with both outcomes)", "go/ssa dominance"}
	r.Assumptions = []string{"sync.RWMutex, channels and atomics behave as specified"}

	// ---- borrow-release ------------------------------------------------------------------------------
	in, outs := clientRun(p, "inFlightRequestsHandler", "onOutgoingFrameEnqueued", "inFlightRequestsHandler.borrowStreamId", "inFlightRequestsHandler.releaseStreamId", "inFlightRequestsHandler.addInFlight", "inFlightRequest.startTimeout", "inFlightRequestsHandler.isClosed")
	if len(in.Undecided) > 0 {
		fatalf("enqueue analysis undecided: %s", strings.Join(in.Undecided, "; "))
	}
	r.Floor("borrow-release", 4)
	nBorrow := 0
	for i, o := range outs {
		ev := pathEvents(o)
		key := fmt.Sprintf("onOutgoingFrameEnqueued path %s", strings.Join(ev, ","))
		_ = i
		borrowed := hasEvent(ev, "inFlightRequestsHandler.borrowStreamId:ok")
		if borrowed {
			nBorrow++
		}
		registered := hasEvent(ev, "inFlightRequestsHandler.addInFlight:ok")
		released := hasEvent(ev, "call inFlightRequestsHandler.releaseStreamId")
		switch {
		case o.IsErr == 0 && !registered:
			r.Fail("borrow-release", key, token.NoPos, "a request is accepted (nil error) without being registered in the in-flight map")
		case o.IsErr == 1 && borrowed && !registered && !released:
			r.Fail("borrow-release", key, token.NoPos, "an error exit after a successful borrow neither registers the request nor returns the id to the pool: the id is lost for good")
		case registered && released:
			r.Fail("borrow-release", key, token.NoPos, "the id of a registered request is released while the request is in flight")
		case o.IsErr == -1:
			r.Fail("borrow-release", key, token.NoPos, "undecided error result")
		default:
			r.OKf("borrow-release", key, token.NoPos, "borrowed=%v registered=%v released=%v error=%v", borrowed, registered, released, o.IsErr == 1)
		}
	}
	if nBorrow == 0 {
		fatalf("anchor: no path of onOutgoingFrameEnqueued borrows a stream id")
	}

	c09IncomingRelease(p, r)

	c09AtomicInsert(p, r)
	c09NonBlocking(p, r)
	c09LastFrame(p, r)
	c09EnqueueCapacity(p, r)
	c10DuplicateRefused(p, r)
}

func clientFuncs(p *Program) []*ssa.Function {
	var out []*ssa.Function
	for _, fn := range p.ModuleFuncs() {
		pk := fn.Package()
		if pk == nil && fn.Parent() != nil {
			pk = fn.Parent().Package()
		}
		if pk != nil && shortPkg(pk.Pkg) == "client" {
			out = append(out, fn)
		}
	}
	return out
}

func fieldOfLoad(v ssa.Value) (*types.Var, ssa.Value) {
	u, ok := v.(*ssa.UnOp)
	if !ok || u.Op != token.MUL {
		return nil, nil
	}
	b, f, ok := fieldAddrOf(u.X)
	if !ok {
		return nil, nil
	}
	return f, b
}

func c09AtomicInsert(p *Program, r *Report) {
	r.Floor("atomic-insert", 1)
	n := 0
	for _, fn := range clientFuncs(p) {
		for _, b := range fn.Blocks {
			for _, ins := range b.Instrs {
				mu, ok := ins.(*ssa.MapUpdate)
				if !ok {
					continue
				}
				fld, _ := fieldOfLoad(mu.Map)
				if fld == nil || fld.Name() != "inFlight" {
					continue
				}
				n++
				key := fnKey(fn) + " insert"
				// write lock held: a Lock() call on the handler's lock dominating the insert, released only
				// by a deferred Unlock or an Unlock that the insert dominates
				var lockBlk *ssa.BasicBlock
				lockIdx := -1
				for _, b2 := range fn.Blocks {
					for i2, in2 := range b2.Instrs {
						if c, ok := in2.(*ssa.Call); ok {
							if f := c.Call.StaticCallee(); f != nil && f.String() == "(*sync.RWMutex).Lock" && b2.Dominates(b) {
								lockBlk, lockIdx = b2, i2
							}
						}
					}
				}
				if lockBlk == nil {
					r.Fail("atomic-insert", key, mu.Pos(), "the in-flight map is written without holding the write lock")
					continue
				}
				unlockedBefore := false
				for _, b2 := range fn.Blocks {
					for _, in2 := range b2.Instrs {
						if c, ok := in2.(*ssa.Call); ok {
							if f := c.Call.StaticCallee(); f != nil && f.String() == "(*sync.RWMutex).Unlock" && lockBlk.Dominates(b2) && b2.Dominates(b) && b2 != b {
								unlockedBefore = true
							}
						}
					}
				}
				after := func(b2 *ssa.BasicBlock, i2 int) bool {
					// instruction (b2,i2) executes after the Lock call and before the insert
					if !lockBlk.Dominates(b2) || !b2.Dominates(b) {
						return false
					}
					if b2 == lockBlk && i2 < lockIdx {
						return false
					}
					return true
				}
				dupTest, capTest := false, false
				for _, b2 := range fn.Blocks {
					for i2, in2 := range b2.Instrs {
						switch x := in2.(type) {
						case *ssa.Lookup:
							if f2, _ := fieldOfLoad(x.X); f2 == fld && x.Index == mu.Key && x.CommaOk && after(b2, i2) {
								dupTest = true
							}
						case *ssa.BinOp:
							if (x.Op == token.EQL || x.Op == token.GEQ || x.Op == token.LSS || x.Op == token.NEQ) && after(b2, i2) {
								for _, o := range []ssa.Value{x.X, x.Y} {
									if c, ok := o.(*ssa.Call); ok {
										if bi, ok := c.Call.Value.(*ssa.Builtin); ok && bi.Name() == "len" {
											if f2, _ := fieldOfLoad(c.Call.Args[0]); f2 == fld {
												capTest = true
											}
										}
									}
								}
							}
						}
					}
				}
				switch {
				case unlockedBefore:
					r.Fail("atomic-insert", key, mu.Pos(), "the lock is released between the tests and the insert")
				case !dupTest:
					r.Fail("atomic-insert", key, mu.Pos(), "the duplicate-id test on the same key is not made inside the write-lock region of the insert: two senders using the same explicit id can both pass the test")
				case !capTest:
					r.Fail("atomic-insert", key, mu.Pos(), "the capacity test is not made inside the write-lock region of the insert")
				default:
					r.OKf("atomic-insert", key, mu.Pos(), "duplicate and capacity tests and the insert share one write-lock region")
				}
			}
		}
	}
	if n == 0 {
		fatalf("anchor: no insert into the in-flight map found")
	}
}

func c09NonBlocking(p *Program, r *Report) {
	r.Floor("non-blocking", 3)
	isPool := func(v ssa.Value) bool {
		f, _ := fieldOfLoad(v)
		if f != nil && f.Name() == "streamIds" {
			return true
		}
		return false
	}
	for _, fn := range clientFuncs(p) {
		n := 0
		for _, b := range fn.Blocks {
			for _, ins := range b.Instrs {
				switch x := ins.(type) {
				case *ssa.Select:
					for _, st := range x.States {
						if isPool(st.Chan) {
							n++
							key := fmt.Sprintf("%s select#%d", fnKey(fn), n)
							if x.Blocking {
								r.Fail("non-blocking", key, x.Pos(), "select on the id pool has no default: a sender blocks instead of being refused")
							} else {
								r.OKf("non-blocking", key, x.Pos(), "non-blocking")
							}
						}
					}
				case *ssa.UnOp:
					if x.Op == token.ARROW && isPool(x.X) {
						n++
						r.Fail("non-blocking", fmt.Sprintf("%s recv#%d", fnKey(fn), n), x.Pos(), "plain receive on the id pool blocks when no id is free instead of refusing the send")
					}
				case *ssa.Send:
					if !isPool(x.Chan) {
						continue
					}
					n++
					key := fmt.Sprintf("%s send#%d", fnKey(fn), n)
					// constructor prefill: channel = make(chan, N); loop i = 1; i <= N
					ok, why := prefillOK(x)
					if ok {
						r.OKf("non-blocking", key, x.Pos(), "constructor prefill of ids 1..N into a channel of capacity N")
					} else {
						r.Fail("non-blocking", key, x.Pos(), "plain send on the id pool: %s", why)
					}
				}
			}
		}
	}
}

func prefillOK(s *ssa.Send) (bool, string) {
	f, base := fieldOfLoad(s.Chan)
	_ = f
	fn := s.Parent()
	// the channel stored in the field in this function
	var mk *ssa.MakeChan
	for _, st := range (&Guards{}).storesToPlain(fn, base, "streamIds") {
		if m, ok := st.Val.(*ssa.MakeChan); ok {
			mk = m
		}
	}
	if mk == nil {
		return false, "not the constructor prefill (the channel is not created here)"
	}
	// value sent: conversion of a loop phi starting at 1 with condition phi <= N, N == capacity
	v := s.X
	if cv, ok := v.(*ssa.Convert); ok {
		v = cv.X
	}
	phi, ok := v.(*ssa.Phi)
	if !ok {
		return false, "sent value is not the loop counter"
	}
	startsAtOne := false
	for _, e := range phi.Edges {
		if c, ok := e.(*ssa.Const); ok {
			if it, ok := constItv(c); ok && it.Lo.Cmp(bi(1)) == 0 {
				startsAtOne = true
			}
		}
	}
	if !startsAtOne {
		return false, "ids do not start at 1 (0 is the managed-id marker)"
	}
	blk := phi.Block()
	ifi, ok := blk.Instrs[len(blk.Instrs)-1].(*ssa.If)
	if !ok {
		return false, "no loop bound"
	}
	bo, ok := ifi.Cond.(*ssa.BinOp)
	if !ok || bo.Op != token.LEQ || bo.X != ssa.Value(phi) {
		return false, "loop bound is not i <= N"
	}
	if bo.Y != mk.Size {
		return false, "loop bound differs from the channel capacity"
	}
	return true, ""
}

// storesToPlain: stores to field `name` through base in fn.
func (g *Guards) storesToPlain(fn *ssa.Function, base ssa.Value, name string) []*ssa.Store {
	var out []*ssa.Store
	for _, b := range fn.Blocks {
		for _, ins := range b.Instrs {
			if st, ok := ins.(*ssa.Store); ok {
				if bb, f, ok := fieldAddrOf(st.Addr); ok && f.Name() == name && bb == base {
					out = append(out, st)
				}
			}
		}
	}
	return out
}

// c09LastFrame: decision table of isLastFrame by path enumeration.
func c09LastFrame(p *Program, r *Report) {
	r.Floor("last-frame", 3)
	fn := p.LookupFunc("client", "isLastFrame")
	resultOp, _ := constant.Int64Val(p.Pkg("primitive").Types.Scope().Lookup("OpCodeResult").(*types.Const).Val())
	rowsT, _ := constant.Int64Val(p.Pkg("primitive").Types.Scope().Lookup("ResultTypeRows").(*types.Const).Val())
	// per protocol version: in versions that have multi-page responses (continuous paging: DSE v1
	// and v2, spec/capabilities.tsv SupportsQueryFlag 0x80000000) no frame may be classified without
	// its opcode having been examined - a version gate that is too narrow completes requests early
	{
		pe := newPenum(p)
		pvT := p.LookupType("primitive", "ProtocolVersion").Type()
		for _, v := range supportedVersions(p, pe) {
			ver := versionLabel(v)
			if ver != "D1" && ver != "D2" {
				continue
			}
			inV := newInterp(p, &effHooks{})
			_, argsV := paramVals(fn)
			st := newState()
			st.refine["p0.Header.Version"] = constVal(v, pvT).C
			for _, o := range inV.RunFunc(fn, nil, argsV, st) {
				opKnown := false
				for k := range o.St.refine {
					if strings.HasSuffix(k, "Header.OpCode") {
						opKnown = true
					}
				}
				for k := range o.St.exclude {
					if strings.HasSuffix(k, "Header.OpCode") {
						opKnown = true
					}
				}
				key := fmt.Sprintf("isLastFrame@%s {%s}", ver, describeAtoms(o.St))
				if !opKnown {
					r.Fail("last-frame", key, fn.Pos(), "in %s, which has multi-page (continuous paging) responses, a frame is classified as last=%v without its opcode being examined: non-final pages complete their request and free its stream id while the server keeps sending under it", ver, o.Ret)
				} else {
					r.OKf("last-frame", key, fn.Pos(), "opcode examined")
				}
			}
		}
	}
	in := newInterp(p, &effHooks{})
	_, args := paramVals(fn)
	outs := in.RunFunc(fn, nil, args, nil)
	for _, o := range outs {
		if len(o.Ret) != 1 {
			continue
		}
		isResult, isRows, continuous := false, false, false
		for k, c := range o.St.refine {
			if i, ok := constant.Int64Val(c); ok {
				if strings.HasSuffix(k, "Header.OpCode") && i == resultOp {
					isResult = true
				}
				if strings.HasSuffix(k, "GetResultType()") && i == rowsT {
					isRows = true
				}
			}
		}
		contKnown := false
		for a, pol := range o.St.atoms {
			if strings.HasPrefix(a, "pos(") && strings.HasSuffix(a, "ContinuousPageNumber)") {
				contKnown = true
				if pol {
					continuous = true
				}
			}
		}
		typeKnown := isRows
		for k := range o.St.exclude {
			if strings.HasSuffix(k, "GetResultType()") {
				typeKnown = true
			}
		}
		for k := range o.St.refine {
			if strings.HasSuffix(k, "GetResultType()") {
				typeKnown = true
			}
		}
		if isResult && !typeKnown {
			r.Fail("last-frame", fmt.Sprintf("isLastFrame {%s}", describeAtoms(o.St)), fn.Pos(), "a RESULT frame is classified (%v) without looking at its result kind: Rows pages of a continuous-paging response would be taken for final frames", o.Ret[0])
			continue
		}
		if isResult && isRows && !contKnown {
			r.Fail("last-frame", fmt.Sprintf("isLastFrame {%s}", describeAtoms(o.St)), fn.Pos(), "a RESULT Rows frame is classified (%v) without looking at its continuous-paging flag: pages of a multi-page response would complete the request early", o.Ret[0])
			continue
		}
		ret := in.resolve(o.Ret[0], o.St)
		key := fmt.Sprintf("isLastFrame {%s}", describeAtoms(o.St))
		nonFinalCandidate := isResult && isRows && continuous
		switch {
		case nonFinalCandidate:
			// must return exactly the page's LastContinuousPage
			if ret.K == KExpr && strings.HasSuffix(ret.Key, ".LastContinuousPage") {
				r.OKf("last-frame", key, fn.Pos(), "continuous page: returns its LastContinuousPage flag")
			} else if b, ok := ret.isBool(); ok {
				lp, known := false, false
				for a, pol := range o.St.atoms {
					if strings.HasSuffix(a, ".LastContinuousPage") {
						lp, known = pol, true
					}
				}
				if known && lp == b {
					r.OKf("last-frame", key, fn.Pos(), "continuous page: result equals its LastContinuousPage flag")
				} else {
					r.Fail("last-frame", key, fn.Pos(), "a RESULT Rows page of a continuous-paging response is classified last=%v independently of (or against) its LastContinuousPage flag: a multi-page response is completed early or never", b)
				}
			} else {
				r.Fail("last-frame", key, fn.Pos(), "continuous page: result %v is not the page's LastContinuousPage flag", ret)
			}
		default:
			if b, ok := ret.isBool(); ok && b {
				r.OKf("last-frame", key, fn.Pos(), "single-frame response: last")
			} else {
				r.Fail("last-frame", key, fn.Pos(), "a frame that is not a continuous-paging RESULT Rows page is not treated as the last frame of its response (result %v): its request never completes and its id is never recycled", ret)
			}
		}
	}
}

// c09IncomingRelease: on the receive path an id is released exactly on the paths that removed the
// entry, the entry is removed exactly on last frames, and no frame for a registered request leaves
// before that is decided (shared by C09 and C10: an entry removed early lets the id be reused while
// pages of the old response are still arriving, which are then delivered to the wrong request).
func c09IncomingRelease(p *Program, r *Report) {
	// ---- incoming-release -------------------------------------------------------------------------
	_, outs := clientRun(p, "inFlightRequestsHandler", "onIncomingFrameReceived", "isLastFrame", "inFlightRequestsHandler.removeInFlight", "inFlightRequestsHandler.releaseStreamId", "inFlightRequest.onFrameReceived", "inFlightRequestsHandler.isClosed")
	r.Floor("incoming-release", 4)
	for _, o := range outs {
		ev := pathEvents(o)
		key := fmt.Sprintf("onIncomingFrameReceived path %s {%s}", strings.Join(ev, ","), strings.Join(o.St.atomLog, " "))
		removed := hasEvent(ev, "call inFlightRequestsHandler.removeInFlight")
		released := hasEvent(ev, "call inFlightRequestsHandler.releaseStreamId")
		last, lastKnown := o.St.atoms["isLastFrame(p0)"]
		managed, managedKnown := false, false
		for a, pol := range o.St.atoms {
			if strings.HasSuffix(a, ".managedStreamId") {
				managed, managedKnown = pol, true
			}
		}
		foundEntry := false
		for a, pol := range o.St.atoms {
			if strings.HasPrefix(a, "has(recv.inFlight[") && pol {
				foundEntry = true
			}
		}
		switch {
		case foundEntry && !lastKnown:
			r.Fail("incoming-release", key, token.NoPos, "a frame addressed to a registered request leaves the handler before it is decided whether it is the last frame of the response: if it is, the entry stays registered and its stream id is never returned to the pool")
		case removed && (!lastKnown || !last):
			r.Fail("incoming-release", key, token.NoPos, "the in-flight entry is removed on a frame that is not the last one of its response")
		case lastKnown && last && !removed:
			r.Fail("incoming-release", key, token.NoPos, "the last frame of a response does not remove the in-flight entry")
		case released && !removed:
			r.Fail("incoming-release", key, token.NoPos, "a stream id is released while its request stays registered")
		case removed && !released && !(managedKnown && !managed):
			r.Fail("incoming-release", key, token.NoPos, "the entry of a managed request is removed but its id is not returned to the pool on this path (e.g. when delivery fails): after all requests are answered fewer than N ids remain")
		case removed && managedKnown && !managed && released:
			r.Fail("incoming-release", key, token.NoPos, "a caller-chosen id is put into the pool of managed ids")
		default:
			r.OKf("incoming-release", key, token.NoPos, "last=%v removed=%v released=%v", last, removed, released)
		}
	}

}

// ---------------------------------------------------------------------------------------
// C10

func checkC10(p *Program, r *Report) {
	r.Explanation = "Orderings across goroutines are not explored; the routing discipline of the receive path is decided structurally: events are branched off by opcode before any call into the in-flight handler and never reach it, the lookup key is the stream id of the frame being delivered, the frame is handed exactly once to the looked-up request's own channel, the not-found branch performs no mutation and leaves no lock held, every lock acquired on the receive path is released on every exit, completion follows the send of the last frame, and isLastFrame's decision table is the one the paging protocol defines."
	r.Trusted = []string{"absint evaluator", "go/ssa"}

	// ---- event routing ------------------------------------------------------------------------------
	in, outs := clientRun(p, "CqlClientConnection", "processIncomingFrame", "inFlightRequestsHandler.onIncomingFrameReceived")
	if len(in.Undecided) > 0 {
		fatalf("processIncomingFrame undecided: %s", strings.Join(in.Undecided, "; "))
	}
	eventOp, _ := constant.Int64Val(p.Pkg("primitive").Types.Scope().Lookup("OpCodeEvent").(*types.Const).Val())
	r.Floor("event-routing", 2)
	for _, o := range outs {
		ev := pathEvents(o)
		isEvent, known := false, false
		for k, c := range o.St.refine {
			if strings.HasSuffix(k, "Header.OpCode") {
				if i, ok := constant.Int64Val(c); ok {
					isEvent, known = i == eventOp, true
				}
			}
		}
		for k, ex := range o.St.exclude {
			if strings.HasSuffix(k, "Header.OpCode") {
				for _, c := range ex {
					if i, ok := constant.Int64Val(c); ok && i == eventOp && !known {
						isEvent, known = false, true
					}
				}
			}
		}
		calls := 0
		for _, e := range ev {
			if strings.HasPrefix(e, "call inFlightRequestsHandler.onIncomingFrameReceived") {
				calls++
			}
		}
		toEvents, sentToEvents := false, false
		for _, e := range ev {
			if strings.HasPrefix(e, "select ") && strings.Contains(e, "send c.events") {
				toEvents = true // offered: the select statement has a send on the event channel
			}
			if strings.HasPrefix(e, "select send c.events") {
				sentToEvents = true
			}
		}
		_ = sentToEvents
		key := fmt.Sprintf("processIncomingFrame event=%v/%v calls=%d events=%v", isEvent, known, calls, toEvents)
		switch {
		case !known:
			r.Fail("event-routing", key, token.NoPos, "a path does not decide whether the frame is an EVENT before routing it")
		case isEvent && calls > 0:
			r.Fail("event-routing", key, token.NoPos, "a server-pushed EVENT frame is handed to the in-flight request handler")
		case isEvent && !toEvents:
			r.Fail("event-routing", key, token.NoPos, "an EVENT frame is not offered to the event channel")
		case !isEvent && calls != 1:
			r.Fail("event-routing", key, token.NoPos, "a response frame is handed to the in-flight handler %d times", calls)
		case !isEvent && toEvents:
			r.Fail("event-routing", key, token.NoPos, "a response frame is sent to the event channel")
		default:
			r.OKf("event-routing", key, token.NoPos, "ok")
		}
	}

	// ---- routing key, deliver once, not-found clean ------------------------------------------------
	fn := ssaMethod(p, "client", "inFlightRequestsHandler", "onIncomingFrameReceived")
	frameParam := fn.Params[1]
	foundLookup := false
	isStreamIdOfFrame := func(v ssa.Value) bool {
		if u, ok := v.(*ssa.UnOp); ok && u.Op == token.MUL {
			if hb, hf, ok := fieldAddrOf(u.X); ok && hf.Name() == "StreamId" {
				return isFieldLoad(hb, frameParam, "Header")
			}
		}
		return false
	}
	// the lookup may sit in the handler itself or in a helper method it calls with the key
	type site struct {
		fn   *ssa.Function
		call *ssa.Call // nil for the handler itself
	}
	sites := []site{{fn, nil}}
	for _, b := range fn.Blocks {
		for _, ins := range b.Instrs {
			if c, ok := ins.(*ssa.Call); ok {
				if g := c.Call.StaticCallee(); g != nil && g.Pkg == fn.Pkg && g.Blocks != nil && g.Signature.Recv() != nil {
					sites = append(sites, site{g, c})
				}
			}
		}
	}
	for _, s := range sites {
		for _, b := range s.fn.Blocks {
			for _, ins := range b.Instrs {
				lk, ok := ins.(*ssa.Lookup)
				if !ok {
					continue
				}
				f, _ := fieldOfLoad(lk.X)
				if f == nil || f.Name() != "inFlight" {
					continue
				}
				if s.call != nil && (s.fn.Name() == "removeInFlight" || s.fn.Name() == "addInFlight") {
					continue // not the delivery lookup
				}
				foundLookup = true
				okKey := false
				if s.call == nil {
					okKey = isStreamIdOfFrame(lk.Index)
				} else if pp, ok := lk.Index.(*ssa.Parameter); ok {
					for i, q := range s.fn.Params {
						if q == pp && i < len(s.call.Call.Args) {
							okKey = isStreamIdOfFrame(s.call.Call.Args[i])
						}
					}
				}
				if okKey {
					r.OKf("routing-key", "onIncomingFrameReceived lookup", lk.Pos(), "key is f.Header.StreamId of the frame being delivered")
				} else {
					r.Fail("routing-key", "onIncomingFrameReceived lookup", lk.Pos(), "the in-flight request is looked up with key %s, not the stream id of the received frame", describeVal(lk.Index))
				}
			}
		}
	}
	if !foundLookup {
		r.Fail("routing-key", "onIncomingFrameReceived lookup", fn.Pos(), "no lookup of the in-flight map by the frame's stream id was found on the receive path (neither in the handler nor in a helper it calls)")
	}
	_, outs = clientRun(p, "inFlightRequestsHandler", "onIncomingFrameReceived", "isLastFrame", "inFlightRequestsHandler.removeInFlight", "inFlightRequestsHandler.releaseStreamId", "inFlightRequest.onFrameReceived", "inFlightRequestsHandler.isClosed")
	r.Floor("deliver-once", 3)
	for _, o := range outs {
		ev := pathEvents(o)
		found, known := false, false
		for a, pol := range o.St.atoms {
			if strings.HasPrefix(a, "has(recv.inFlight[") {
				found, known = pol, true
			}
		}
		delivers := 0
		recvOK := true
		for _, s := range o.St.trace {
			if s.Kind == "callatom" && s.Name == "inFlightRequest.onFrameReceived" {
				delivers++
				if !(s.Arg.K == KExpr && strings.HasPrefix(s.Arg.Key, "recv.inFlight[")) {
					recvOK = false
				}
				if len(s.Args) != 1 || s.Args[0].K != KExpr || s.Args[0].Key != "p0" {
					recvOK = false
				}
			}
		}
		mutates := hasEvent(ev, "call inFlightRequestsHandler.removeInFlight") || hasEvent(ev, "call inFlightRequestsHandler.releaseStreamId") || hasEvent(ev, "delete")
		closed := false
		for a, pol := range o.St.atoms {
			if strings.HasPrefix(a, "inFlightRequestsHandler.isClosed(") && pol {
				closed = true
			}
		}
		key := fmt.Sprintf("onIncomingFrameReceived found=%v closed=%v {%s}", found, closed, strings.Join(ev, ","))
		switch {
		case closed:
			if delivers > 0 || mutates {
				r.Fail("deliver-once", key, token.NoPos, "a closed handler still routes frames")
			} else {
				r.OKf("deliver-once", key, token.NoPos, "closed handler refuses")
			}
		case !known:
			r.Fail("deliver-once", key, token.NoPos, "a path delivers without looking the request up")
		case found && delivers == 0 && hasEvent(ev, "inFlightRequestsHandler.releaseStreamId:err") && o.IsErr == 1:
			// releasing the id can only fail while the handler is being closed (or the pool is
			// corrupt); the pending requests are then completed with an error by close()
			r.OKf("deliver-once", key, token.NoPos, "release failed (handler closing): reported as an error")
		case found && (delivers != 1 || !recvOK):
			r.Fail("deliver-once", key, token.NoPos, "the frame is handed to the looked-up request %d times (receiver/argument ok: %v); it must be exactly once, to the request found under the frame's stream id", delivers, recvOK)
		case !found && (delivers > 0 || mutates):
			r.Fail("deliver-once", key, token.NoPos, "a response for an unknown stream id is not dropped cleanly (delivered %d times, mutates state: %v)", delivers, mutates)
		case !found && o.IsErr != 1:
			r.Fail("deliver-once", key, token.NoPos, "a response for an unknown stream id is not reported")
		default:
			r.OKf("deliver-once", key, token.NoPos, "ok")
		}
	}
	c10LockPairing(p, r)
	c10RequestDelivery(p, r)
	c09LastFrame(p, r)
	c10PendingCapacity(p, r)
	c09IncomingRelease(p, r)
	c10ReaderNeverBlocks(p, r)
	c10DuplicateRefused(p, r)
	// under v5 several responses can share one self-contained segment: each must be delivered
	segmentDrainFor(p, r, "segment-drain", "CqlClientConnection")
}

// c10LockPairing: on every path of every function of package client, each mutex acquired is
// released before the function returns (explicitly or by a deferred unlock).
func c10LockPairing(p *Program, r *Report) {
	r.Floor("lock-pairing", 10)
	pk := p.Pkg("client")
	var fns []*types.Func
	for f, d := range p.funcDecls {
		if p.declPkg[f] == pk && d.Body != nil {
			fns = append(fns, f)
		}
	}
	sort.Slice(fns, func(i, j int) bool { return fns[i].FullName() < fns[j].FullName() })
	for _, f := range fns {
		decl, _ := p.Decl(f)
		// only functions that touch a mutex
		src := false
		for _, fn := range clientFuncs(p) {
			if fn.Object() == f {
				for _, b := range fn.Blocks {
					for _, ins := range b.Instrs {
						if c, ok := ins.(ssa.CallInstruction); ok {
							if cf := c.Common().StaticCallee(); cf != nil && strings.HasPrefix(cf.String(), "(*sync.RWMutex).") || cf != nil && strings.HasPrefix(cf.String(), "(*sync.Mutex).") {
								src = true
							}
						}
					}
				}
			}
		}
		_ = decl
		if !src {
			continue
		}
		in := newInterp(p, &effHooks{})
		in.NoInline = func(g *types.Func) bool { return isModulePkg(g.Pkg()) && g != f } // callees summarised
		recv, args := paramVals(f)
		outs := in.RunFunc(f, recv, args, nil)
		key := shortFuncName(f)
		bad := ""
		for _, o := range outs {
			held := map[string]int{}
			deferred := map[string]int{}
			for _, s := range o.St.trace {
				switch s.Kind {
				case "ext":
					obj := nameOf(s.Arg)
					switch {
					case strings.HasSuffix(s.Name, ").Lock"):
						held["w:"+obj]++
					case strings.HasSuffix(s.Name, ").Unlock"):
						held["w:"+obj]--
					case strings.HasSuffix(s.Name, ").RLock"):
						held["r:"+obj]++
					case strings.HasSuffix(s.Name, ").RUnlock"):
						held["r:"+obj]--
					}
				case "defer":
					switch {
					case strings.HasSuffix(s.Extra, ".RUnlock()"):
						deferred["r:"+strings.TrimSuffix(s.Extra, ".RUnlock()")]++
					case strings.HasSuffix(s.Extra, ".Unlock()"):
						deferred["w:"+strings.TrimSuffix(s.Extra, ".Unlock()")]++
					}
				}
			}
			for k, n := range held {
				// deferred unlocks are keyed by source text (h.lock), held by value name (recv.lock)
				d := 0
				for dk, dn := range deferred {
					if dk[:2] == k[:2] && strings.HasSuffix(k, dk[strings.LastIndex(dk, ".")+1:]) {
						d += dn
					}
				}
				if n-d > 0 {
					bad = fmt.Sprintf("a path returns with %s still held (conditions {%s}): every later writer or reader of that lock blocks forever", k, strings.Join(o.St.atomLog, " "))
				} else if n-d < 0 {
					bad = fmt.Sprintf("a path unlocks %s more often than it locked it", k)
				}
			}
		}
		if bad != "" {
			r.Fail("lock-pairing", key, f.Pos(), "%s", bad)
		} else {
			r.OKf("lock-pairing", key, f.Pos(), "%d paths balanced", len(outs))
		}
	}
}

// c10RequestDelivery: inFlightRequest.onFrameReceived sends the frame it was given on the
// request's own channel, once, and completes the request only after sending its last frame.
func c10RequestDelivery(p *Program, r *Report) {
	_, outs := clientRun(p, "inFlightRequest", "onFrameReceived", "isLastFrame", "inFlightRequest.stopTimeout", "inFlightRequest.resetTimeout", "inFlightRequest.close")
	r.Floor("request-delivery", 2)
	for _, o := range outs {
		ev := pathEvents(o)
		sent := false
		for _, s := range o.St.trace {
			if s.Kind == "select" && s.Name == "send" && strings.Contains(s.Key, "_incoming") {
				sent = true
			}
		}
		last, lastKnown := o.St.atoms["isLastFrame(p0)"]
		closes := hasEvent(ev, "call inFlightRequest.close")
		resets := hasEvent(ev, "call inFlightRequest.resetTimeout")
		key := fmt.Sprintf("onFrameReceived sent=%v last=%v/%v {%s}", sent, last, lastKnown, strings.Join(ev, ","))
		switch {
		case sent && !lastKnown:
			r.Fail("request-delivery", key, token.NoPos, "after delivering a frame the request does not decide whether it was the last one")
		case sent && last && !closes:
			r.Fail("request-delivery", key, token.NoPos, "the last frame is delivered but the request is not completed")
		case sent && !last && closes && o.IsErr != 1:
			r.Fail("request-delivery", key, token.NoPos, "a non-final page completes the request: later pages are lost")
		case sent && !last && !resets:
			r.Fail("request-delivery", key, token.NoPos, "a non-final page does not restart the read timeout")
		case !sent && o.IsErr == 0:
			r.Fail("request-delivery", key, token.NoPos, "success is reported although the frame was not delivered")
		default:
			r.OKf("request-delivery", key, token.NoPos, "ok")
		}
	}
	// the channel and value of the send (SSA)
	fn := ssaMethod(p, "client", "inFlightRequest", "onFrameReceived")
	okSend := false
	for _, b := range fn.Blocks {
		for _, ins := range b.Instrs {
			if sel, ok := ins.(*ssa.Select); ok {
				for _, st := range sel.States {
					if st.Dir == types.SendOnly {
						f, base := fieldOfLoad(st.Chan)
						if f != nil && f.Name() == "_incoming" && base == ssa.Value(fn.Params[0]) && st.Send == ssa.Value(fn.Params[1]) {
							okSend = true
						}
					}
				}
			}
		}
	}
	if okSend {
		r.OKf("request-delivery", "send operands", fn.Pos(), "the frame received is sent on the request's own channel")
	} else {
		r.Fail("request-delivery", "send operands", fn.Pos(), "onFrameReceived does not send its frame argument on the request's own _incoming channel")
	}
}

// c09EnqueueCapacity: Send registers a request and then enqueues its frame without blocking; the
// failure branch of that enqueue does not roll the registration back, which is sound only while it
// is unreachable: every queued frame belongs to a registered request, so the queue must hold as
// many frames as requests can be registered. Decided structurally: the capacity of the outgoing
// queue is the very value handed to the in-flight handler as its maximum, or the failure branch
// removes the registration.
func c09EnqueueCapacity(p *Program, r *Report) {
	ctor := p.SSA().FuncValue(p.LookupFunc("client", "newCqlClientConnection"))
	var capVal, maxVal ssa.Value
	for _, b := range ctor.Blocks {
		for _, ins := range b.Instrs {
			switch x := ins.(type) {
			case *ssa.Store:
				if fa, ok := x.Addr.(*ssa.FieldAddr); ok && fieldName(fa.X.Type(), fa.Field) == "outgoing" {
					if mc, ok := x.Val.(*ssa.MakeChan); ok {
						capVal = mc.Size
					}
				}
			case *ssa.Call:
				if f := x.Call.StaticCallee(); f != nil && f.Name() == "newInFlightRequestsHandler" {
					for i := 0; i < f.Signature.Params().Len(); i++ {
						if f.Signature.Params().At(i).Name() == "maxInFlight" && i < len(x.Call.Args) {
							maxVal = x.Call.Args[i]
						}
					}
				}
			}
		}
	}
	if capVal == nil || maxVal == nil {
		fatalf("anchor: outgoing queue or in-flight handler construction not found in newCqlClientConnection")
	}
	// does the failure branch of Send's enqueue roll back?
	send := p.SSA().FuncValue(p.LookupMethod("client", "CqlClientConnection", "Send"))
	rollback := false
	for _, b := range send.Blocks {
		for _, ins := range b.Instrs {
			if c, ok := ins.(*ssa.Call); ok {
				if f := c.Call.StaticCallee(); f != nil && (strings.Contains(f.Name(), "removeInFlight") || strings.Contains(f.Name(), "rollback") || strings.Contains(f.Name(), "Cancel")) {
					rollback = true
				}
			}
		}
	}
	strip := func(v ssa.Value) ssa.Value {
		for {
			switch x := v.(type) {
			case *ssa.Convert:
				v = x.X
				continue
			case *ssa.ChangeType:
				v = x.X
				continue
			}
			return v
		}
	}
	switch {
	case strip(capVal) == strip(maxVal):
		r.OKf("enqueue-capacity", "CqlClientConnection.outgoing", ctor.Pos(), "the outgoing queue holds as many frames as requests can be registered (%s)", describeVal(capVal))
	case rollback:
		r.OKf("enqueue-capacity", "CqlClientConnection.outgoing", ctor.Pos(), "the enqueue failure branch rolls the registration back")
	default:
		r.Fail("enqueue-capacity", "CqlClientConnection.outgoing", ctor.Pos(), "the outgoing queue has capacity %s while up to %s requests can be registered, and Send's enqueue-failure branch does not remove the registration: a burst of sends against a slow writer is refused with fewer than N requests unanswered, and every refused send leaks its stream id and map entry", describeVal(capVal), describeVal(maxVal))
	}
}

// c10PendingCapacity: every request buffers as many response frames as the connection was
// configured for: the capacity of a request's incoming channel is the handler's configured
// maxPending for every request, whatever its message type. (A capacity chosen per request kind
// that forgets one kind makes the second page of a multi-page response overflow the buffer.)
func c10PendingCapacity(p *Program, r *Report) {
	ctor := p.SSA().FuncValue(p.LookupFunc("client", "newInFlightRequest"))
	// the channel capacity is the constructor's parameter
	var capParam *ssa.Parameter
	for _, b := range ctor.Blocks {
		for _, ins := range b.Instrs {
			if mc, ok := ins.(*ssa.MakeChan); ok {
				v := mc.Size
				for {
					if cv, ok := v.(*ssa.Convert); ok {
						v = cv.X
						continue
					}
					break
				}
				if pp, ok := v.(*ssa.Parameter); ok {
					capParam = pp
				} else {
					r.Fail("pending-capacity", "newInFlightRequest", mc.Pos(), "the incoming channel's capacity is %s, not the configured maximum of pending frames", describeVal(mc.Size))
					return
				}
			}
		}
	}
	if capParam == nil {
		fatalf("anchor: newInFlightRequest creates no channel")
	}
	// origins of the parameter over all static callers, transitively
	cg := p.CallGraphVTA()
	bad := ""
	seen := map[ssa.Value]bool{}
	var origin func(v ssa.Value, depth int)
	origin = func(v ssa.Value, depth int) {
		if seen[v] || bad != "" || depth > 6 {
			return
		}
		seen[v] = true
		switch x := v.(type) {
		case *ssa.Convert:
			origin(x.X, depth)
		case *ssa.UnOp:
			if fa, ok := x.X.(*ssa.FieldAddr); ok && fieldName(fa.X.Type(), fa.Field) == "maxPending" {
				return // the handler's configured value
			}
			bad = fmt.Sprintf("the capacity comes from %s", describeVal(x.X))
		case *ssa.Parameter:
			fn := x.Parent()
			idx := -1
			for i, pp := range fn.Params {
				if pp == x {
					idx = i
				}
			}
			node := cg.Nodes[fn]
			if node == nil || len(node.In) == 0 {
				if fn.Object() != nil && fn.Object().Exported() {
					return // an exported constructor's argument: the configuration itself
				}
				bad = fmt.Sprintf("parameter %s of %s has no caller", x.Name(), fn.Name())
				return
			}
			for _, e := range node.In {
				args := e.Site.Common().Args
				if idx < len(args) {
					origin(args[idx], depth+1)
				}
			}
		case *ssa.Const:
			bad = fmt.Sprintf("some requests get the constant capacity %s instead of the configured maximum", x.Value)
		case *ssa.Phi:
			for _, e := range x.Edges {
				origin(e, depth)
			}
		case *ssa.Call:
			if f := x.Call.StaticCallee(); f != nil && f.Blocks != nil {
				for _, b := range f.Blocks {
					if ret, ok := b.Instrs[len(b.Instrs)-1].(*ssa.Return); ok && len(ret.Results) > 0 {
						origin(ret.Results[0], depth+1)
					}
				}
				return
			}
			bad = "the capacity is the result of a dynamic call"
		default:
			bad = fmt.Sprintf("the capacity comes from %s", describeVal(v))
		}
	}
	node := cg.Nodes[ctor]
	n := 0
	if node != nil {
		for _, e := range node.In {
			args := e.Site.Common().Args
			for i, pp := range ctor.Params {
				if pp == capParam && i < len(args) {
					n++
					origin(args[i], 0)
				}
			}
		}
	}
	if n == 0 {
		bad = "newInFlightRequest has no caller"
	}
	if bad != "" {
		r.Fail("pending-capacity", "inFlightRequest.incoming", ctor.Pos(), "%s: the frames of a multi-page response that arrive before the previous page is read overflow the buffer and the request fails", bad)
	} else {
		r.OKf("pending-capacity", "inFlightRequest.incoming", ctor.Pos(), "every request's buffer has the configured capacity (%d construction sites)", n)
	}
}

// c10ReaderNeverBlocks: the connection's reader goroutine delivers every frame; an operation on it
// that can block indefinitely stalls all later responses. Events are *offered* to the event
// channel: the select that sends on `events` must have a default (a full channel drops the event).
func c10ReaderNeverBlocks(p *Program, r *Report) {
	n := 0
	for _, fn := range clientFuncs(p) {
		for _, b := range fn.Blocks {
			for _, ins := range b.Instrs {
				switch x := ins.(type) {
				case *ssa.Select:
					for _, st := range x.States {
						if f, _ := fieldOfLoad(st.Chan); f != nil && f.Name() == "events" && st.Dir == types.SendOnly {
							n++
							key := fmt.Sprintf("%s events select#%d", fnKey(fn), n)
							if x.Blocking {
								r.Fail("reader-never-blocks", key, x.Pos(), "the send on the event channel is in a select without default: once the channel is full (nobody drains EventChannel()) the reader goroutine blocks and no later response is delivered to its request")
							} else {
								r.OKf("reader-never-blocks", key, x.Pos(), "events are offered without blocking")
							}
						}
					}
				case *ssa.Send:
					if f, _ := fieldOfLoad(x.Chan); f != nil && f.Name() == "events" {
						n++
						r.Fail("reader-never-blocks", fmt.Sprintf("%s events send#%d", fnKey(fn), n), x.Pos(), "plain send on the event channel blocks the reader goroutine when the channel is full")
					}
				}
			}
		}
	}
	if n == 0 {
		r.Fail("reader-never-blocks", "events", token.NoPos, "no send on the event channel found in package client")
	}
}

// c10DuplicateRefused: registering a request under a stream id that is present in the in-flight
// map is refused whatever the state of the request registered there: on every path of addInFlight
// on which the lookup found an entry the function returns an error. (An entry whose request has
// failed still waits for the server's response; replacing it hands that late response to the new
// request.)
func c10DuplicateRefused(p *Program, r *Report) {
	_, outs := clientRun(p, "inFlightRequestsHandler", "addInFlight", "inFlightRequestsHandler.isClosed", "newInFlightRequest", "inFlightRequest.IsDone")
	n := 0
	for _, o := range outs {
		found := false
		for a, pol := range o.St.atoms {
			if strings.HasPrefix(a, "has(recv.inFlight[") && pol {
				found = true
			}
		}
		if !found {
			continue
		}
		n++
		key := fmt.Sprintf("addInFlight {%s}", strings.Join(o.St.atomLog, " "))
		if o.IsErr == 1 {
			r.OKf("duplicate-refused", key, token.NoPos, "an id that is still registered is refused")
		} else {
			r.Fail("duplicate-refused", key, token.NoPos, "addInFlight accepts a request although its stream id is still registered (conditions {%s}): the entry of a request whose response is still owed is replaced, and that late response is delivered to the new request", describeAtoms(o.St))
		}
	}
	if n == 0 {
		r.Fail("duplicate-refused", "addInFlight", token.NoPos, "no path of addInFlight looks the stream id up in the in-flight map")
	}
}
