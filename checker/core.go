package main

// Program loading, obligations, evidence and known findings shared by every check.

import (
	"encoding/json"
	"fmt"
	"go/ast"
	"go/token"
	"go/types"
	"os"
	"path/filepath"
	"sort"
	"strings"
	"time"

	"golang.org/x/tools/go/callgraph"
	"golang.org/x/tools/go/callgraph/cha"
	"golang.org/x/tools/go/callgraph/vta"
	"golang.org/x/tools/go/packages"
	"golang.org/x/tools/go/ssa"
	"golang.org/x/tools/go/ssa/ssautil"
)

const modPath = "github.com/datastax/go-cassandra-native-protocol"

var expectedPkgs = []string{
	"client", "compression/lz4", "compression/snappy", "crc", "datacodec", "datatype",
	"frame", "message", "primitive", "segment",
}

// Program is the type-checked program of the repository under analysis.
type Program struct {
	Dir       string
	Arch      string
	Fset      *token.FileSet
	All       []*packages.Package          // every package incl. dependencies
	Pkgs      map[string]*packages.Package // module packages by short name ("message")
	ssa       *ssa.Program
	sentinels map[*types.Var]bool
	ssaPk     map[string]*ssa.Package
	cgVTA     *callgraph.Graph
	cgCHA     *callgraph.Graph

	funcDecls map[*types.Func]*ast.FuncDecl
	declPkg   map[*types.Func]*packages.Package
}

var procStart = time.Now()

// fatal reports a broken check (exit 2): never a violation.
type fatalErr struct{ msg string }

func fatalf(format string, a ...interface{}) {
	panic(fatalErr{fmt.Sprintf(format, a...)})
}

func loadProgram(dir, arch string) *Program {
	env := append(os.Environ(),
		"GOFLAGS=-mod=mod", "GOPROXY=off", "GOSUMDB=off", "GOTOOLCHAIN=local", "GOWORK=off",
		"GOOS=linux", "GOARCH="+arch, "CGO_ENABLED=0")
	cfg := &packages.Config{
		Mode:  packages.LoadAllSyntax,
		Dir:   dir,
		Env:   env,
		Tests: false,
	}
	pkgs, err := packages.Load(cfg, "./...")
	if err != nil {
		fatalf("cannot load %s: %v", dir, err)
	}
	p := &Program{Dir: dir, Arch: arch, Pkgs: map[string]*packages.Package{},
		funcDecls: map[*types.Func]*ast.FuncDecl{}, declPkg: map[*types.Func]*packages.Package{}}
	nerr := 0
	packages.Visit(pkgs, nil, func(pk *packages.Package) {
		p.All = append(p.All, pk)
		for _, e := range pk.Errors {
			nerr++
			fmt.Fprintf(os.Stderr, "ERROR load: %v\n", e)
		}
	})
	if nerr > 0 {
		fatalf("%d load/type errors in %s", nerr, dir)
	}
	for _, pk := range pkgs {
		if pk.PkgPath == modPath {
			continue
		}
		if !strings.HasPrefix(pk.PkgPath, modPath+"/") {
			fatalf("unexpected package %s", pk.PkgPath)
		}
		short := strings.TrimPrefix(pk.PkgPath, modPath+"/")
		p.Pkgs[short] = pk
		p.Fset = pk.Fset
	}
	if len(p.Pkgs) < len(expectedPkgs) {
		fatalf("expected >= %d packages, loaded %d", len(expectedPkgs), len(p.Pkgs))
	}
	for _, e := range expectedPkgs {
		if p.Pkgs[e] == nil {
			fatalf("expected package %s not loaded", e)
		}
	}
	for _, pk := range p.Pkgs {
		for _, f := range pk.Syntax {
			for _, d := range f.Decls {
				if fd, ok := d.(*ast.FuncDecl); ok {
					if obj, ok := pk.TypesInfo.Defs[fd.Name].(*types.Func); ok {
						p.funcDecls[obj] = fd
						p.declPkg[obj] = pk
					}
				}
			}
		}
	}
	return p
}

// Pkg returns a module package by short name or fails the check (missing anchor).
func (p *Program) Pkg(short string) *packages.Package {
	pk := p.Pkgs[short]
	if pk == nil {
		fatalf("anchor: package %s not found", short)
	}
	return pk
}

// IsModulePkg reports whether a types.Package belongs to the repository.
func isModulePkg(pk *types.Package) bool {
	return pk != nil && (pk.Path() == modPath || strings.HasPrefix(pk.Path(), modPath+"/"))
}

func shortPkg(pk *types.Package) string {
	if pk == nil {
		return ""
	}
	return strings.TrimPrefix(pk.Path(), modPath+"/")
}

// Decl returns the declaration of a module function (nil when it has no body here).
func (p *Program) Decl(f *types.Func) (*ast.FuncDecl, *packages.Package) {
	f = f.Origin()
	return p.funcDecls[f], p.declPkg[f]
}

// LookupFunc finds a package-level function; missing anchor => exit 2.
func (p *Program) LookupFunc(pkg, name string) *types.Func {
	obj := p.Pkg(pkg).Types.Scope().Lookup(name)
	f, ok := obj.(*types.Func)
	if !ok {
		fatalf("anchor: function %s.%s not found", pkg, name)
	}
	return f
}

func (p *Program) LookupType(pkg, name string) *types.TypeName {
	obj := p.Pkg(pkg).Types.Scope().Lookup(name)
	t, ok := obj.(*types.TypeName)
	if !ok {
		fatalf("anchor: type %s.%s not found", pkg, name)
	}
	return t
}

// LookupMethod finds a method (pointer or value receiver) of a named type.
func (p *Program) LookupMethod(pkg, typ, name string) *types.Func {
	m := p.TryMethod(pkg, typ, name)
	if m == nil {
		fatalf("anchor: method %s.%s.%s not found", pkg, typ, name)
	}
	return m
}

func (p *Program) TryMethod(pkg, typ, name string) *types.Func {
	tn := p.LookupType(pkg, typ)
	obj, _, _ := types.LookupFieldOrMethod(types.NewPointer(tn.Type()), true, tn.Pkg(), name)
	f, _ := obj.(*types.Func)
	return f
}

func (p *Program) pos(pos token.Pos) string {
	if !pos.IsValid() {
		return "?"
	}
	ps := p.Fset.Position(pos)
	rel, err := filepath.Rel(p.Dir, ps.Filename)
	if err != nil {
		rel = ps.Filename
	}
	return fmt.Sprintf("%s:%d", rel, ps.Line)
}

// SSA builds (once) the SSA form of the whole program.
func (p *Program) SSA() *ssa.Program {
	if p.ssa == nil {
		var roots []*packages.Package
		for _, pk := range p.Pkgs {
			roots = append(roots, pk)
		}
		sort.Slice(roots, func(i, j int) bool { return roots[i].PkgPath < roots[j].PkgPath })
		prog, spkgs := ssautil.AllPackages(roots, ssa.InstantiateGenerics)
		prog.Build()
		p.ssa = prog
		p.ssaPk = map[string]*ssa.Package{}
		for i, r := range roots {
			if spkgs[i] == nil {
				fatalf("no SSA for %s", r.PkgPath)
			}
			p.ssaPk[strings.TrimPrefix(r.PkgPath, modPath+"/")] = spkgs[i]
		}
	}
	return p.ssa
}

func (p *Program) SSAPkg(short string) *ssa.Package {
	p.SSA()
	sp := p.ssaPk[short]
	if sp == nil {
		fatalf("anchor: ssa package %s", short)
	}
	return sp
}

// ModuleFuncs returns every SSA function (incl. anonymous ones) declared in module packages.
func (p *Program) ModuleFuncs() []*ssa.Function {
	prog := p.SSA()
	var out []*ssa.Function
	for fn := range ssautil.AllFunctions(prog) {
		if fn.Pkg == nil && fn.Parent() == nil {
			// wrappers/bound methods: attribute by object
			if fn.Object() == nil || !isModulePkg(fn.Object().Pkg()) {
				continue
			}
		}
		pk := fn.Package()
		if pk == nil {
			if fn.Object() != nil && isModulePkg(fn.Object().Pkg()) && fn.Blocks != nil {
				out = append(out, fn)
			}
			continue
		}
		if isModulePkg(pk.Pkg) && fn.Blocks != nil {
			out = append(out, fn)
		}
	}
	sort.Slice(out, func(i, j int) bool {
		if out[i].String() != out[j].String() {
			return out[i].String() < out[j].String()
		}
		return out[i].Pos() < out[j].Pos()
	})
	return out
}

func (p *Program) CallGraphVTA() *callgraph.Graph {
	if p.cgVTA == nil {
		prog := p.SSA()
		p.cgVTA = vta.CallGraph(ssautil.AllFunctions(prog), p.CallGraphCHA())
	}
	return p.cgVTA
}

func (p *Program) CallGraphCHA() *callgraph.Graph {
	if p.cgCHA == nil {
		p.cgCHA = cha.CallGraph(p.SSA())
	}
	return p.cgCHA
}

// ---------------------------------------------------------------------------------------
// Obligations and reports

type Obligation struct {
	Rule   string `json:"rule"`
	Key    string `json:"key"` // rule + construct; never a line number
	Pos    string `json:"pos,omitempty"`
	OK     bool   `json:"ok"`
	Detail string `json:"detail,omitempty"`
	Known  bool   `json:"known_finding,omitempty"`
}

type RuleStat struct {
	Rule      string `json:"rule"`
	Instances int    `json:"instances"`
	Floor     int    `json:"floor"`
	Failed    int    `json:"failed"`
}

type Report struct {
	Prop        string
	Level       string
	Tier        string
	Explanation string
	Trusted     []string
	Assumptions []string
	Exhaustive  bool
	Obls        []*Obligation
	floors      map[string]int
	Extra       map[string]interface{}
	start       time.Time
	prog        *Program
	NoWrite     bool
	Broken      []string
	KeyPrefix   string
}

func newReport(prop, level, tier string, prog *Program) *Report {
	return &Report{Prop: prop, Level: level, Tier: tier, floors: map[string]int{}, Extra: map[string]interface{}{}, start: procStart, prog: prog}
}

// Floor records the minimum number of instances a rule must see (confirmed by hand on the tree
// the checker was written against); fewer instances is a broken check, not a pass.
func (r *Report) Floor(rule string, n int) { r.floors[rule] = n }

func (r *Report) Add(rule, key string, pos token.Pos, ok bool, detail string) *Obligation {
	o := &Obligation{Rule: rule, Key: rule + ":" + r.KeyPrefix + key, OK: ok, Detail: detail}
	if r.prog != nil && pos.IsValid() {
		o.Pos = r.prog.pos(pos)
	}
	r.Obls = append(r.Obls, o)
	return o
}

func (r *Report) OKf(rule, key string, pos token.Pos, format string, a ...interface{}) {
	r.Add(rule, key, pos, true, fmt.Sprintf(format, a...))
}

func (r *Report) Fail(rule, key string, pos token.Pos, format string, a ...interface{}) {
	r.Add(rule, key, pos, false, fmt.Sprintf(format, a...))
}

type knownFinding struct {
	Property string `json:"property"`
	Key      string `json:"key"`
	What     string `json:"what"`
	Status   string `json:"status"` // open | fixed
	Commit   string `json:"commit,omitempty"`
}

func loadKnownFindings(path string) []knownFinding {
	b, err := os.ReadFile(path)
	if err != nil {
		if os.IsNotExist(err) {
			return nil
		}
		fatalf("known findings: %v", err)
	}
	var doc struct {
		Findings []knownFinding `json:"findings"`
	}
	if err := json.Unmarshal(b, &doc); err != nil {
		fatalf("known findings: %v", err)
	}
	return doc.Findings
}

// Finish writes evidence, prints KNOWN-FINDING / VIOLATION lines and returns the exit code.
func (r *Report) Finish(verifDir string, seed int64) int {
	known := map[string]knownFinding{}
	for _, k := range loadKnownFindings(filepath.Join(verifDir, "known_findings.json")) {
		if k.Property == r.Prop && k.Status == "open" {
			known[k.Key] = k
		}
	}
	// de-duplicate obligations by key (a failing instance wins)
	byKey := map[string]*Obligation{}
	var keys []string
	for _, o := range r.Obls {
		if prev, ok := byKey[o.Key]; ok {
			if prev.OK && !o.OK {
				byKey[o.Key] = o
			}
			continue
		}
		byKey[o.Key] = o
		keys = append(keys, o.Key)
	}
	sort.Strings(keys)
	stats := map[string]*RuleStat{}
	var failing, knownHit []*Obligation
	discharged := 0
	for _, k := range keys {
		o := byKey[k]
		st := stats[o.Rule]
		if st == nil {
			st = &RuleStat{Rule: o.Rule, Floor: r.floors[o.Rule]}
			stats[o.Rule] = st
		}
		st.Instances++
		if o.OK {
			discharged++
			continue
		}
		st.Failed++
		if _, ok := known[o.Key]; ok {
			o.Known = true
			knownHit = append(knownHit, o)
		} else {
			failing = append(failing, o)
		}
	}
	var broken []string
	for rule, floor := range r.floors {
		st := stats[rule]
		n := 0
		if st != nil {
			n = st.Instances
		} else {
			stats[rule] = &RuleStat{Rule: rule, Floor: floor}
		}
		if n < floor {
			broken = append(broken, fmt.Sprintf("rule %s matched %d instances, floor is %d", rule, n, floor))
		}
	}
	broken = append(broken, r.Broken...)
	sort.Strings(broken)

	evDir := filepath.Join(verifDir, "evidence")
	vioDir := filepath.Join(evDir, "violations")
	if !r.NoWrite {
		_ = os.MkdirAll(vioDir, 0o755)
	}
	// remove stale replay files of this property
	if old, _ := filepath.Glob(filepath.Join(vioDir, r.Prop+"-*.json")); old != nil && !r.NoWrite {
		for _, f := range old {
			_ = os.Remove(f)
		}
	}

	var ruleStats []*RuleStat
	for _, st := range stats {
		ruleStats = append(ruleStats, st)
	}
	sort.Slice(ruleStats, func(i, j int) bool { return ruleStats[i].Rule < ruleStats[j].Rule })

	// samples: a few obligations per rule, failing ones first
	var samples []interface{}
	perRule := map[string]int{}
	for _, o := range failing {
		samples = append(samples, o)
	}
	for _, o := range knownHit {
		samples = append(samples, o)
	}
	for _, k := range keys {
		o := byKey[k]
		if o.OK && perRule[o.Rule] < 3 {
			perRule[o.Rule]++
			samples = append(samples, o)
		}
	}

	cov := map[string]interface{}{
		"obligations":               len(keys),
		"discharged":                discharged,
		"explanation":               r.Explanation,
		"checker_cmd":               fmt.Sprintf("./check %s --tier %s", r.Prop, r.Tier),
		"trusted_base":              r.Trusted,
		"samples":                   samples,
		"rules":                     ruleStats,
		"exhaustive":                r.Exhaustive,
		"known_findings_reproduced": len(knownHit),
		"analysed_repo":             r.prog.Dir,
		"goarch":                    r.prog.Arch,
		"packages":                  len(r.prog.Pkgs),
	}
	for k, v := range r.Extra {
		cov[k] = v
	}
	if r.Trusted == nil {
		cov["trusted_base"] = []string{}
	}
	ev := map[string]interface{}{
		"property_id": r.Prop,
		"tier":        r.Tier,
		"seed":        seed,
		"level":       r.Level,
		"coverage":    cov,
		"assumptions": r.Assumptions,
		"wall_s":      time.Since(r.start).Seconds(),
		"violations":  len(failing),
	}
	if r.Assumptions == nil {
		ev["assumptions"] = []string{}
	}
	b, _ := json.MarshalIndent(ev, "", " ")
	if !r.NoWrite {
		if err := os.WriteFile(filepath.Join(evDir, r.Prop+".json"), b, 0o644); err != nil {
			fmt.Printf("ERROR cannot write evidence: %v\n", err)
			return 2
		}
	}

	fmt.Printf("%s tier=%s repo=%s arch=%s: %d obligations, %d discharged, %d known findings, %d violations (%.1fs)\n",
		r.Prop, r.Tier, r.prog.Dir, r.prog.Arch, len(keys), discharged, len(knownHit), len(failing), time.Since(r.start).Seconds())
	for _, st := range ruleStats {
		fmt.Printf("  rule %-28s instances=%-5d floor=%-5d failed=%d\n", st.Rule, st.Instances, st.Floor, st.Failed)
	}
	for _, o := range knownHit {
		fmt.Printf("KNOWN-FINDING: property=%s %s [%s] %s\n", r.Prop, known[o.Key].What, o.Key, o.Pos)
	}
	if len(broken) > 0 {
		for _, o := range failing {
			fmt.Printf("  FAIL %s at %s: %s\n", o.Key, o.Pos, o.Detail)
		}
		for _, b := range broken {
			fmt.Printf("ERROR %s: %s\n", r.Prop, b)
		}
		return 2
	}
	for i, o := range failing {
		path := filepath.Join(vioDir, fmt.Sprintf("%s-%d.json", r.Prop, i+1))
		doc := map[string]interface{}{
			"property": r.Prop, "rule": o.Rule, "key": o.Key, "pos": o.Pos, "detail": o.Detail,
			"redecide": fmt.Sprintf("./check %s --tier %s   # re-decides every obligation of the property; look for key %q", r.Prop, r.Tier, o.Key),
		}
		jb, _ := json.MarshalIndent(doc, "", " ")
		if !r.NoWrite {
			_ = os.WriteFile(path, jb, 0o644)
		}
		fmt.Printf("  FAIL %s at %s: %s\n", o.Key, o.Pos, o.Detail)
		fmt.Printf("VIOLATION property=%s replay=%s\n", r.Prop, path)
	}
	if len(failing) > 0 {
		return 1
	}
	return 0
}
