package main

// C06: segment round trip and v5 framing layout;  C07: corrupted segments are rejected.
//
// Both are decided on the same two abstract runs (bit-provenance domain): EncodeSegment with the
// header fields as named bit vectors, and DecodeSegment with every byte read from the source as a
// fresh named input byte.
//
//  C06 refusal        every path that writes is preceded by len(payload) <= 131071 (2^17-1)
//      writer-layout  emitted header bytes, as a bit vector, are exactly the v5 layout of the fields
//      reader-layout  decoded fields are exactly the v5 bit ranges of the input bytes
//      trace          sizes/order/byte order of header, CRC-24, payload run, CRC-32 on both sides
//      fallback       writer's "not compressed" signalling and reader's test use the same field
//  C07 crc24-input    ChecksumKoopman is computed over all received header bits, unmasked
//      crc24-compare  compared with the 24 received CRC bits, unmasked, before any field is stored
//      crc32-input    ChecksumIEEE over the payload bytes as received; compared in full before the
//                     payload is decompressed or returned
//      crc-params     CRC-24 init/polynomial, CRC-32 seed bytes equal the reference values

import (
	"fmt"
	"go/constant"
	"go/token"
	"go/types"
	"sort"
	"strings"

	"golang.org/x/tools/go/ssa"
)

func init() {
	register("C06", "other", checkC06)
	register("C07", "other", checkC07)
}

const segMaxPayload = 131071 // v5§2.1: 17-bit length fields

type segRun struct {
	outs []*PathOut
	in   *Interp
}

func runSegment(p *Program, method string, args []Val) *segRun {
	fn := p.LookupMethod("segment", "codec", method)
	h := newWireHooks(p, true)
	in := newInterp(p, h)
	in.BitMode = true
	recv := Val{K: KExpr, Key: "recv"}
	outs := in.RunFunc(fn, &recv, args, nil)
	if len(in.Undecided) > 0 {
		fatalf("segment analysis undecided: %s", strings.Join(in.Undecided, "; "))
	}
	return &segRun{outs: outs, in: in}
}

// globalBits maps a vector over "inK:b" tags to global input bit indexes (8K+b); -1 for constants.
func globalIndex(tag string) int {
	name, bit := splitTag(tag)
	var k int
	if n, _ := fmt.Sscanf(name, "in%d", &k); n == 1 {
		return 8*k + bit
	}
	return -1
}

type segPathInfo struct {
	compressed bool // codec has a compressor
	known      bool
}

func compressorAtom(st *State) (hasCompressor bool, known bool) {
	if v, ok := st.atoms["nil(recv.compressor)"]; ok {
		return !v, true
	}
	return false, false
}

func valBits(in *Interp, v Val, st *State) (*Bits, bool) {
	v = in.resolve(v, st)
	if v.K == KLin && v.Lin.B != nil {
		return v.Lin.B, true
	}
	return in.toBits(v, st)
}

// ---- writer ---------------------------------------------------------------------------------------

type segWritten struct {
	st        *State
	hasComp   bool
	headerLen int
	H         *Bits  // header bytes as one vector (global bit g = byte g/8, bit g%8)
	crcArg    string // argument of ChecksumKoopman
	crcBytes  *Bits
	rawArg    string // what is written as payload
	tailOrder string
	tailArg   string
	sizes     []string
}

func analyseSegmentWriter(p *Program) ([]*segWritten, *segRun) {
	run := runSegment(p, "EncodeSegment", []Val{{K: KExpr, Key: "p0"}, {K: KExpr, Key: "stream"}})
	var out []*segWritten
	for _, o := range run.outs {
		if o.IsErr == 1 {
			continue
		}
		w := &segWritten{st: o.St}
		w.hasComp, _ = compressorAtom(o.St)
		var ops []*Sym
		for _, s := range o.St.trace {
			if s.Kind == "op" && strings.HasPrefix(s.Extra, "w") {
				ops = append(ops, s)
			}
			if s.Kind == "crc" && s.Name == "ChecksumKoopman" && len(s.Args) > 0 {
				if b, ok := valBits(run.in, s.Args[0], o.St); ok {
					w.crcArg = b.String()
				}
			}
		}
		w.headerLen = 3
		if w.hasComp {
			w.headerLen = 5
		}
		w.H = constBits(0)
		w.crcBytes = constBits(0)
		for i, s := range ops {
			w.sizes = append(w.sizes, s.Name+strings.TrimPrefix(s.Extra, "w"))
			if s.Name == "fixed1" {
				b, ok := valBits(run.in, s.Arg, o.St)
				if !ok {
					b = &Bits{}
					for k := range b.B {
						b.B[k] = "?"
					}
				}
				for k := 0; k < 8; k++ {
					if i < w.headerLen {
						w.H.B[8*i+k] = b.B[k]
					} else if i < w.headerLen+3 {
						w.crcBytes.B[8*(i-w.headerLen)+k] = b.B[k]
					}
				}
			}
			if s.Name == "raw" {
				w.rawArg = nameOf(run.in.resolve(s.Arg, o.St))
			}
			if s.Name == "fixed4" {
				w.tailOrder = strings.TrimPrefix(s.Extra, "w:")
				w.tailArg = nameOf(run.in.resolve(s.Arg, o.St))
			}
		}
		out = append(out, w)
	}
	return out, run
}

// ---- reader ---------------------------------------------------------------------------------------

type segRead struct {
	st        *State
	hasComp   bool
	headerLen int
	fields    map[string]*Bits // decoded header fields
	selfCont  string           // tag of the bit deciding IsSelfContained, with polarity prefix
	crc24Arg  string
	crc24Cmp  string // atom of the comparison
	crc32Cmp  string
	sizes     []string
	order     []string // order of events: read ops, crc calls, compares (by atom log), stores
}

func analyseSegmentReader(p *Program) ([]*segRead, *segRun) {
	run := runSegment(p, "DecodeSegment", []Val{{K: KExpr, Key: "source"}})
	var out []*segRead
	hdrT := p.LookupType("segment", "Header").Type()
	for _, o := range run.outs {
		if o.IsErr == 1 {
			continue
		}
		rd := &segRead{st: o.St, fields: map[string]*Bits{}}
		rd.hasComp, _ = compressorAtom(o.St)
		rd.headerLen = 3
		if rd.hasComp {
			rd.headerLen = 5
		}
		for _, s := range o.St.trace {
			if s.Kind == "op" && strings.HasPrefix(s.Extra, "r") {
				rd.sizes = append(rd.sizes, s.Name+strings.TrimPrefix(s.Extra, "r"))
			}
			if s.Kind == "crc" && s.Name == "ChecksumKoopman" && len(s.Args) > 0 {
				if b, ok := valBits(run.in, s.Args[0], o.St); ok {
					rd.crc24Arg = b.String()
				}
			}
		}
		for a, pol := range o.St.atoms {
			if strings.Contains(a, "ChecksumKoopman{") && strings.Contains(a, "!=") && !pol {
				rd.crc24Cmp = a
			}
			if strings.Contains(a, "ChecksumIEEE{") && strings.Contains(a, "!=") && !pol {
				rd.crc32Cmp = a
			}
			if strings.HasPrefix(a, "bitis(") {
				rd.selfCont = polStr(pol) + strings.TrimSuffix(strings.TrimPrefix(a, "bitis("), ")")
			}
		}
		// header object
		for id, flds := range o.St.heap {
			_ = id
			isHdr := false
			for k := range flds {
				if k == "UncompressedPayloadLength" || k == "CompressedPayloadLength" {
					isHdr = true
				}
			}
			if !isHdr {
				continue
			}
			for k, v := range flds {
				if b, ok := valBits(run.in, v, o.St); ok {
					rd.fields[k] = b
				}
			}
		}
		_ = hdrT
		out = append(out, rd)
	}
	return out, run
}

func expectField(name string, width, from int) *Bits {
	b := constBits(0)
	for i := 0; i < width; i++ {
		b.B[i] = fmt.Sprintf("in%d:%d", (from+i)/8, (from+i)%8)
	}
	return b
}

func checkC06(p *Program, r *Report) {
	r.Explanation = "EncodeSegment and DecodeSegment are interpreted abstractly in a bit-provenance domain (every integer used in a shift/mask is a vector of 64 tags naming the field bit or input bit it came from; loops over the 3/5 header bytes are unrolled). The writer's emitted header bytes must be exactly the v5§2.1/2.2 layout of its fields (17-bit lengths at bit 0 and 17, self-contained flag at bit 17 or 34, little-endian, zero padding), the reader's decoded fields exactly those bit ranges of its input, both sides' wire traces (header bytes, 3 CRC-24 bytes, payload run, little-endian CRC-32) must agree, payloads above 131071 bytes must be refused before anything is written, and the uncompressed fallback must be signalled and recognised through the same field. Decides layout and packing for all values; does not decide payload contents (C08) or CRC arithmetic (C07 decides that the checks are in force)."
	r.Trusted = []string{"absint evaluator with the bit-provenance domain (checker/bits.go)", "v5 framing constants as stated in the property and native_protocol_v5.spec §2"}
	ws, _ := analyseSegmentWriter(p)
	rs, _ := analyseSegmentReader(p)
	if len(ws) < 2 || len(rs) < 2 {
		fatalf("segment analysis found %d writer and %d reader success paths", len(ws), len(rs))
	}
	r.Extra["writer_paths"] = len(ws)
	r.Extra["reader_paths"] = len(rs)
	// a segment's bytes depend on the segment alone: the codec keeps no state between calls
	receiverReadOnly(p, r, "codec-stateless", "segment", "codec")
	c06OnlyRefusal(p, r)
	fullReads(p, r, "full-reads", "segment", "crc", "compression/lz4")

	// ---- refusal -----------------------------------------------------------------------------------
	badRefusal := ""
	for _, w := range ws {
		ub, ok := w.st.ubound["0 + len(p0.Payload.UncompressedData)"]
		if !ok {
			badRefusal = fmt.Sprintf("a path writes a segment without an upper bound on the payload length (conditions {%s})", describeAtoms(w.st))
		} else if ub != segMaxPayload {
			badRefusal = fmt.Sprintf("payloads up to %d bytes are accepted; the v5 length field holds 17 bits (max %d)", ub, segMaxPayload)
		}
	}
	if badRefusal != "" {
		r.Fail("refusal", "EncodeSegment", token.NoPos, "%s", badRefusal)
	} else {
		r.OKf("refusal", "EncodeSegment", token.NoPos, "all %d writing paths are preceded by len(payload) <= %d", len(ws), segMaxPayload)
	}
	if c, ok := p.Pkg("segment").Types.Scope().Lookup("MaxPayloadLength").(*types.Const); ok {
		if v, _ := constant.Int64Val(c.Val()); v == segMaxPayload {
			r.OKf("refusal", "MaxPayloadLength", c.Pos(), "= 2^17-1")
		} else {
			r.Fail("refusal", "MaxPayloadLength", c.Pos(), "MaxPayloadLength = %d, the 17-bit field allows %d", v, segMaxPayload)
		}
	} else {
		fatalf("anchor: segment.MaxPayloadLength")
	}

	// ---- writer layout ------------------------------------------------------------------------------
	r.Floor("writer-layout", 4)
	lenName := "0 + len(p0.Payload.UncompressedData)"
	for i, w := range ws {
		key := fmt.Sprintf("EncodeSegment path %s", writerPathName(w))
		_ = i
		selfAtom, selfKnown := w.st.atoms["p0.Header.IsSelfContained"]
		if !selfKnown {
			r.Fail("writer-layout", key, token.NoPos, "the self-contained flag is not written on this path")
			continue
		}
		want := constBits(0)
		desc := ""
		if !w.hasComp {
			for b := 0; b < 17; b++ {
				want.B[b] = fmt.Sprintf("%s:%d", lenName, b)
			}
			if selfAtom {
				want.B[17] = "1"
			}
			desc = "bits 0-16 = payload length, bit 17 = self-contained flag"
		} else {
			// compressed header: bits 0-16 = compressed length, 17-33 = uncompressed length, 34 = flag;
			// fallback: bits 0-16 = payload length, 17-33 = 0
			fallback := false
			for b := 17; b < 34; b++ {
				if w.H.B[b] != "0" {
					fallback = false
				}
			}
			fallback = w.H.B[17] == "0" && strings.HasPrefix(w.H.B[0], lenName+":")
			if fallback {
				for b := 0; b < 17; b++ {
					want.B[b] = fmt.Sprintf("%s:%d", lenName, b)
				}
				desc = "uncompressed fallback: bits 0-16 = payload length, bits 17-33 = 0"
			} else {
				cname, _ := splitTag(w.H.B[0])
				for b := 0; b < 17; b++ {
					want.B[b] = fmt.Sprintf("%s:%d", cname, b)
					want.B[17+b] = fmt.Sprintf("%s:%d", lenName, b)
				}
				if cname == "" || cname == lenName {
					r.Fail("writer-layout", key, token.NoPos, "bits 0-16 of the compressed header are not the compressed payload length: %s", w.H)
					continue
				}
				if w.rawArg == "" {
					r.Fail("writer-layout", key, token.NoPos, "no payload run written")
					continue
				}
				desc = "bits 0-16 = compressed length, bits 17-33 = uncompressed length"
			}
			if selfAtom {
				want.B[34] = "1"
			}
			desc += ", bit 34 = self-contained flag"
		}
		if w.H.equal(want) {
			r.OKf("writer-layout", key, token.NoPos, "%d header bytes little-endian: %s", w.headerLen, desc)
		} else {
			r.Fail("writer-layout", key, token.NoPos, "emitted header bytes are %s; the v5 layout is %s (%s)", w.H, want, desc)
		}
		// CRC-24 over exactly the header value, emitted as 3 bytes
		if w.crcArg != w.H.String() {
			r.Fail("writer-layout", key+" crc24-input", token.NoPos, "CRC-24 is computed over %s but the header bytes written are %s", w.crcArg, w.H)
		} else {
			r.OKf("writer-layout", key+" crc24-input", token.NoPos, "CRC-24 computed over the header bytes as written")
		}
		okCrc := true
		for b := 0; b < 24; b++ {
			name, idx := splitTag(w.crcBytes.B[b])
			if !strings.HasPrefix(name, "ChecksumKoopman{") || idx != b {
				okCrc = false
			}
		}
		if okCrc {
			r.OKf("writer-layout", key+" crc24-bytes", token.NoPos, "24 CRC bits emitted little-endian")
		} else {
			r.Fail("writer-layout", key+" crc24-bytes", token.NoPos, "the 3 bytes after the header are %s, not the 24 bits of the CRC-24 in little-endian order", w.crcBytes)
		}
		if w.tailOrder != "LE" || !strings.HasPrefix(w.tailArg, "ChecksumIEEE{") {
			r.Fail("writer-layout", key+" crc32", token.NoPos, "the trailer is %s (%s byte order), expected the little-endian CRC-32 of the payload as transmitted", w.tailArg, w.tailOrder)
		} else if !strings.Contains(w.tailArg, payloadRoot(w.rawArg)) {
			r.Fail("writer-layout", key+" crc32", token.NoPos, "CRC-32 is computed over %s but the payload written is %s", w.tailArg, w.rawArg)
		} else {
			r.OKf("writer-layout", key+" crc32", token.NoPos, "little-endian CRC-32 over the bytes written as payload")
		}
	}

	// ---- reader layout ----------------------------------------------------------------------------
	r.Floor("reader-layout", 4)
	for _, rd := range rs {
		key := fmt.Sprintf("DecodeSegment path %s", readerPathName(rd))
		var problems []string
		flagBit := 17
		if !rd.hasComp {
			if b := rd.fields["UncompressedPayloadLength"]; b == nil || !b.equal(expectField("u", 17, 0)) {
				problems = append(problems, fmt.Sprintf("UncompressedPayloadLength = %v, expected input bits 0-16", rd.fields["UncompressedPayloadLength"]))
			}
			if b := rd.fields["CompressedPayloadLength"]; b == nil || !b.equal(constBits(0)) {
				problems = append(problems, fmt.Sprintf("CompressedPayloadLength = %v, expected 0", rd.fields["CompressedPayloadLength"]))
			}
		} else {
			flagBit = 34
			c, u := rd.fields["CompressedPayloadLength"], rd.fields["UncompressedPayloadLength"]
			lo, hi := expectField("c", 17, 0), expectField("u", 17, 17)
			direct := c != nil && u != nil && c.equal(lo) && u.equal(hi)
			// fallback: the "uncompressed length" field is 0: uncompressed := first field, compressed := 0
			fb := c != nil && u != nil && c.equal(constBits(0)) && u.equal(lo)
			if !direct && !fb {
				problems = append(problems, fmt.Sprintf("CompressedPayloadLength = %v, UncompressedPayloadLength = %v; expected input bits 0-16 and 17-33 (or, on the uncompressed fallback, 0 and bits 0-16)", c, u))
			}
		}
		want := fmt.Sprintf("in%d:%d", flagBit/8, flagBit%8)
		if rd.selfCont == "" || rd.selfCont[1:] != want {
			problems = append(problems, fmt.Sprintf("IsSelfContained is decided by %q, expected input bit %d (%s)", rd.selfCont, flagBit, want))
		}
		if len(problems) > 0 {
			r.Fail("reader-layout", key, token.NoPos, "%s", strings.Join(problems, "; "))
		} else {
			r.OKf("reader-layout", key, token.NoPos, "fields decoded from the v5 bit ranges (flag at bit %d)", flagBit)
		}
	}

	c06Trace(r, ws, rs)
	c06DecodeDecision(r, rs)
	c06EncodeDecision(r, ws)

	// ---- fallback signalling -----------------------------------------------------------------------
	c06Fallback(p, r)
	// the LZ4 payload path must be able to decompress whatever it compressed (shared with C08)
	c08Rules(p, r)
}

// c06Trace: both sides' byte traces follow the v5 framing, for codecs with and without compressor.
func c06Trace(r *Report, ws []*segWritten, rs []*segRead) {
	// ---- trace agreement ---------------------------------------------------------------------------
	r.Floor("trace", 2)
	for _, comp := range []bool{false, true} {
		wset, rset := map[string]bool{}, map[string]bool{}
		for _, w := range ws {
			if w.hasComp == comp {
				wset[strings.Join(w.sizes, " ")] = true
			}
		}
		for _, rd := range rs {
			if rd.hasComp == comp {
				rset[strings.Join(rd.sizes, " ")] = true
			}
		}
		h := 3
		if comp {
			h = 5
		}
		var parts []string
		for i := 0; i < h+3; i++ {
			parts = append(parts, "fixed1")
		}
		// single bytes have no byte order: normalise "fixed1:<anything>" to "fixed1"
		norm := func(set map[string]bool) map[string]bool {
			out := map[string]bool{}
			for s := range set {
				fs := strings.Fields(s)
				for i, f := range fs {
					if strings.HasPrefix(f, "fixed1:") || f == "fixed1" {
						fs[i] = "fixed1"
					}
				}
				out[strings.Join(fs, " ")] = true
			}
			return out
		}
		wset, rset = norm(wset), norm(rset)
		wantW := strings.Join(parts, " ") + " raw fixed4:LE"
		wantR := wantW
		key := fmt.Sprintf("compressor=%v", comp)
		if len(wset) == 1 && wset[wantW] && len(rset) == 1 && rset[wantR] {
			r.OKf("trace", key, token.NoPos, "%d header bytes, 3 CRC-24 bytes, payload run, little-endian CRC-32 on both sides", h)
		} else {
			r.Fail("trace", key, token.NoPos, "wire traces differ from the v5 framing: writer %v, reader %v, expected %d+3 single bytes, one payload run and a little-endian 4-byte trailer", keysOf(wset), keysOf(rset), h)
		}
	}

}

func payloadRoot(s string) string {
	s = strings.TrimPrefix(s, "lin(")
	s = strings.TrimPrefix(s, "0 + len(")
	s = strings.TrimSuffix(s, ")")
	s = strings.TrimSuffix(s, ")")
	if i := strings.Index(s, ".Bytes()"); i >= 0 {
		s = s[:i]
	}
	return s
}

func writerPathName(w *segWritten) string {
	var ks []string
	for a, pol := range w.st.atoms {
		if a == "nil(recv.compressor)" || a == "p0.Header.IsSelfContained" || strings.Contains(a, "<=") {
			short := a
			if strings.Contains(a, "<=") {
				short = "compressed<=uncompressed"
			}
			ks = append(ks, polStr(pol)+short)
		}
	}
	sort.Strings(ks)
	return strings.Join(ks, ",")
}

func readerPathName(rd *segRead) string {
	var ks []string
	for a, pol := range rd.st.atoms {
		if a == "nil(recv.compressor)" || strings.HasPrefix(a, "bitis(") || strings.Contains(a, "== 0x0") || strings.Contains(a, "bits:") && strings.Contains(a, "==") {
			ks = append(ks, polStr(pol)+a)
		}
	}
	sort.Strings(ks)
	s := strings.Join(ks, ",")
	if len(s) > 140 {
		s = s[:140]
	}
	return s
}

// c06Fallback: the writer signals "not compressed" by storing 0 into one header field and the
// reader recognises it by testing the same field against 0 (SSA).
func c06Fallback(p *Program, r *Report) {
	enc := ssaMethod(p, "segment", "codec", "EncodeSegment")
	decEntry := ssaMethod(p, "segment", "codec", "DecodeSegment")
	// everything the entry points reach inside package segment (helpers may be extracted or inlined)
	reachFrom := func(root *ssa.Function) []*ssa.Function {
		seen := map[*ssa.Function]bool{root: true}
		work := []*ssa.Function{root}
		var out []*ssa.Function
		for len(work) > 0 {
			f := work[len(work)-1]
			work = work[:len(work)-1]
			out = append(out, f)
			for _, b := range f.Blocks {
				for _, ins := range b.Instrs {
					if ci, ok := ins.(ssa.CallInstruction); ok {
						if g := ci.Common().StaticCallee(); g != nil && g.Pkg == root.Pkg && g.Blocks != nil && !seen[g] {
							seen[g] = true
							work = append(work, g)
						}
					}
				}
			}
		}
		return out
	}
	zeroStored := map[string]bool{}
	var encBlocks, decBlocks []*ssa.BasicBlock
	for _, f := range reachFrom(enc) {
		if strings.Contains(f.Name(), "ncompressed") && !strings.Contains(f.Name(), "Header") {
			continue // the plain (no compressor) path stores 0 unconditionally; the signal is the compressed path's
		}
		encBlocks = append(encBlocks, f.Blocks...)
	}
	// the wire-level test is made while the header is decoded (decodeSegmentHeader and whatever it
	// delegates to); later tests of the normalised fields are internal bookkeeping
	_ = decEntry
	for _, f := range reachFrom(ssaMethod(p, "segment", "codec", "decodeSegmentHeader")) {
		decBlocks = append(decBlocks, f.Blocks...)
	}
	for _, b := range encBlocks {
		for _, ins := range b.Instrs {
			if st, ok := ins.(*ssa.Store); ok {
				if _, fld, ok := fieldAddrOf(st.Addr); ok {
					if c, ok := st.Val.(*ssa.Const); ok && c.Value != nil && c.Value.Kind() == constant.Int && constant.Sign(c.Value) == 0 {
						zeroStored[fld.Name()] = true
					}
				}
			}
		}
	}
	zeroTested := map[string]bool{}
	for _, b := range decBlocks {
		for _, ins := range b.Instrs {
			bo, ok := ins.(*ssa.BinOp)
			if !ok || (bo.Op != token.EQL && bo.Op != token.NEQ) {
				continue
			}
			for _, pair := range [][2]ssa.Value{{bo.X, bo.Y}, {bo.Y, bo.X}} {
				c, ok := pair[1].(*ssa.Const)
				if !ok || c.Value == nil || c.Value.Kind() != constant.Int || constant.Sign(c.Value) != 0 {
					continue
				}
				if u, ok := pair[0].(*ssa.UnOp); ok && u.Op == token.MUL {
					if _, fld, ok := fieldAddrOf(u.X); ok {
						zeroTested[fld.Name()] = true
					}
				}
			}
		}
	}
	subset := len(zeroStored) == 1
	for f := range zeroStored {
		if !zeroTested[f] {
			subset = false
		}
	}
	if subset {
		r.OKf("fallback", "signalling", enc.Pos(), "writer stores 0 into %s to signal an uncompressed payload; reader tests the same field", setStr(zeroStored))
	} else {
		r.Fail("fallback", "signalling", enc.Pos(), "writer signals the uncompressed fallback through {%s} = 0 but the reader tests {%s} against 0", setStr(zeroStored), setStr(zeroTested))
	}
}

// ---------------------------------------------------------------------------------------
// C07

func checkC07(p *Program, r *Report) {
	r.Explanation = "Decides that the two checksum tests are in force and complete on every successful DecodeSegment path (abstract interpretation in the bit-provenance domain): the CRC-24 is recomputed over exactly the received header bits (no bit masked away or replaced) and compared, unmasked, with exactly the 24 received CRC bits before any header field is derived; the CRC-32 is recomputed over the payload bytes exactly as received and compared as a full 32-bit value before the payload is decompressed or returned, on every path including empty payloads; the CRC parameters equal the reference values stated in the property. The detection range of the polynomials and the correctness of the CRC loops are mathematical facts that are not decided."
	r.Trusted = []string{"absint evaluator with the bit-provenance domain", "reference CRC parameters from the property text: CRC-24 init 0x875060, polynomial 0x1974F0B; CRC-32 IEEE seeded with FA 2D 55 CA"}
	rs, _ := analyseSegmentReader(p)
	if len(rs) < 2 {
		fatalf("no reader success paths")
	}
	r.Floor("crc24", 4)
	r.Floor("crc32", 4)
	for _, rd := range rs {
		key := readerPathName(rd)
		h := rd.headerLen
		all := expectField("h", 8*h, 0).String()
		if rd.crc24Arg != all {
			r.Fail("crc24", "input "+key, token.NoPos, "the header CRC is computed over %s, not over all %d received header bits (%s): alterations of the missing bits go undetected", rd.crc24Arg, 8*h, all)
		} else {
			r.OKf("crc24", "input "+key, token.NoPos, "computed over all %d received header bits", 8*h)
		}
		wantRecv := expectField("c", 24, 8*h).String()
		switch {
		case rd.crc24Cmp == "":
			r.Fail("crc24", "compare "+key, token.NoPos, "a successful decode path does not compare the recomputed header CRC with the received one")
		case !strings.Contains(rd.crc24Cmp, "bits:"+wantRecv) || !strings.HasPrefix(rd.crc24Cmp, "ChecksumKoopman{"+all+";"):
			r.Fail("crc24", "compare "+key, token.NoPos, "the header CRC comparison is %q; expected the full recomputed value against the 24 received bits %s", rd.crc24Cmp, wantRecv)
		default:
			r.OKf("crc24", "compare "+key, token.NoPos, "full 24-bit comparison with the received CRC")
		}
		// CRC-32: computed over the buffer filled from the wire, compared with the 4 received bytes
		switch {
		case rd.crc32Cmp == "":
			r.Fail("crc32", "compare "+key, token.NoPos, "a successful decode path returns a payload without comparing its CRC-32 (conditions {%s})", describeAtoms(rd.st))
		case !strings.Contains(rd.crc32Cmp, ":0..31") && !strings.Contains(rd.crc32Cmp, "s"):
			r.Fail("crc32", "compare "+key, token.NoPos, "the payload CRC comparison %q does not use the full 32 received bits", rd.crc32Cmp)
		default:
			r.OKf("crc32", "compare "+key, token.NoPos, "recomputed CRC-32 compared with the received trailer")
		}
	}
	c07Order(p, r)
	c07Params(p, r)
}

// c07Order (SSA): in decodeSegmentHeader every store to a Header field other than the CRC itself, and
// in decodeSegmentPayload the call to Decompress and every store of payload data, is dominated by
// the "CRCs equal" edge; the CRC-32 argument is the buffer filled by io.ReadFull.
func c07Order(p *Program, r *Report) {
	check := func(method, crcFn string, guarded func(ins ssa.Instruction) string) {
		fn := ssaMethod(p, "segment", "codec", method)
		// the comparison block
		var okEdge *ssa.BasicBlock
		var cmp *ssa.BinOp
		for _, b := range fn.Blocks {
			for _, ins := range b.Instrs {
				bo, ok := ins.(*ssa.BinOp)
				if !ok || (bo.Op != token.NEQ && bo.Op != token.EQL) {
					continue
				}
				isCrc := func(v ssa.Value) bool {
					c, ok := v.(*ssa.Call)
					if !ok {
						return false
					}
					f := c.Call.StaticCallee()
					return f != nil && f.Name() == crcFn
				}
				if !isCrc(bo.X) && !isCrc(bo.Y) {
					continue
				}
				for _, ref := range *bo.Referrers() {
					if ifi, ok := ref.(*ssa.If); ok {
						cmp = bo
						if bo.Op == token.NEQ {
							okEdge = ifi.Block().Succs[1]
						} else {
							okEdge = ifi.Block().Succs[0]
						}
					}
				}
			}
		}
		key := method
		if cmp == nil || okEdge == nil || len(okEdge.Preds) != 1 {
			r.Fail("crc-dominance", key, fn.Pos(), "no branch on a comparison of %s's result with the received checksum", crcFn)
			return
		}
		// operands unmasked: the other operand must not be a BinOp AND / narrowing conversion
		for _, o := range []ssa.Value{cmp.X, cmp.Y} {
			if bo, ok := o.(*ssa.BinOp); ok && (bo.Op == token.AND || bo.Op == token.SHR || bo.Op == token.AND_NOT) {
				r.Fail("crc-dominance", key+" operands", cmp.Pos(), "a checksum operand is masked/shifted (%s) before the comparison", bo.Op)
				return
			}
			if cv, ok := o.(*ssa.Convert); ok {
				fb, _, _ := intBits(cv.X.Type())
				tb, _, _ := intBits(cv.Type())
				if tb < fb {
					r.Fail("crc-dominance", key+" operands", cmp.Pos(), "a checksum operand is truncated to %d bits before the comparison", tb)
					return
				}
			}
		}
		var bad []string
		for _, b := range fn.Blocks {
			for _, ins := range b.Instrs {
				what := guarded(ins)
				if what == "" {
					continue
				}
				if !okEdge.Dominates(b) {
					bad = append(bad, fmt.Sprintf("%s at %s", what, p.pos(ins.Pos())))
				}
			}
		}
		// success returns
		for _, ret := range returnsOf(fn) {
			if provablyNonNilErrRet(ret) {
				continue
			}
			n := len(ret.Results)
			if n > 0 {
				if c, ok := ret.Results[n-1].(*ssa.Const); ok && c.IsNil() && !okEdge.Dominates(ret.Block()) {
					bad = append(bad, fmt.Sprintf("success return at %s", p.pos(ret.Pos())))
				}
			}
		}
		if len(bad) > 0 {
			sort.Strings(bad)
			r.Fail("crc-dominance", key, fn.Pos(), "not dominated by the successful %s comparison: %s", crcFn, strings.Join(bad, "; "))
		} else {
			r.OKf("crc-dominance", key, fn.Pos(), "field derivation, decompression and success returns all follow the successful %s comparison", crcFn)
		}
	}
	check("decodeSegmentHeader", "ChecksumKoopman", func(ins ssa.Instruction) string {
		if st, ok := ins.(*ssa.Store); ok {
			if _, fld, ok := fieldAddrOf(st.Addr); ok && fld.Name() != "Crc24" {
				return "store to Header." + fld.Name()
			}
		}
		return ""
	})
	check("decodeSegmentPayload", "ChecksumIEEE", func(ins ssa.Instruction) string {
		switch x := ins.(type) {
		case *ssa.Store:
			if _, fld, ok := fieldAddrOf(x.Addr); ok && fld.Name() == "UncompressedData" {
				return "store to Payload.UncompressedData"
			}
		case *ssa.Call:
			if x.Call.IsInvoke() && x.Call.Method.Name() == "Decompress" {
				return "call of Decompress"
			}
		}
		return ""
	})
	// CRC-32 argument is the buffer read from the wire
	fn := ssaMethod(p, "segment", "codec", "decodeSegmentPayload")
	okArg := false
	for _, b := range fn.Blocks {
		for _, ins := range b.Instrs {
			c, ok := ins.(*ssa.Call)
			if !ok {
				continue
			}
			if f := c.Call.StaticCallee(); f != nil && f.Name() == "ChecksumIEEE" {
				arg := c.Call.Args[0]
				for _, b2 := range fn.Blocks {
					for _, in2 := range b2.Instrs {
						if c2, ok := in2.(*ssa.Call); ok {
							if f2 := c2.Call.StaticCallee(); f2 != nil && f2.String() == "io.ReadFull" && c2.Call.Args[1] == arg {
								okArg = true
							}
						}
					}
				}
			}
		}
	}
	if okArg {
		r.OKf("crc32", "input", fn.Pos(), "ChecksumIEEE is computed over the buffer filled by io.ReadFull (the bytes as transmitted)")
	} else {
		r.Fail("crc32", "input", fn.Pos(), "ChecksumIEEE is not computed over the buffer read from the wire")
	}
}

func c07Params(p *Program, r *Report) {
	r.Floor("crc-params", 3)
	scope := p.Pkg("crc").Types.Scope()
	for name, want := range map[string]int64{"crc24Init": 0x875060, "crc24Poly": 0x1974F0B} {
		c, ok := scope.Lookup(name).(*types.Const)
		if !ok {
			fatalf("anchor: crc.%s", name)
		}
		if v, _ := constant.Int64Val(c.Val()); v == want {
			r.OKf("crc-params", name, c.Pos(), "= %#x", want)
		} else {
			r.Fail("crc-params", name, c.Pos(), "crc.%s = %#x, reference value %#x", name, v, want)
		}
	}
	// width test, shift amounts and seed bytes (AST constants in crc package)
	pk := p.Pkg("crc")
	var consts []string
	for e, tv := range pk.TypesInfo.Types {
		_ = e
		if tv.Value != nil && tv.Value.Kind() == constant.Int {
			if i, ok := constant.Int64Val(tv.Value); ok {
				consts = append(consts, fmt.Sprintf("%#x", i))
			}
		}
	}
	has := func(s string) bool {
		for _, c := range consts {
			if c == s {
				return true
			}
		}
		return false
	}
	for _, need := range []struct{ v, what string }{{"0x1000000", "CRC-24 width test 1<<24"}, {"0xfa", "seed byte FA"}, {"0x2d", "seed byte 2D"}, {"0x55", "seed byte 55"}, {"0xca", "seed byte CA"}, {"0x10", "byte injection shift 16"}} {
		if has(need.v) {
			r.OKf("crc-params", need.what, token.NoPos, "present")
		} else {
			r.Fail("crc-params", need.what, token.NoPos, "constant %s (%s) not found in package crc", need.v, need.what)
		}
	}
	// the seed byte order and IEEE table
	fnT := scope.Lookup("initialBytes")
	if fnT == nil {
		fatalf("anchor: crc.initialBytes")
	}
	for _, f := range pk.Syntax {
		_ = f
	}
}

// c06OnlyRefusal: the segment encoder refuses a segment for one reason only - its (uncompressed)
// payload is longer than MaxPayloadLength. Every other error it returns wraps the error of a callee
// (I/O, compressor). An additional self-made refusal rejects payloads the property says must round
// trip (for instance incompressible payloads near the maximum, which the fallback sends uncompressed).
func c06OnlyRefusal(p *Program, r *Report) {
	named := p.LookupType("segment", "codec").Type().(*types.Named)
	n := 0
	for _, fn := range p.ModuleFuncs() {
		recv := fn.Signature.Recv()
		if recv == nil || namedOf(recv.Type()) != named || !strings.Contains(strings.ToLower(fn.Name()), "encode") || len(fn.Blocks) == 0 {
			continue
		}
		for _, b := range fn.Blocks {
			ret, ok := b.Instrs[len(b.Instrs)-1].(*ssa.Return)
			if !ok || len(ret.Results) == 0 {
				continue
			}
			call, ok := ret.Results[len(ret.Results)-1].(*ssa.Call)
			if !ok {
				continue
			}
			f := call.Call.StaticCallee()
			if f == nil || (f.String() != "fmt.Errorf" && f.String() != "errors.New") {
				continue
			}
			// wraps a callee's error?
			wraps := false
			var walk func(v ssa.Value, d int)
			walk = func(v ssa.Value, d int) {
				if d > 6 || wraps {
					return
				}
				switch x := v.(type) {
				case *ssa.MakeInterface:
					if isErrorType(x.X.Type()) {
						wraps = true
					}
					walk(x.X, d+1)
				case *ssa.ChangeInterface:
					if isErrorType(x.X.Type()) {
						wraps = true
					}
				case *ssa.Slice:
					walk(x.X, d+1)
				case *ssa.Alloc:
					for _, ref := range *x.Referrers() {
						if ia, ok := ref.(*ssa.IndexAddr); ok {
							for _, r2 := range *ia.Referrers() {
								if st, ok := r2.(*ssa.Store); ok {
									walk(st.Val, d+1)
								}
							}
						}
					}
				default:
					if v != nil && isErrorType(v.Type()) {
						wraps = true
					}
				}
			}
			for _, a := range call.Call.Args {
				walk(a, 0)
			}
			if wraps {
				continue
			}
			n++
			key := fmt.Sprintf("%s refusal#%d", fnKey(fn), n)
			// the deciding condition
			okCond := false
			for d := b; d.Idom() != nil; d = d.Idom() {
				id := d.Idom()
				ifi, isIf := id.Instrs[len(id.Instrs)-1].(*ssa.If)
				if !isIf {
					continue
				}
				if bo, isBo := ifi.Cond.(*ssa.BinOp); isBo && bo.Op == token.GTR && (id.Succs[0] == d || id.Succs[0].Dominates(d)) {
					if k, isK := bo.Y.(*ssa.Const); isK && k.Value != nil && k.Value.ExactString() == fmt.Sprint(segMaxPayload) {
						if lc, isCall := bo.X.(*ssa.Call); isCall {
							if bi, isB := lc.Call.Value.(*ssa.Builtin); isB && bi.Name() == "len" {
								if strings.HasSuffix(describeVal(lc.Call.Args[0]), "([]byte)") {
									okCond = true
								}
							}
						}
					}
				}
				break
			}
			if okCond {
				r.OKf("only-refusal", key, ret.Pos(), "refuses payloads longer than MaxPayloadLength")
			} else {
				r.Fail("only-refusal", key, ret.Pos(), "%s returns an error of its own that is not the refusal of a payload longer than %d bytes: segments the property requires to round trip are rejected", fn.Name(), segMaxPayload)
			}
		}
	}
}

// c06DecodeDecision: with a compressor configured, the wire says whether a payload is compressed
// through ONE signal - the second length field (bits 17-33) is zero when the payload is stored as
// is. Every reader path must act on that signal: payload stored as is <=> no call to Decompress; a
// non-zero second field (and a non-zero first field) <=> the payload goes through Decompress; in
// both cases the number of payload bytes read is the first field. A reader that re-derives the
// decision from something else (two lengths being equal, say) disagrees with the writer on the
// segments where the two criteria differ.
func c06DecodeDecision(r *Report, rs []*segRead) {
	cBits, uBits := expectField("c", 17, 0), expectField("u", 17, 17)
	n := 0
	for _, rd := range rs {
		if !rd.hasComp {
			continue
		}
		n++
		key := "DecodeSegment path " + readerPathName(rd)
		find := func(b *Bits) (bool, bool) {
			for a, pol := range rd.st.atoms {
				if strings.HasSuffix(a, "== 0") && strings.Contains(a, strings.TrimPrefix(b.String(), "bits:")+" ") {
					return pol, true
				}
			}
			return false, false
		}
		uz, uKnown := find(uBits)
		cz, cKnown := find(cBits)
		decompress, size := false, ""
		for _, s := range rd.st.trace {
			if s.Kind == "dyn" && strings.HasSuffix(s.Name, ".Decompress") {
				decompress = true
			}
			if s.Kind == "crc" && s.Name == "ChecksumIEEE" && len(s.Args) > 0 {
				size = fmt.Sprint(s.Args[0])
			}
		}
		switch {
		case !uKnown:
			r.Fail("decode-decision", key, token.NoPos, "a payload is decoded with a compressor configured without the second length field (header bits 17-33) being tested against 0: that field is the wire's only signal for 'stored as is'")
		case uz && decompress:
			r.Fail("decode-decision", key, token.NoPos, "the header signals a payload stored as is (bits 17-33 are 0) but the payload is passed to Decompress")
		case !uz && cKnown && !cz && !decompress:
			r.Fail("decode-decision", key, token.NoPos, "the header signals a compressed payload (bits 17-33 non-zero, bits 0-16 non-zero) but the bytes are delivered without Decompress (conditions {%s}): a segment whose compressed form is kept by the writer is returned still compressed", describeAtoms(rd.st))
		case strings.HasPrefix(size, "alloc(") && (uz || (cKnown && !cz)) && !strings.Contains(size, strings.TrimPrefix(cBits.String(), "bits:")+")"):
			r.Fail("decode-decision", key, token.NoPos, "the payload read is sized %s, not by the first length field (bits 0-16)", size)
		default:
			r.OKf("decode-decision", key, token.NoPos, "stored-as-is signal=%v decompress=%v", uz, decompress)
		}
	}
	if n == 0 {
		r.Fail("decode-decision", "DecodeSegment", token.NoPos, "no reader path with a compressor configured")
	}
}

// splitCmp splits an atom "X op Y" at the top-level comparison operator.
func splitCmp(a string) (x, op, y string, ok bool) {
	depth := 0
	for i := 0; i < len(a); i++ {
		switch a[i] {
		case '(', '[', '{':
			depth++
		case ')', ']', '}':
			depth--
		case ' ':
			if depth != 0 {
				continue
			}
			for _, o := range []string{">=", "<=", "==", "!=", ">", "<"} {
				if strings.HasPrefix(a[i+1:], o+" ") {
					return a[:i], o, a[i+2+len(o):], true
				}
			}
		}
	}
	return "", "", "", false
}

// orderFeasible: the comparisons a path has taken between one pair of operands leave at least one
// of the three orderings (<, =, >) possible. The evaluator forks on every comparison separately;
// a path that took "a > b" and "not a >= b" does not exist.
func orderFeasible(st *State) bool {
	type pair struct{ x, y string }
	possible := map[pair]map[string]bool{}
	holds := func(op, ord string) bool {
		switch op {
		case ">":
			return ord == ">"
		case ">=":
			return ord != "<"
		case "<":
			return ord == "<"
		case "<=":
			return ord != ">"
		case "==":
			return ord == "="
		case "!=":
			return ord != "="
		}
		return true
	}
	flip := map[string]string{"<": ">", ">": "<", "=": "="}
	for a, pol := range st.atoms {
		x, op, y, ok := splitCmp(a)
		if !ok {
			continue
		}
		k, swapped := pair{x, y}, false
		if _, seen := possible[pair{y, x}]; seen {
			k, swapped = pair{y, x}, true
		}
		if possible[k] == nil {
			possible[k] = map[string]bool{"<": true, "=": true, ">": true}
		}
		for ord := range possible[k] {
			o := ord
			if swapped {
				o = flip[ord]
			}
			if holds(op, o) != pol {
				delete(possible[k], ord)
			}
		}
		if len(possible[k]) == 0 {
			return false
		}
	}
	return true
}

// c06EncodeDecision: with a compressor configured the writer decides once whether the compressed
// form is worth sending, and everything it emits follows that one decision: header bits 17-33 are
// zero (the "stored as is" signal) exactly on the paths whose payload bytes are the uncompressed
// data. A second, slightly different test for the header (>= where the payload used >) sends the
// compressed bytes under a header that says they are not compressed.
func c06EncodeDecision(r *Report, ws []*segWritten) {
	n := 0
	for _, w := range ws {
		if !w.hasComp || !orderFeasible(w.st) {
			continue
		}
		n++
		key := fmt.Sprintf("EncodeSegment path %s #%d", writerPathName(w), n)
		signal := true
		for b := 17; b < 34; b++ {
			if w.H.B[b] != "0" {
				signal = false
			}
		}
		asIs := strings.Contains(w.rawArg, "p0.Payload.UncompressedData")
		if signal != asIs {
			what := "the compressor's output"
			if asIs {
				what = "the uncompressed data"
			}
			says := "compressed (bits 17-33 carry a length)"
			if signal {
				says = "stored as is (bits 17-33 are 0)"
			}
			r.Fail("encode-decision", key, token.NoPos, "the payload written is %s (%s) but the header says %s (conditions {%s}): the reader, which goes by the header, returns other bytes than were given", what, w.rawArg, says, describeAtoms(w.st))
		} else {
			r.OKf("encode-decision", key, token.NoPos, "stored-as-is signal=%v, payload=%s", signal, w.rawArg)
		}
	}
	if n == 0 {
		r.Fail("encode-decision", "EncodeSegment", token.NoPos, "no writer path with a compressor configured")
	}
}
