package main

// C05: header-only and raw-body operations agree with the full codec.
//
//   header-shape   the header portion read by DecodeFrame / DecodeRawFrame / DecodeHeader and written by
//                  EncodeFrame (both branches) / EncodeRawFrame / EncodeHeader is the same trace set
//   raw-count      DecodeRawBody / DiscardBody consume exactly one run of int64(header.BodyLength)
//                  bytes (io.CopyN / Seek count traced on SSA to the header field, no arithmetic)
//   raw-fresh      the body returned by DecodeRawBody is memory allocated by the call, not the source's
//   convert        ConvertToRawFrame = EncodeBody(frame.Header, frame.Body) with BodyLength := produced
//                  length; ConvertFromRawFrame = DecodeBody(frame.Header, reader over frame.Body)
//   body-length    (shared with C03) the declared body length equals the bytes the body encoder emits

import (
	"fmt"
	"go/token"
	"go/types"
	"sort"
	"strings"

	"golang.org/x/tools/go/ssa"
)

func init() { register("C05", "other", checkC05) }

func checkC05(p *Program, r *Report) {
	r.Explanation = "The partial operations are tied to the full codec structurally: all frame entry points produce/consume the same header trace (abstract interpretation with the header functions inlined), the raw-body readers consume exactly one run whose count is the header's BodyLength field (SSA def-use), return freshly allocated bytes, the convert functions delegate to EncodeBody/DecodeBody with the frame's own header, and the declared body length equals the emitted body (C03's envelope rule, re-decided here). With C01/C03 this gives the agreement of the paths by construction; the re-encode clause for arbitrary decodable inputs and third-party reader behaviour are not decided."
	r.Trusted = []string{"absint evaluator", "go/ssa"}
	pe := newPenum(p)
	vers := supportedVersions(p, pe)
	r.Floor("header-shape", 5)
	// raw frames must own their bytes: nothing pooled may back a RawFrame body
	poolHygiene(p, r, "pool-hygiene")
	fullReads(p, r, "full-reads", "frame", "primitive", "compression/lz4", "compression/snappy")
	c05HeaderFieldsVerbatim(p, r)

	headerPrefix := func(fn *types.Func, n int, presets map[string]Val, v Val) map[string]bool {
		out := map[string]bool{}
		vc := vers[0]
		if v.K == KConst {
			vc = v.C
		}
		run := runWire(p, fn, vc, false, presets)
		for _, o := range successPaths(run.outs) {
			var ks []string
			for _, it := range traceSeq(o.St.trace, o.St, run.in) {
				if it.kind != "op" {
					break
				}
				ks = append(ks, it.name)
				if len(ks) == n {
					break
				}
			}
			if len(ks) == n {
				out[strings.Join(ks, " ")] = true
			}
		}
		return out
	}
	setStrB := func(m map[string]bool) string {
		var ks []string
		for k := range m {
			ks = append(ks, "["+k+"]")
		}
		sort.Strings(ks)
		return strings.Join(ks, " ")
	}
	// decode side: the version is read from the wire, so each function yields both stream-id widths
	ref := headerPrefix(p.LookupMethod("frame", "codec", "DecodeHeader"), 5, nil, Val{})
	if len(ref) == 0 {
		fatalf("anchor: DecodeHeader yields no 5-op header trace")
	}
	for _, name := range []string{"DecodeFrame", "DecodeRawFrame"} {
		got := headerPrefix(p.LookupMethod("frame", "codec", name), 5, nil, Val{})
		if setStrB(got) == setStrB(ref) {
			r.OKf("header-shape", name, token.NoPos, "header read as %s, like DecodeHeader", setStrB(got))
		} else {
			r.Fail("header-shape", name, p.LookupMethod("frame", "codec", name).Pos(), "%s reads the header as %s but DecodeHeader reads %s", name, setStrB(got), setStrB(ref))
		}
	}
	for _, v := range vers {
		pre := map[string]Val{"p0.Version": constVal(v, nil), "p0.Header.Version": constVal(v, nil)}
		refE := headerPrefix(p.LookupMethod("frame", "codec", "EncodeHeader"), 5, pre, constVal(v, nil))
		for _, name := range []string{"EncodeFrame", "EncodeRawFrame"} {
			fn := p.LookupMethod("frame", "codec", name)
			run := runWire(p, fn, v, false, pre)
			// find the header ops inside the trace: the first 5 fixed-kind ops (a compressed frame encodes
			// its body into a side buffer first, so the header is not a prefix of the trace)
			got := map[string]bool{}
			for _, o := range successPaths(run.outs) {
				items := traceSeq(o.St.trace, o.St, run.in)
				s := seqString(items)
				for k := range refE {
					if strings.Contains(stripConsts(s), k) {
						got[k] = true
					}
				}
				if len(got) == 0 {
					got["?"+s] = true
				}
			}
			key := name + "@" + versionLabel(v)
			if setStrB(got) == setStrB(refE) {
				r.OKf("header-shape", key, fn.Pos(), "header written as %s, like EncodeHeader", setStrB(got))
			} else {
				r.Fail("header-shape", key, fn.Pos(), "%s writes the header as %s but EncodeHeader writes %s", name, setStrB(got), setStrB(refE))
			}
		}
	}

	c05RawCount(p, r)
	c05Convert(p, r)
	// body-length: declared length equals emitted body (same rule instance as C03)
	encB := p.LookupMethod("frame", "codec", "encodeBodyUncompressed")
	lenB := p.LookupMethod("frame", "codec", "uncompressedBodyLength")
	for _, v := range vers {
		compareLengthVsEncode(p, r, "body-length", "frame.body@"+versionLabel(v), encB, lenB, v, false, map[string]Val{"p0.Version": constVal(v, nil)})
	}
	c03BodyLengthFlow(p, r)
	c03LimitReaderContext(p, r)
}

func stripConsts(s string) string {
	var out []string
	for _, f := range strings.Fields(strings.Trim(s, "[]")) {
		if i := strings.Index(f, "="); i >= 0 {
			f = f[:i]
		}
		out = append(out, f)
	}
	return strings.Join(out, " ")
}

func ssaMethod(p *Program, pkg, typ, name string) *ssa.Function {
	m := p.LookupMethod(pkg, typ, name)
	fn := p.SSA().FuncValue(m)
	if fn == nil {
		fatalf("anchor: no SSA for %s.%s.%s", pkg, typ, name)
	}
	return fn
}

func isBodyLengthLoad(v ssa.Value, base ssa.Value) bool {
	for {
		if cv, ok := v.(*ssa.Convert); ok {
			v = cv.X
			continue
		}
		break
	}
	u, ok := v.(*ssa.UnOp)
	if !ok || u.Op != token.MUL {
		return false
	}
	b, fld, ok := fieldAddrOf(u.X)
	return ok && fld.Name() == "BodyLength" && b == base
}

func c05RawCount(p *Program, r *Report) {
	r.Floor("raw-count", 2)
	for _, name := range []string{"DecodeRawBody", "DiscardBody"} {
		fn := ssaMethod(p, "frame", "codec", name)
		header := fn.Params[1]
		n, bad := 0, ""
		for _, b := range fn.Blocks {
			for _, ins := range b.Instrs {
				c, ok := ins.(*ssa.Call)
				if !ok {
					continue
				}
				var count ssa.Value
				if f := c.Call.StaticCallee(); f != nil && f.String() == "io.CopyN" {
					count = c.Call.Args[2]
				} else if c.Call.IsInvoke() && c.Call.Method.Name() == "Seek" {
					count = c.Call.Args[0]
				} else if f != nil && f.String() == "io.ReadFull" && sliceLenOf(c.Call.Args[1]) != nil {
					// io.ReadFull(source, buf) reads exactly len(buf) bytes: buf must be make([]byte, BodyLength)
					count = sliceLenOf(c.Call.Args[1])
				} else if f != nil && (f.String() == "io.ReadFull" || f.String() == "io.Copy" || strings.HasSuffix(f.String(), ".ReadFrom") || strings.HasSuffix(f.String(), ".Next") || strings.HasSuffix(f.String(), ".Read")) {
					bad = fmt.Sprintf("%s: the body is consumed by %s, whose count is not tied to header.BodyLength", p.pos(c.Pos()), f.String())
					continue
				} else if c.Call.IsInvoke() && (c.Call.Method.Name() == "Read" || c.Call.Method.Name() == "Next") {
					bad = fmt.Sprintf("%s: the body is consumed by %s, whose count is not tied to header.BodyLength", p.pos(c.Pos()), c.Call.Method.Name())
					continue
				} else {
					continue
				}
				n++
				if !isBodyLengthLoad(count, header) {
					bad = fmt.Sprintf("%s: consumes %s bytes, not exactly int64(header.BodyLength)", p.pos(c.Pos()), describeVal(count))
				}
			}
		}
		if n == 0 && bad == "" {
			bad = "no consuming call found"
		}
		if bad != "" {
			r.Fail("raw-count", name, fn.Pos(), "%s", bad)
		} else {
			r.OKf("raw-count", name, fn.Pos(), "%d consuming calls, each of exactly header.BodyLength bytes", n)
		}
	}
	// raw-fresh: DecodeRawBody returns memory allocated by the call
	fn := ssaMethod(p, "frame", "codec", "DecodeRawBody")
	bad := ""
	for _, ret := range returnsOf(fn) {
		if len(ret.Results) == 0 {
			continue
		}
		v := ret.Results[0]
		if !freshBytes(v, 0) {
			bad = fmt.Sprintf("%s: the returned body (%s) is not memory allocated by this call - it may alias the source the caller keeps using", p.pos(ret.Pos()), describeVal(v))
		}
	}
	if bad != "" {
		r.Fail("raw-fresh", "DecodeRawBody", fn.Pos(), "%s", bad)
	} else {
		r.OKf("raw-fresh", "DecodeRawBody", fn.Pos(), "every returned body is freshly allocated")
	}
}

// freshBytes: nil, a slice literal, make(), or Bytes() of a buffer created around a make() in the
// same function.
func freshBytes(v ssa.Value, depth int) bool {
	if depth > 6 {
		return false
	}
	switch x := v.(type) {
	case *ssa.Const:
		return x.IsNil()
	case *ssa.MakeSlice:
		return true
	case *ssa.Slice:
		if a, ok := x.X.(*ssa.Alloc); ok {
			return a.Comment == "slicelit" || a.Comment == "complit" || a.Comment == "makeslice" || a.Comment == "new"
		}
		return freshBytes(x.X, depth+1)
	case *ssa.Phi:
		for _, e := range x.Edges {
			if !freshBytes(e, depth+1) {
				return false
			}
		}
		return true
	case *ssa.Call:
		f := x.Call.StaticCallee()
		if f != nil && f.String() == "(*bytes.Buffer).Bytes" {
			recv := x.Call.Args[0]
			if c, ok := recv.(*ssa.Call); ok {
				if g := c.Call.StaticCallee(); g != nil && g.String() == "bytes.NewBuffer" {
					return freshBytes(c.Call.Args[0], depth+1)
				}
			}
			if a, ok := recv.(*ssa.Alloc); ok {
				_ = a
				return true // a local bytes.Buffer value
			}
		}
	}
	return false
}

func c05Convert(p *Program, r *Report) {
	r.Floor("convert", 2)
	// ConvertFromRawFrame: DecodeBody(frame.Header, reader over frame.Body)
	fn := ssaMethod(p, "frame", "codec", "ConvertFromRawFrame")
	frame := fn.Params[1]
	bad := "no DecodeBody call"
	for _, b := range fn.Blocks {
		for _, ins := range b.Instrs {
			c, ok := ins.(*ssa.Call)
			if !ok {
				continue
			}
			if f := c.Call.StaticCallee(); f == nil || f.Name() != "DecodeBody" {
				continue
			}
			bad = ""
			if !isFieldLoad(c.Call.Args[1], frame, "Header") {
				bad = "DecodeBody is not given the raw frame's own header"
			}
			src := c.Call.Args[2]
			if mi, ok := src.(*ssa.MakeInterface); ok {
				src = mi.X
			}
			okSrc := false
			if sc, ok := src.(*ssa.Call); ok {
				if g := sc.Call.StaticCallee(); g != nil && (g.String() == "bytes.NewBuffer" || g.String() == "bytes.NewReader") && isFieldLoad(sc.Call.Args[0], frame, "Body") {
					okSrc = true
				}
			}
			if !okSrc {
				bad = "DecodeBody does not read from the raw frame's Body bytes"
			}
		}
	}
	if bad != "" {
		r.Fail("convert", "ConvertFromRawFrame", fn.Pos(), "%s", bad)
	} else {
		r.OKf("convert", "ConvertFromRawFrame", fn.Pos(), "DecodeBody(frame.Header, reader over frame.Body)")
	}
	// ConvertToRawFrame: EncodeBody(frame.Header, frame.Body, buffer); result body = buffer.Bytes(); header = frame.Header
	fn = ssaMethod(p, "frame", "codec", "ConvertToRawFrame")
	frame = fn.Params[1]
	bad = "no EncodeBody call"
	for _, b := range fn.Blocks {
		for _, ins := range b.Instrs {
			c, ok := ins.(*ssa.Call)
			if !ok {
				continue
			}
			if f := c.Call.StaticCallee(); f == nil || f.Name() != "EncodeBody" {
				continue
			}
			bad = ""
			if !isFieldLoad(c.Call.Args[1], frame, "Header") || !isFieldLoad(c.Call.Args[2], frame, "Body") {
				bad = "EncodeBody is not given the frame's own header and body"
			}
		}
	}
	if bad != "" {
		r.Fail("convert", "ConvertToRawFrame", fn.Pos(), "%s", bad)
	} else {
		r.OKf("convert", "ConvertToRawFrame", fn.Pos(), "EncodeBody(frame.Header, frame.Body, buffer)")
	}
}

func isFieldLoad(v ssa.Value, base ssa.Value, field string) bool {
	u, ok := v.(*ssa.UnOp)
	if !ok || u.Op != token.MUL {
		return false
	}
	b, fld, ok := fieldAddrOf(u.X)
	return ok && fld.Name() == field && b == base
}

// sliceLenOf: the length operand of the make([]byte, n) that produced buf (through named results
// and phis of a single allocation), or nil.
func sliceLenOf(buf ssa.Value) ssa.Value {
	switch x := buf.(type) {
	case *ssa.MakeSlice:
		return x.Len
	case *ssa.Slice:
		if x.Low == nil && x.High == nil {
			return sliceLenOf(x.X)
		}
	case *ssa.Phi:
		var res ssa.Value
		for _, e := range x.Edges {
			if k, ok := e.(*ssa.Const); ok && k.Value == nil {
				continue
			}
			l := sliceLenOf(e)
			if l == nil || res != nil && res != l {
				return nil
			}
			res = l
		}
		return res
	case *ssa.UnOp:
		// a spilled local: the single store into it
		if a, ok := x.X.(*ssa.Alloc); ok {
			if v, ok := soleStoreToAlloc(a); ok {
				return sliceLenOf(v)
			}
		}
	}
	return nil
}

// fullReads: wire data is read with calls that deliver exactly the requested number of bytes or an
// error (io.ReadFull, io.CopyN, binary.Read, bufio/bytes helpers). A bare Read may return fewer
// bytes than asked without an error - on a socket, whenever the data arrives in several pieces -
// and what was not read is then taken for the next item. Decided for every function of the given
// packages: no call of a method Read([]byte) (int, error) at all.
func fullReads(p *Program, r *Report, rule string, pkgs ...string) {
	want := map[string]bool{}
	for _, k := range pkgs {
		want[k] = true
	}
	n := 0
	for _, fn := range p.ModuleFuncs() {
		if fn.Pkg == nil || !want[shortPkg(fn.Pkg.Pkg)] {
			continue
		}
		for _, b := range fn.Blocks {
			for _, ins := range b.Instrs {
				c, ok := ins.(*ssa.Call)
				if !ok {
					continue
				}
				name, sig := "", (*types.Signature)(nil)
				if c.Call.IsInvoke() {
					name, sig = c.Call.Method.Name(), c.Call.Method.Type().(*types.Signature)
				} else if f := c.Call.StaticCallee(); f != nil && f.Signature.Recv() != nil {
					name, sig = f.Name(), f.Signature
				}
				if name != "Read" || sig == nil || sig.Params().Len() != 1 || sig.Results().Len() != 2 || !isByteSlice(sig.Params().At(0).Type()) {
					continue
				}
				n++
				r.Fail(rule, fmt.Sprintf("%s Read#%d", fnKey(fn), n), c.Pos(), "%s reads with a bare Read call, which may deliver fewer bytes than requested without an error (data arriving in several pieces on a socket): the rest is then parsed as the next item; use io.ReadFull", fn.Name())
			}
		}
	}
	if n == 0 {
		r.OKf(rule, "no-bare-read", token.NoPos, "packages %s read wire data only through exact-length reads", strings.Join(pkgs, ", "))
	}
}

// c05HeaderFieldsVerbatim: EncodeHeader writes the header's own fields: the flags byte is
// header.Flags itself (no bit added or removed on the way out), the opcode and the body length are
// the fields. A frame decoded with a flag set re-encodes to the same bytes.
func c05HeaderFieldsVerbatim(p *Program, r *Report) {
	enc := p.LookupMethod("frame", "codec", "EncodeHeader")
	pe := newPenum(p)
	for _, v := range supportedVersions(p, pe) {
		wr := runWire(p, enc, v, false, map[string]Val{"p0.Version": constVal(v, nil)})
		key := "EncodeHeader flags@" + versionLabel(v)
		bad, n := "", 0
		for _, o := range successPaths(wr.outs) {
			items := traceSeq(o.St.trace, o.St, wr.in)
			if len(items) < 2 || items[1].kind != "op" {
				continue
			}
			n++
			a := items[1].arg
			if !(a.K == KExpr && a.Key == "p0.Flags") {
				bad = fmt.Sprintf("the flags byte written is %v, not header.Flags as it stands: a flag present in a decoded header is lost or altered when the frame is encoded again (conditions {%s})", a, describeAtoms(o.St))
			}
		}
		if n == 0 {
			continue // the version has no success path (not supported)
		}
		if bad != "" {
			r.Fail("header-verbatim", key, enc.Pos(), "%s", bad)
		} else {
			r.OKf("header-verbatim", key, enc.Pos(), "flags byte = header.Flags")
		}
	}
}
