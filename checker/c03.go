package main

// C03: declared lengths equal emitted bytes.
//
//   length-vs-encode   for every message codec (discovered from message.DefaultMessageCodecs), for
//                      the envelope body (uncompressedBodyLength vs encodeBodyUncompressed) and for
//                      every Write*/LengthOf* (encode*/lengthOf*) sibling pair of message, datatype
//                      and primitive, per protocol version: on every pair of compatible success
//                      paths the byte-size form of the encoder's trace equals the linear form the
//                      length calculator returns (constants summed, symbolic terms equal)
//   bodylength-flow    Header.BodyLength is assigned the computed / produced length before the
//                      header is encoded (SSA def-use in the five encode entry points)

import (
	"fmt"
	"go/ast"
	"go/constant"
	"go/token"
	"go/types"
	"sort"
	"strings"

	"golang.org/x/tools/go/ssa"
)

func init() { register("C03", "other", checkC03) }

type wireRun struct {
	outs []*PathOut
	in   *Interp
	h    *wireHooks
}

// runWire interprets fn for one protocol version.
func runWire(p *Program, fn *types.Func, version constant.Value, byteMode bool, presets map[string]Val) *wireRun {
	h := newWireHooks(p, byteMode)
	in := newInterp(p, h)
	sig := fn.Type().(*types.Signature)
	var recv *Val
	if sig.Recv() != nil {
		r := Val{K: KExpr, Key: "recv", T: sig.Recv().Type()}
		recv = &r
	}
	pvT := p.LookupType("primitive", "ProtocolVersion").Type()
	var args []Val
	n := 0
	for i := 0; i < sig.Params().Len(); i++ {
		pt := sig.Params().At(i).Type()
		switch {
		case types.Identical(pt, pvT):
			args = append(args, constVal(version, pvT))
		case isIOType(pt):
			args = append(args, Val{K: KExpr, Key: "stream", T: pt})
		default:
			args = append(args, Val{K: KExpr, Key: "p" + itoa(n), T: pt})
			n++
		}
	}
	st := newState()
	for k, v := range presets {
		if v.K == KConst {
			st.refine[k] = v.C
		}
	}
	outs := in.RunFunc(fn, recv, args, st)
	return &wireRun{outs: outs, in: in, h: h}
}

func isIOType(t types.Type) bool {
	s := types.TypeString(t, nil)
	return s == "io.Writer" || s == "io.Reader"
}

func successPaths(outs []*PathOut) []*PathOut {
	var res []*PathOut
	for _, o := range outs {
		if o.IsErr != 1 {
			res = append(res, o)
		}
	}
	return res
}

// messageCodecs returns the codec types registered in message.DefaultMessageCodecs.
func messageCodecs(p *Program) []*types.Named {
	pk := p.Pkg("message")
	var out []*types.Named
	for _, f := range pk.Syntax {
		ast.Inspect(f, func(n ast.Node) bool {
			vs, ok := n.(*ast.ValueSpec)
			if !ok {
				return true
			}
			for i, nm := range vs.Names {
				if nm.Name != "DefaultMessageCodecs" || i >= len(vs.Values) {
					continue
				}
				cl, ok := vs.Values[i].(*ast.CompositeLit)
				if !ok {
					fatalf("anchor: message.DefaultMessageCodecs is not a composite literal")
				}
				for _, el := range cl.Elts {
					t := pk.TypesInfo.TypeOf(el)
					if nmd := namedOf(t); nmd != nil {
						out = append(out, nmd)
					}
				}
			}
			return true
		})
	}
	if len(out) == 0 {
		fatalf("anchor: message.DefaultMessageCodecs not found")
	}
	return out
}

func versionLabel(v constant.Value) string {
	i, _ := constant.Int64Val(v)
	switch i {
	case 65:
		return "D1"
	case 66:
		return "D2"
	}
	return fmt.Sprintf("v%d", i)
}

func hasVersionParam(p *Program, fn *types.Func) bool {
	pvT := p.LookupType("primitive", "ProtocolVersion").Type()
	sig := fn.Type().(*types.Signature)
	for i := 0; i < sig.Params().Len(); i++ {
		if types.Identical(sig.Params().At(i).Type(), pvT) {
			return true
		}
	}
	return false
}

// compareLengthVsEncode checks one (encoder, length calculator) pair for one version.
func compareLengthVsEncode(p *Program, r *Report, rule, key string, enc, length *types.Func, v constant.Value, byteMode bool, presets map[string]Val) {
	er := runWire(p, enc, v, byteMode, presets)
	lr := runWire(p, length, v, byteMode, presets)
	und := append(append([]string{}, er.in.Undecided...), lr.in.Undecided...)
	if len(und) > 0 {
		r.Fail(rule, key, enc.Pos(), "undecided: %s", strings.Join(und, "; "))
		return
	}
	es, ls := successPaths(er.outs), successPaths(lr.outs)
	if len(es) == 0 && len(ls) == 0 {
		r.OKf(rule, key, enc.Pos(), "neither function has a success path for this version (the notation does not exist there)")
		return
	}
	if len(es) == 0 || len(ls) == 0 {
		r.Fail(rule, key, enc.Pos(), "success paths: encoder %d, length calculator %d - one of them rejects what the other accepts", len(es), len(ls))
		return
	}
	type lform struct {
		st   *State
		form *Form
		bad  string
	}
	var lfs []lform
	for _, l := range ls {
		if len(l.Ret) == 0 {
			continue
		}
		lv := lr.in.resolve(l.Ret[0], l.St)
		lin, ok := asLin(lv)
		if !ok {
			lfs = append(lfs, lform{l.St, nil, "?(" + lv.String() + ")"})
			continue
		}
		lfs = append(lfs, lform{l.St, lr.in.formFromLin(lin), ""})
	}
	pairs := 0
	for _, e := range es {
		ef := er.h.traceForm(e.St.trace, e.St, er.in)
		for _, l := range lfs {
			if !atomsCompatible(e.St, l.st) {
				continue
			}
			pairs++
			if l.form == nil {
				r.Fail(rule, key, enc.Pos(), "%s returns a length the analysis cannot express (%s) under {%s}", length.Name(), l.bad, describeAtoms(l.st))
				return
			}
			if ok, why := formsAgreeUnder(ef, l.form, e.St, l.st); !ok {
				r.Fail(rule, key, enc.Pos(), "encoder writes [%s] bytes but %s reports [%s]: %s; under {%s} / {%s}", ef, length.Name(), l.form, why, describeAtoms(e.St), describeAtoms(l.st))
				return
			}
		}
	}
	if pairs == 0 {
		r.Fail(rule, key, enc.Pos(), "no compatible path pair between encoder and length calculator")
		return
	}
	r.OKf(rule, key, enc.Pos(), "%d encoder paths x %d length paths: %d compatible pairs agree", len(es), len(ls), pairs)
}

func checkC03(p *Program, r *Report) {
	r.Explanation = "For every encoder / length-calculator sibling pair (17 registered message codecs, the envelope body, and the Write*/LengthOf* pairs of message, datatype and primitive) and every supported protocol version, an abstract interpreter enumerates the success paths of both functions (version predicates evaluated, Flags() inlined, validity checks as finite constraints, loops summarised) and compares, on every compatible pair of paths, the byte-size linear form of the encoder's write trace with the linear form returned by the length calculator. Header.BodyLength def-use is checked on SSA. Decides agreement of declared and emitted lengths structurally; does not decide that len(s) fits its prefix width nor the vint length formula."
	r.Trusted = []string{"absint evaluator (checker/ai*.go)", "primitive.LengthOf<Kind> constants as the fixed sizes of byte/short/int/long/uuid", "go/ssa for the BodyLength def-use"}
	r.Assumptions = []string{"a successful path of an atom (primitive.WriteX) writes exactly the bytes LengthOfX reports - verified separately at byte level for each primitive pair in this same check"}
	pe := newPenum(p)
	vers := supportedVersions(p, pe)
	r.Floor("length-vs-encode", 150)

	// (a) registered message codecs
	codecs := messageCodecs(p)
	if len(codecs) < 17 {
		fatalf("expected >= 17 registered codecs, found %d", len(codecs))
	}
	r.Extra["registered_codecs"] = len(codecs)
	for _, ct := range codecs {
		enc := methodOfNamed(ct, "Encode")
		length := methodOfNamed(ct, "EncodedLength")
		if enc == nil || length == nil {
			r.Fail("length-vs-encode", ct.Obj().Name(), ct.Obj().Pos(), "codec lacks Encode/EncodedLength")
			continue
		}
		for _, v := range vers {
			compareLengthVsEncode(p, r, "length-vs-encode", fmt.Sprintf("%s@%s", ct.Obj().Name(), versionLabel(v)), enc, length, v, false, nil)
		}
	}
	// (b) envelope body
	encB := p.LookupMethod("frame", "codec", "encodeBodyUncompressed")
	lenB := p.LookupMethod("frame", "codec", "uncompressedBodyLength")
	for _, v := range vers {
		compareLengthVsEncode(p, r, "length-vs-encode", "frame.body@"+versionLabel(v), encB, lenB, v, false, map[string]Val{"p0.Version": constVal(v, nil)})
	}
	// (c) sibling pairs by stem
	for _, short := range []string{"message", "datatype"} {
		for _, pr := range siblingPairs(p, short) {
			if hasVersionParam(p, pr[0]) {
				for _, v := range vers {
					compareLengthVsEncode(p, r, "length-vs-encode", fmt.Sprintf("%s.%s@%s", short, pr[0].Name(), versionLabel(v)), pr[0], pr[1], v, false, nil)
				}
			} else {
				compareLengthVsEncode(p, r, "length-vs-encode", fmt.Sprintf("%s.%s", short, pr[0].Name()), pr[0], pr[1], vers[0], false, nil)
			}
		}
	}
	// (d) primitive notations at byte level
	r.Floor("primitive-length", 14)
	for _, pr := range siblingPairs(p, "primitive") {
		if strings.Contains(pr[0].Name(), "Vint") {
			// the vint length is a numeric formula of the value (leading zeros), not a shape:
			// declined (DESIGN C03 'not covered')
			continue
		}
		if hasVersionParam(p, pr[0]) || hasVersionParam(p, pr[1]) {
			for _, v := range vers {
				compareLengthVsEncode(p, r, "primitive-length", fmt.Sprintf("primitive.%s@%s", pr[0].Name(), versionLabel(v)), pr[0], pr[1], v, true, nil)
			}
		} else {
			compareLengthVsEncode(p, r, "primitive-length", "primitive."+pr[0].Name(), pr[0], pr[1], vers[0], true, nil)
		}
	}
	c03BodyLengthFlow(p, r)
	fullReads(p, r, "full-reads", "frame", "primitive", "message", "datatype", "compression/lz4", "compression/snappy")
	c05RawCount(p, r) // raw bodies are consumed by exactly header.BodyLength bytes (shared with C05)
	c03DecompressConsumes(p, r)
	c03LimitReaderContext(p, r)
}

func methodOfNamed(n *types.Named, name string) *types.Func {
	obj, _, _ := types.LookupFieldOrMethod(types.NewPointer(n), true, n.Obj().Pkg(), name)
	f, _ := obj.(*types.Func)
	return f
}

// siblingPairs finds (writer, length calculator) function pairs by stem.
func siblingPairs(p *Program, short string) [][2]*types.Func {
	scope := p.Pkg(short).Types.Scope()
	lens := map[string]*types.Func{}
	var names []string
	for _, n := range scope.Names() {
		if f, ok := scope.Lookup(n).(*types.Func); ok {
			low := strings.ToLower(n)
			if strings.HasPrefix(low, "lengthof") {
				lens[low[len("lengthof"):]] = f
			}
			names = append(names, n)
		}
	}
	var out [][2]*types.Func
	sort.Strings(names)
	for _, n := range names {
		f := scope.Lookup(n).(*types.Func)
		low := strings.ToLower(n)
		for _, pre := range []string{"write", "encode"} {
			if strings.HasPrefix(low, pre) {
				if l, ok := lens[low[len(pre):]]; ok {
					out = append(out, [2]*types.Func{f, l})
				}
			}
		}
	}
	return out
}

// c03BodyLengthFlow: in every function that calls EncodeHeader, the last store to
// Header.BodyLength before the call comes from the computed body length or from the length of the
// bytes that are then written.
func c03BodyLengthFlow(p *Program, r *Report) {
	r.Floor("bodylength-flow", 3)
	for _, fn := range p.ModuleFuncs() {
		pk := fn.Package()
		if pk == nil || shortPkg(pk.Pkg) != "frame" {
			continue
		}
		callsEncodeHeader := false
		for _, b := range fn.Blocks {
			for _, ins := range b.Instrs {
				if c, ok := ins.(ssa.CallInstruction); ok {
					if c.Common().IsInvoke() && c.Common().Method.Name() == "EncodeHeader" {
						callsEncodeHeader = true
					}
					if f := c.Common().StaticCallee(); f != nil && f.Name() == "EncodeHeader" {
						callsEncodeHeader = true
					}
				}
			}
		}
		// an entry point that encodes a header it did not receive ready-made (it takes a frame or a
		// raw frame, not a bare *Header) must set BodyLength itself before encoding the header
		if callsEncodeHeader && fn.Name() != "EncodeHeader" && fn.Signature.Recv() != nil {
			takesFrame := false
			for _, pp := range fn.Params {
				ts := types.TypeString(pp.Type(), relQual)
				if ts == "*frame.Frame" || ts == "*frame.RawFrame" {
					takesFrame = true
				}
			}
			if takesFrame {
				stores := false
				for _, b := range fn.Blocks {
					for _, ins := range b.Instrs {
						if st, ok := ins.(*ssa.Store); ok {
							if _, fld, ok := fieldAddrOf(st.Addr); ok && fld.Name() == "BodyLength" {
								stores = true
							}
						}
					}
				}
				// delegation to a sibling that does it (EncodeFrame -> encodeFrameCompressed/...)
				delegates := false
				for _, b := range fn.Blocks {
					for _, ins := range b.Instrs {
						if ci, ok := ins.(ssa.CallInstruction); ok {
							if g := ci.Common().StaticCallee(); g != nil && g.Pkg == fn.Pkg && g != fn && strings.Contains(strings.ToLower(g.Name()), "encodeframe") {
								delegates = true
							}
						}
					}
				}
				skey := fnKey(fn) + " sets BodyLength"
				if stores || delegates {
					r.OKf("bodylength-flow", skey, fn.Pos(), "the declared length is (re)computed before the header is encoded")
				} else {
					r.Fail("bodylength-flow", skey, fn.Pos(), "%s encodes the header of a frame without setting Header.BodyLength to the length of the body it then writes: a body changed since the header was filled in goes out under a stale length and every following frame on the stream is misparsed", fn.Name())
				}
			}
		}
		for _, b := range fn.Blocks {
			for _, ins := range b.Instrs {
				st, ok := ins.(*ssa.Store)
				if !ok {
					continue
				}
				_, fld, ok := fieldAddrOf(st.Addr)
				if !ok || fld.Name() != "BodyLength" {
					continue
				}
				if !callsEncodeHeader && fn.Name() != "ConvertToRawFrame" {
					continue
				}
				key := fnKey(fn) + " BodyLength"
				src := st.Val
				for {
					if cv, ok := src.(*ssa.Convert); ok {
						src = cv.X
						continue
					}
					break
				}
				why := ""
				switch x := src.(type) {
				case *ssa.Call:
					if bi, ok := x.Call.Value.(*ssa.Builtin); ok && bi.Name() == "len" {
						why = "len(" + x.Call.Args[0].Name() + ") of the bytes written as the body"
					} else if f := x.Call.StaticCallee(); f != nil && (f.Name() == "Len") {
						why = "Len() of the buffer holding the encoded body"
					}
				case *ssa.Extract:
					if c, ok := x.Tuple.(*ssa.Call); ok {
						if f := c.Call.StaticCallee(); f != nil && f.Name() == "uncompressedBodyLength" {
							why = "the computed uncompressed body length"
						}
					}
				case *ssa.Const:
					if x.Value != nil && x.Value.Kind() == constant.Int && constant.Sign(x.Value) == 0 && fn.Name() == "NewFrame" {
						why = "initial zero (set when encoding)"
					}
				}
				if why == "" {
					r.Fail("bodylength-flow", key, st.Pos(), "Header.BodyLength is assigned %s, which is neither the computed body length nor the length of the bytes emitted as the body", describeVal(st.Val))
				} else {
					r.OKf("bodylength-flow", key, st.Pos(), "assigned %s", why)
				}
			}
		}
	}
}

var _ = token.ADD

// c03DecompressConsumes: the frame decoder hands the decompressor exactly the declared body
// (io.LimitReader(source, BodyLength)); for the next frame to start at the right offset every
// successful DecompressWithLength path must consume what the matching CompressWithLength wrote:
// after the optional length prefix it must perform at least one further read (a drain of the
// source or a fixed-size discard) - a path that returns after the prefix alone leaves body bytes
// on the stream.
func c03DecompressConsumes(p *Program, r *Report) {
	r.Floor("decompress-consumes", 2)
	for _, short := range []string{"compression/lz4", "compression/snappy"} {
		tn := p.LookupType(short, "Compressor")
		fn := methodOfNamed(tn.Type().(*types.Named), "DecompressWithLength")
		if fn == nil {
			fatalf("anchor: %s.Compressor.DecompressWithLength", short)
		}
		h := newWireHooks(p, true)
		in := newInterp(p, h)
		recv := Val{K: KExpr, Key: "recv"}
		// call context: frame.DecodeBody passes io.LimitReader(source, BodyLength) (checked below)
		limited := types.NewPointer(p.stdType("io", "LimitedReader"))
		outs := in.RunFunc(fn, &recv, []Val{{K: KExpr, Key: "source", DynT: limited}, {K: KExpr, Key: "dest"}}, nil)
		key := short + ".DecompressWithLength"
		bad := ""
		n := 0
		for _, o := range outs {
			if o.IsErr == 1 {
				continue
			}
			n++
			reads := 0
			var names []string
			var walk func(tr []*Sym)
			walk = func(tr []*Sym) {
				for _, s := range tr {
					switch {
					case s.Kind == "op" && strings.HasPrefix(s.Extra, "r"):
						reads++
						names = append(names, s.Name)
					case s.Kind == "ext" && (strings.HasSuffix(s.Name, ".ReadFrom") || s.Name == "io.CopyN" || s.Name == "io.Copy" || s.Name == "io.ReadAll" || s.Name == "io/ioutil.ReadAll"):
						reads++
						names = append(names, s.Name)
					case s.Kind == "loop":
						for _, b := range s.Body {
							walk(b.St.trace)
						}
					}
				}
			}
			walk(o.St.trace)
			hasPrefix := len(names) > 0 && strings.HasPrefix(names[0], "fixed")
			if reads == 0 || (hasPrefix && reads < 2) {
				bad = fmt.Sprintf("a success path reads only %v from the source and returns (conditions {%s}): the rest of the declared body stays on the stream and the next frame is misread", names, describeAtoms(o.St))
			}
		}
		if n == 0 {
			bad = "no success path"
		}
		if bad != "" {
			r.Fail("decompress-consumes", key, fn.Pos(), "%s", bad)
		} else {
			r.OKf("decompress-consumes", key, fn.Pos(), "%d success paths each read past the length prefix", n)
		}
	}
}

// stdType looks up a type of an imported (non-module) package.
func (p *Program) stdType(path, name string) types.Type {
	for _, pk := range p.All {
		if pk.PkgPath == path {
			if tn, ok := pk.Types.Scope().Lookup(name).(*types.TypeName); ok {
				return tn.Type()
			}
		}
	}
	fatalf("anchor: type %s.%s not loaded", path, name)
	return nil
}

// c03LimitReaderContext: every DecompressWithLength call in package frame receives
// io.LimitReader(source, int64(header.BodyLength)).
func c03LimitReaderContext(p *Program, r *Report) {
	n := 0
	for _, fn := range p.ModuleFuncs() {
		pk := fn.Package()
		if pk == nil || shortPkg(pk.Pkg) != "frame" {
			continue
		}
		for _, b := range fn.Blocks {
			for _, ins := range b.Instrs {
				c, ok := ins.(*ssa.Call)
				if !ok || !c.Call.IsInvoke() || c.Call.Method.Name() != "DecompressWithLength" {
					continue
				}
				n++
				key := fnKey(fn) + " DecompressWithLength source"
				src := c.Call.Args[0]
				if mi, ok := src.(*ssa.MakeInterface); ok {
					src = mi.X
				}
				call, ok := src.(*ssa.Call)
				okArg := false
				if ok {
					if f := call.Call.StaticCallee(); f != nil && f.String() == "io.LimitReader" {
						lim := call.Call.Args[1]
						if cv, ok := lim.(*ssa.Convert); ok {
							lim = cv.X
						}
						if u, ok := lim.(*ssa.UnOp); ok {
							if _, fld, ok := fieldAddrOf(u.X); ok && fld.Name() == "BodyLength" {
								okArg = true
							}
						}
					}
				}
				if okArg {
					r.OKf("compressed-body-bounded", key, c.Pos(), "compressed body is read through io.LimitReader(source, header.BodyLength)")
				} else {
					r.Fail("compressed-body-bounded", key, c.Pos(), "the decompressor is not handed io.LimitReader(source, header.BodyLength): it may read beyond (or short of) the declared body")
				}
			}
		}
	}
	if n == 0 {
		fatalf("anchor: no DecompressWithLength call found in package frame")
	}
}
