package main

// C12: the serialization format of CQL values, decided structurally against spec/values.grammar.
//
//   codec-map         NewCodec maps every data type code to a codec; the concrete codec type is
//                     resolved through the package initialisers (SSA)
//   value-layout      per scalar CQL type and direction: the bytes Encode returns, as a canonical
//                     provenance expression over the converted value V (width, byte order, IEEE
//                     bits, 2^31 offset, component order), and the value Decode hands to the
//                     destination conversion as an expression over the source bytes S with its
//                     length guards, equal the specification's layout
//   container-layout  per container type and protocol version: the primitive write/read traces of
//                     the container writers/readers (abstract interpretation) equal the
//                     specification's layout, the loop is counted by the written/read count
//   count-guard       the element count is range-checked against the width of the count field
//
// Not decided: the arithmetic inside writeBigInt/readBigInt and the vint coder (value-level).

import (
	"fmt"
	"go/constant"
	"go/token"
	"go/types"
	"os"
	"path/filepath"
	"regexp"
	"sort"
	"strings"

	"golang.org/x/tools/go/ssa"
)

func init() { register("C12", "other", checkC12) }

type valueSpec struct {
	layout string            // scalar layout tokens
	byVer  map[string]string // container layouts per version label
	line   int
}

func loadValueSpec() map[string]*valueSpec {
	path := filepath.Join(verifDir(), "spec", "values.grammar")
	data, err := os.ReadFile(path)
	if err != nil {
		fatalf("cannot read %s: %v", path, err)
	}
	out := map[string]*valueSpec{}
	var cur *valueSpec
	for i, line := range strings.Split(string(data), "\n") {
		if j := strings.Index(line, "#"); j >= 0 {
			line = line[:j]
		}
		if strings.TrimSpace(line) == "" {
			continue
		}
		rest := line
		if j := strings.Index(line, ":="); j >= 0 {
			name := strings.TrimSpace(line[:j])
			cur = &valueSpec{byVer: map[string]string{}, line: i + 1}
			out[name] = cur
			rest = line[j+2:]
		}
		if cur == nil {
			continue
		}
		rest = strings.TrimSpace(rest)
		if strings.HasPrefix(rest, "@") {
			k := strings.Index(rest, ":")
			vs, lay := rest[1:k], strings.Join(strings.Fields(rest[k+1:]), " ")
			for _, v := range expandVersionSpec(vs) {
				cur.byVer[v] = lay
			}
		} else {
			cur.layout = strings.Join(strings.Fields(rest), " ")
		}
	}
	return out
}

func expandVersionSpec(s string) []string {
	all := []string{"v2", "v3", "v4", "v5", "D1", "D2"}
	s = strings.TrimSpace(s)
	if strings.HasSuffix(s, "+") {
		from := "v" + strings.TrimSuffix(s, "+")
		for i, v := range all {
			if v == from {
				return all[i:]
			}
		}
		return nil
	}
	var out []string
	for _, p := range strings.Split(s, ",") {
		p = strings.TrimSpace(p)
		if !strings.HasPrefix(p, "D") {
			p = "v" + p
		}
		out = append(out, p)
	}
	return out
}

// scalarTemplates: the specification's layout tokens in the vocabulary of the provenance printer.
// V is the converted Go value, S the source bytes.
var scalarTemplates = map[string][2]string{
	"i64":                                 {"be64(V)@8", "be64(S){len(S)==8}"},
	"i32":                                 {"be32(V)@4", "be32(S){len(S)==4}"},
	"i16":                                 {"be16(V)@2", "be16(S){len(S)==2}"},
	"i8":                                  {"u8(V)", "S[0]{len(S)==1}"},
	"bool8":                               {"u8(k:0) | u8(k:1)", "(S[0] != k:0){len(S)==1}"},
	"f64":                                 {"be64(ieee(V))@8", "ieee⁻¹(be64(S)){len(S)==8}"},
	"f32":                                 {"be32(ieee(V))@4", "ieee⁻¹(be32(S)){len(S)==4}"},
	"u32(days+2^31)":                      {"be32(flip31(V))@4", "flip31(be32(S)){len(S)==4}"},
	"i32(scale) varint(unscaled)":         {"be32(V.Scale)@4 varint(V.Unscaled)", "{Unscaled: varint⁻¹(S[4:]), Scale: be32(S)}{len(S)>4}"},
	"vint(months) vint(days) vint(nanos)": {"vint(V.Months) vint(V.Days) vint(V.Nanos)", "{Months: vint@1(S), Days: vint@2(S), Nanos: vint@3(S)}"},
	"raw(*)":                              {"raw(V)", "S"},
	"raw(16)":                             {"raw(V)", "S{len(S)==16}"},
	"raw(4) | raw(16)":                    {"raw((net.IP).To4(V)) | raw(V)", "(net.IP).To4(net.IPv4(S[0], S[1], S[2], S[3])){len(S)==4} | S{len(S)==16}"},
	"varint":                              {"varint(V)", "varint⁻¹(S)"},
}

var guardRe = regexp.MustCompile(`\{len\([^{}]*\}`)
var truncRe = regexp.MustCompile(`trunc[0-9]+\(`)

// normLayout brings a provenance expression into comparison form: per alternative, the expression
// without guards plus the sorted set of its length guards (the null test len!=0 and inequalities
// made redundant by an equality are dropped).
func normLayout(s string) string {
	s = strings.ReplaceAll(s, "$source", "S")
	s = strings.ReplaceAll(s, " | global:zeroBigInt", "") // a nil unscaled value is written as zero
	// raw(a | b) => raw(a) | raw(b)
	if strings.HasPrefix(s, "raw(") && strings.HasSuffix(s, ")") && len(splitAlts(s)) == 1 {
		inner := splitAlts(s[4 : len(s)-1])
		if len(inner) > 1 {
			for i := range inner {
				inner[i] = "raw(" + inner[i] + ")"
			}
			s = strings.Join(inner, " | ")
		}
	}
	var outs []string
	for _, a := range splitAlts(s) {
		gs := map[string]bool{}
		for _, g := range guardRe.FindAllString(a, -1) {
			for _, c := range strings.Split(strings.Trim(g, "{}"), ",") {
				gs[c] = true
			}
		}
		a = guardRe.ReplaceAllString(a, "")
		// strip truncN( ... ) wrappers: range checks are C13's subject
		for {
			loc := truncRe.FindStringIndex(a)
			if loc == nil {
				break
			}
			depth, end := 0, -1
			for i := loc[1] - 1; i < len(a); i++ {
				if a[i] == '(' {
					depth++
				} else if a[i] == ')' {
					depth--
					if depth == 0 {
						end = i
						break
					}
				}
			}
			if end < 0 {
				break
			}
			a = a[:loc[0]] + a[loc[1]:end] + a[end+1:]
		}
		hasEq := false
		for g := range gs {
			if strings.Contains(g, "==") {
				hasEq = true
			}
		}
		var gl []string
		for g := range gs {
			if strings.HasSuffix(g, "!=0") || hasEq && strings.Contains(g, "!=") {
				continue
			}
			gl = append(gl, g)
		}
		sort.Strings(gl)
		if len(gl) > 0 {
			a += "{" + strings.Join(gl, ",") + "}"
		}
		outs = append(outs, a)
	}
	sort.Strings(outs)
	return strings.Join(outs, " | ")
}

func checkC12(p *Program, r *Report) {
	r.Explanation = "The serialization formats of spec/values.grammar (transcribed from the protocol specifications, with section references) are compared with the code per CQL type: NewCodec is resolved to the concrete codec of every data type code; for scalar types the bytes returned by Encode and the value Decode hands to the destination conversion are rendered as canonical provenance expressions (width and count of bytes, byte order, IEEE-754 bit casts, the 2^31 date offset, order of components, length guards) by an inter-procedural walk over go/ssa and must equal the specification's layout; for lists, sets, maps, tuples and UDTs the primitive write/read traces of the container writers and readers are extracted per protocol version by abstract interpretation and must equal the specification's layout, including the link between the count field and the loop. Decides the format structurally; does not decide value-level arithmetic (minimal two's-complement varint, vint zig-zag), which no static argument in reach covers."
	r.Trusted = []string{"spec/values.grammar as transcribed", "go/ssa", "absint evaluator (container traces)", "encoding/binary, math.Float*bits"}
	spec := loadValueSpec()
	r.Floor("codec-map", 25)
	r.Floor("value-layout", 40)
	r.Floor("container-layout", 40)

	// ---- codec-map
	codecOf := c12CodecMap(p, r, spec)

	// ---- value-layout
	done := map[string]bool{}
	var names []string
	for n := range codecOf {
		names = append(names, n)
	}
	sort.Strings(names)
	containers := map[string]bool{"list": true, "set": true, "map": true, "tuple": true, "udt": true}
	for _, cql := range names {
		if containers[cql] {
			continue
		}
		sp := spec[cql]
		if sp == nil {
			continue // reported by codec-map
		}
		tmpl, ok := scalarTemplates[sp.layout]
		if !ok {
			r.Fail("value-layout", cql, token.NoPos, "spec/values.grammar:%d: layout %q has no template in the checker", sp.line, sp.layout)
			continue
		}
		for _, T := range codecOf[cql] {
			enc, dec := c12Render(p, T)
			_ = done
			wantE, wantD := normLayout(tmpl[0]), normLayout(tmpl[1])
			gotE, gotD := normLayout(enc), normLayout(dec)
			em := p.SSA().FuncValue(methodOfNamed(T, "Encode"))
			dm := p.SSA().FuncValue(methodOfNamed(T, "Decode"))
			if gotE == wantE {
				r.OKf("value-layout", cql+" encode", em.Pos(), "%s writes %s = specification %q", T.Obj().Name(), gotE, sp.layout)
			} else {
				r.Fail("value-layout", cql+" encode", em.Pos(), "%s.Encode produces the bytes  %s  but the specification's layout for %s (%s, spec/values.grammar:%d) is  %s", T.Obj().Name(), gotE, cql, sp.layout, sp.line, wantE)
			}
			if gotD == wantD {
				r.OKf("value-layout", cql+" decode", dm.Pos(), "%s reads %s = specification %q", T.Obj().Name(), gotD, sp.layout)
			} else {
				r.Fail("value-layout", cql+" decode", dm.Pos(), "%s.Decode interprets the bytes as  %s  but the specification's layout for %s (%s, spec/values.grammar:%d) is  %s", T.Obj().Name(), gotD, cql, sp.layout, sp.line, wantD)
			}
		}
	}

	// ---- the notations CQL values are built from ([bytes], [short bytes], counts)
	primitiveLayout(p, r, "notation-layout", 4, map[string]bool{"bytes": true, "shortbytes": true, "int": true, "short": true})

	// ---- v2 cannot express a NULL element: exactly nil is refused, an empty element is written
	v2ElementGuard(p, r, "v2-null-refusal")

	// ---- container-layout
	pe := newPenum(p)
	vers := supportedVersions(p, pe)
	for _, cql := range names {
		if !containers[cql] {
			continue
		}
		sp := spec[cql]
		if sp == nil {
			continue
		}
		for _, T := range codecOf[cql] {
			for _, dir := range []string{"Encode", "Decode"} {
				m := p.SSA().FuncValue(methodOfNamed(T, dir))
				var io []*ssa.Function
				for _, b := range m.Blocks {
					for _, ins := range b.Instrs {
						if c, ok := ins.(*ssa.Call); ok {
							if f := c.Call.StaticCallee(); f != nil && f.Pkg != nil && shortPkg(f.Pkg.Pkg) == "datacodec" && f.Signature.Recv() == nil && (strings.HasPrefix(f.Name(), "write") || strings.HasPrefix(f.Name(), "read")) {
								io = append(io, f)
							}
						}
					}
				}
				if len(io) != 1 {
					r.Fail("container-layout", fmt.Sprintf("%s %s", cql, strings.ToLower(dir)), m.Pos(), "%s.%s calls %d container writers/readers, expected exactly one", T.Obj().Name(), dir, len(io))
					continue
				}
				fnObj := io[0].Object().(*types.Func)
				for _, v := range vers {
					ver := versionLabel(v)
					key := fmt.Sprintf("%s %s @%s", cql, strings.ToLower(dir), ver)
					want, ok := sp.byVer[ver]
					if !ok {
						r.Fail("container-layout", key, fnObj.Pos(), "spec/values.grammar:%d has no layout of %s for %s", sp.line, cql, ver)
						continue
					}
					wr := runWire(p, fnObj, v, false, nil)
					if len(wr.in.Undecided) > 0 {
						r.Fail("container-layout", key, fnObj.Pos(), "undecided: %s", strings.Join(dedupStrings(wr.in.Undecided), "; "))
						continue
					}
					got := map[string]bool{}
					guards := true
					for _, o := range successPaths(wr.outs) {
						if dir == "Decode" {
							// every element / field position is injected: no successful early exit from
							// the loop, exactly one setElem per completed iteration
							for _, sy := range o.St.trace {
								if sy.Kind != "loop" {
									continue
								}
								for _, bo := range sy.Body {
									if bo.IsErr == 1 {
										continue
									}
									nSet := 0
									for _, t := range bo.St.trace {
										if t.Kind == "dyn" && strings.HasSuffix(t.Name, ".setElem") {
											nSet++
										}
									}
									ik := fmt.Sprintf("%s inject @%s", cql, ver)
									switch {
									case bo.Ctl == "break":
										r.Fail("every-position-injected", ik, fnObj.Pos(), "%s can leave its loop early without an error (conditions {%s}): the remaining positions of the destination are never assigned - a reused destination keeps stale values and an untyped one lacks the keys", fnObj.Name(), describeAtoms(bo.St))
									case bo.Ctl == "next" && nSet != 1:
										r.Fail("every-position-injected", ik, fnObj.Pos(), "an iteration of %s completes with %d calls of setElem (conditions {%s}); each position must be injected exactly once, NULL included", fnObj.Name(), nSet, describeAtoms(bo.St))
									default:
										r.OKf("every-position-injected", ik, fnObj.Pos(), "each completed iteration injects its position once; no early exit without error")
									}
								}
							}
						}
						got[c12TraceString(fnObj, o.St.trace, o.St, wr.in)] = true
						if dir == "Encode" && strings.HasPrefix(want, "n:") {
							if !c12CountGuarded(o.St, want) {
								guards = false
							}
						}
					}
					var gl []string
					for g := range got {
						gl = append(gl, g)
					}
					sort.Strings(gl)
					if len(gl) == 1 && (gl[0] == want || dir == "Encode" && gl[0] == writerSubset(want)) {
						r.OKf("container-layout", key, fnObj.Pos(), "%s: %s", fnObj.Name(), want)
					} else {
						r.Fail("container-layout", key, fnObj.Pos(), "%s %s  %s  in %s but the specification's layout of a %s is  %s  (spec/values.grammar:%d)", fnObj.Name(), map[string]string{"Encode": "writes", "Decode": "reads"}[dir], strings.Join(gl, "  or  "), ver, cql, want, sp.line)
					}
					if dir == "Encode" && strings.HasPrefix(want, "n:") {
						gk := fmt.Sprintf("%s @%s", cql, ver)
						if guards {
							r.OKf("count-guard", gk, fnObj.Pos(), "every success path has checked the element count against the range of the count field")
						} else {
							r.Fail("count-guard", gk, fnObj.Pos(), "%s can write an element count that does not fit the %s count field of %s (no range check on a success path): the count would wrap", fnObj.Name(), strings.TrimPrefix(strings.Fields(want)[0], "n:"), ver)
						}
					}
				}
			}
		}
	}
}

// writerSubset: a writer need not produce the optional alternatives ( x / ε ) a reader must accept.
func writerSubset(want string) string { return strings.ReplaceAll(want, " / ε", "") }

// c12CountGuarded: the success path carries "count > max" = false and "count < 0" = false.
func c12CountGuarded(st *State, want string) bool {
	max := "0x7fffffff"
	if strings.HasPrefix(want, "n:short") {
		max = "0xffff"
	}
	hi, lo := false, false
	for a, pol := range st.atoms {
		if strings.HasSuffix(a, " > "+max) && !pol {
			hi = true
		}
		if strings.HasPrefix(a, "neg(") && !pol {
			lo = true
		}
	}
	return hi && lo
}

// c12TraceString renders a container writer/reader trace in the notation of values.grammar.
func c12TraceString(fn *types.Func, tr []*Sym, st *State, in *Interp) string {
	sig := fn.Type().(*types.Signature)
	// names of the canonical parameters (p0, p1, ...) whose type is a slice of codecs
	fields := map[string]bool{}
	n := 0
	pvT := in.P.LookupType("primitive", "ProtocolVersion").Type()
	for i := 0; i < sig.Params().Len(); i++ {
		pt := sig.Params().At(i).Type()
		if types.Identical(pt, pvT) || isIOType(pt) {
			continue
		}
		if sl, ok := pt.Underlying().(*types.Slice); ok {
			if nm, ok := sl.Elem().(*types.Named); ok && nm.Obj().Name() == "Codec" {
				fields["p"+itoa(n)] = true
			}
		}
		n++
	}
	var parts []string
	var lastCount *Sym
	var render func(tr []*Sym, st *State) []string
	render = func(tr []*Sym, st *State) []string {
		var out []string
		for _, s := range tr {
			switch s.Kind {
			case "op":
				out = append(out, s.Name)
				lastCount = s
			case "loop":
				countOp := lastCount
				bodies := map[string]bool{}
				for _, b := range s.Body {
					if b.Ctl == "return" || b.IsErr == 1 {
						continue
					}
					body := strings.Join(render(b.St.trace, b.St), " ")
					if body == "" {
						body = "ε"
					}
					bodies[body] = true
				}
				var bl []string
				for b := range bodies {
					bl = append(bl, b)
				}
				sort.Strings(bl)
				head := "?" + s.Key
				// an index loop bounded by len(<codecs>) is keyed "lin(0 + len(pN))"
				lk := s.Key
				if strings.HasPrefix(lk, "lin(0 + len(") && strings.HasSuffix(lk, "))") {
					lk = strings.TrimSuffix(strings.TrimPrefix(lk, "lin(0 + len("), "))")
				} else if strings.HasPrefix(lk, "len(") && strings.HasSuffix(lk, ")") {
					lk = strings.TrimSuffix(strings.TrimPrefix(lk, "len("), ")")
				}
				switch {
				case fields[s.Key] || fields[lk]:
					head = "fields"
				case len(out) > 0 && countOp != nil:
					cnt := out[len(out)-1]
					linked := false
					if strings.HasPrefix(countOp.Extra, "w") {
						linked = nameOf(in.resolve(countOp.Arg, st)) == s.Key
					} else {
						linked = s.Key == fmt.Sprintf("s%d", countOp.ID)
					}
					if linked {
						out = out[:len(out)-1]
						head = "n:" + cnt
					}
				}
				out = append(out, fmt.Sprintf("%s * ( %s )", head, strings.Join(bl, " / ")))
			}
		}
		return out
	}
	parts = render(tr, st)
	return strings.Join(parts, " ")
}

// c12Render: canonical layout of Encode's result and of the value Decode passes to convertFrom*.
func c12Render(p *Program, T *types.Named) (enc, dec string) {
	leaf := func(f *ssa.Function) (string, bool) {
		if strings.HasPrefix(f.Name(), "convertTo") {
			return "V", true
		}
		return "", false
	}
	em := p.SSA().FuncValue(methodOfNamed(T, "Encode"))
	ctx := &provCtx{p: p, env: map[*ssa.Parameter]string{}, seen: map[ssa.Value]bool{}, leaf: leaf, keepZeros: true}
	var as []string
	for _, b := range em.Blocks {
		if ret, ok := b.Instrs[len(b.Instrs)-1].(*ssa.Return); ok {
			if k, ok := ret.Results[0].(*ssa.Const); ok && k.Value == nil {
				continue
			}
			as = append(as, ctx.bytesOf(ret.Results[0]))
		}
	}
	enc = alts(as)
	dm := p.SSA().FuncValue(methodOfNamed(T, "Decode"))
	ctx = &provCtx{p: p, env: map[*ssa.Parameter]string{}, seen: map[ssa.Value]bool{}, leaf: leaf}
	var ds []string
	for _, b := range dm.Blocks {
		for _, ins := range b.Instrs {
			if c, ok := ins.(*ssa.Call); ok {
				if f := c.Call.StaticCallee(); f != nil && strings.HasPrefix(f.Name(), "convertFrom") {
					ds = append(ds, ctx.val(c.Call.Args[0]))
				}
			}
		}
	}
	if len(ds) == 0 {
		dec = "?no destination conversion"
	} else {
		dec = alts(ds)
	}
	return
}

// c12CodecMap resolves NewCodec: data type code -> concrete codec types. Keys are CQL type names
// (lower-cased constant names without the DataTypeCode prefix).
func c12CodecMap(p *Program, r *Report, spec map[string]*valueSpec) map[string][]*types.Named {
	out := map[string][]*types.Named{}
	fn := p.SSA().FuncValue(p.LookupFunc("datacodec", "NewCodec"))
	codeT := p.LookupType("primitive", "DataTypeCode").Type()
	names := map[string]string{} // constant value -> name
	scope := p.Pkg("primitive").Types.Scope()
	for _, n := range scope.Names() {
		if c, ok := scope.Lookup(n).(*types.Const); ok && types.Identical(c.Type(), codeT) {
			names[c.Val().ExactString()] = strings.ToLower(strings.TrimPrefix(n, "DataTypeCode"))
		}
	}
	handled := map[string]bool{}
	for _, b := range fn.Blocks {
		ifi, ok := b.Instrs[len(b.Instrs)-1].(*ssa.If)
		if !ok {
			continue
		}
		bo, ok := ifi.Cond.(*ssa.BinOp)
		if !ok || bo.Op != token.EQL {
			continue
		}
		k, ok := bo.Y.(*ssa.Const)
		if !ok || !types.Identical(k.Type(), codeT) {
			continue
		}
		name := names[k.Value.ExactString()]
		if name == "" {
			r.Fail("codec-map", "code "+k.Value.ExactString(), ifi.Pos(), "NewCodec has a case for an undeclared data type code")
			continue
		}
		handled[name] = true
		// follow the true branch to its return
		tb := b.Succs[0]
		for len(tb.Instrs) == 1 {
			if j, ok := tb.Instrs[0].(*ssa.Jump); ok {
				_ = j
				tb = tb.Succs[0]
			} else {
				break
			}
		}
		var ts []*types.Named
		seen := map[ssa.Value]bool{}
		var visit func(v ssa.Value)
		visit = func(v ssa.Value) {
			if seen[v] {
				return
			}
			seen[v] = true
			switch x := v.(type) {
			case *ssa.MakeInterface:
				if nt := namedOf(x.X.Type()); nt != nil {
					ts = append(ts, nt)
				}
			case *ssa.ChangeInterface:
				visit(x.X)
			case *ssa.Phi:
				for _, e := range x.Edges {
					visit(e)
				}
			case *ssa.Extract:
				if c, ok := x.Tuple.(*ssa.Call); ok && x.Index == 0 {
					visit(c)
				}
			case *ssa.Call:
				if f := x.Call.StaticCallee(); f != nil && f.Blocks != nil {
					for _, fb := range f.Blocks {
						if ret, ok := fb.Instrs[len(fb.Instrs)-1].(*ssa.Return); ok && len(ret.Results) > 0 {
							visit(ret.Results[0])
						}
					}
				}
			case *ssa.UnOp:
				if g, ok := x.X.(*ssa.Global); ok && x.Op == token.MUL {
					// stores in the package initialiser
					initFn := g.Pkg.Func("init")
					for _, ib := range initFn.Blocks {
						for _, ins := range ib.Instrs {
							if st, ok := ins.(*ssa.Store); ok && st.Addr == g {
								visit(st.Val)
							}
						}
					}
				}
			}
		}
		for _, ins := range tb.Instrs {
			if ret, ok := ins.(*ssa.Return); ok && len(ret.Results) > 0 {
				visit(ret.Results[0])
			}
		}
		uniq := map[*types.Named]bool{}
		var us []*types.Named
		for _, t := range ts {
			if !uniq[t] {
				uniq[t] = true
				us = append(us, t)
			}
		}
		if len(us) != 1 {
			r.Fail("codec-map", name, ifi.Pos(), "NewCodec(%s) resolves to %d concrete codec types, expected exactly one", name, len(us))
			continue
		}
		if spec[name] == nil {
			r.Fail("codec-map", name, ifi.Pos(), "spec/values.grammar has no layout for CQL type %s", name)
			continue
		}
		out[name] = us
		r.OKf("codec-map", name, ifi.Pos(), "NewCodec(%s) -> %s", name, us[0].Obj().Name())
	}
	// every declared code is handled, except codes no DataType value can carry
	noDataType := map[string]string{"text": "the v1/v2 code 0x000A is mapped to varchar when a data type is read (datatype.ReadDataType); no datatype.DataType value carries it"}
	for _, name := range names {
		if handled[name] {
			continue
		}
		if why, ok := noDataType[name]; ok {
			r.OKf("codec-map", name, fn.Pos(), "no codec: %s", why)
			continue
		}
		r.Fail("codec-map", name, fn.Pos(), "NewCodec has no case for the declared data type code %s", name)
	}
	_ = constant.MakeInt64
	return out
}
