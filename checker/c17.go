package main

// C17: deep copies share no mutable memory with their originals.
//
// Type-directed verifier on SSA for every function named DeepCopy* in the module:
//   no-alias    no reference-carrying value derived from the receiver (`in`) is stored anywhere,
//               put in a map, returned or passed on - except the initial struct copy *out = *in,
//               spills into named local variables, nil tests, len/range, copy() of reference-free
//               elements and calls of other verified DeepCopy* functions;
//   field       for a struct S, DeepCopyInto contains *out = *in and, for every field of S whose
//               type carries references, a store of a fresh value (new/make/DeepCopy* result) to
//               out.F or a call in.F.DeepCopyInto(&out.F);
//   populate    every freshly made slice/map whose elements carry references is filled element-wise;
//   wrapper     DeepCopy/DeepCopyX return nil or a fresh object filled by DeepCopyInto;
//   coverage    every type annotated +k8s:deepcopy-gen=true has DeepCopyInto and DeepCopy.

import (
	"fmt"
	"go/ast"
	"go/token"
	"go/types"
	"sort"
	"strings"

	"golang.org/x/tools/go/ssa"
)

func init() { register("C17", "other", checkC17) }

func refCarrying(t types.Type, seen map[types.Type]bool) bool {
	if seen == nil {
		seen = map[types.Type]bool{}
	}
	if seen[t] {
		return false
	}
	seen[t] = true
	switch u := t.Underlying().(type) {
	case *types.Pointer, *types.Slice, *types.Map, *types.Chan, *types.Signature, *types.Interface:
		return true
	case *types.Struct:
		for i := 0; i < u.NumFields(); i++ {
			if refCarrying(u.Field(i).Type(), seen) {
				return true
			}
		}
	case *types.Array:
		return refCarrying(u.Elem(), seen)
	case *types.Tuple:
		for i := 0; i < u.Len(); i++ {
			if refCarrying(u.At(i).Type(), seen) {
				return true
			}
		}
	}
	return false
}

func isDeepCopyName(n string) bool { return strings.HasPrefix(n, "DeepCopy") }

func calleeName(c *ssa.CallCommon) string {
	if c.IsInvoke() {
		return c.Method.Name()
	}
	if f := c.StaticCallee(); f != nil {
		return f.Name()
	}
	return ""
}

func isLocalVarAlloc(v ssa.Value) bool {
	a, ok := v.(*ssa.Alloc)
	if !ok {
		return false
	}
	return a.Comment != "new" && a.Comment != "complit" && a.Comment != "makeslice" && !strings.HasPrefix(a.Comment, "varargs")
}

func checkC17(p *Program, r *Report) {
	r.Explanation = "Type-directed deep-copy verifier on the SSA form of every DeepCopy* function: taint from the receiver may not reach any store, map update, return or foreign call as a reference-carrying value (no aliasing); every reference-carrying field of the copied struct must be overwritten with a fresh value; fresh containers of reference-carrying elements must be populated element-wise; wrappers return nil or fresh objects. Decides independence structurally for all inputs; equality of scalar contents rests on the presence of *out = *in and copy()/element loops, not on values."
	r.Trusted = []string{"go/ssa construction", "reflect-free type structure from go/types", "the +k8s:deepcopy-gen annotation as the list of types that must have copies"}
	r.Assumptions = []string{"strings and reference-free arrays are immutable/value data", "functions named DeepCopy* are exactly the deep-copy operations (all of them are verified by the same rule, so calling one yields fresh memory)"}
	r.Floor("no-alias", 150)
	r.Floor("field", 60)
	r.Floor("wrapper", 90)
	r.Floor("coverage", 55)

	var fns []*ssa.Function
	for _, fn := range p.ModuleFuncs() {
		if fn.Signature.Recv() != nil && isDeepCopyName(fn.Name()) && fn.Synthetic == "" {
			fns = append(fns, fn)
		}
	}
	for _, fn := range fns {
		c17Func(p, r, fn)
	}

	// coverage: annotated types
	for _, short := range []string{"frame", "message", "primitive", "segment", "datatype"} {
		pk := p.Pkg(short)
		for _, f := range pk.Syntax {
			for _, d := range f.Decls {
				gd, ok := d.(*ast.GenDecl)
				if !ok || gd.Tok != token.TYPE {
					continue
				}
				for _, sp := range gd.Specs {
					ts := sp.(*ast.TypeSpec)
					doc := ""
					if gd.Doc != nil {
						doc += gd.Doc.Text()
						for _, c := range gd.Doc.List {
							doc += c.Text + "\n"
						}
					}
					if ts.Doc != nil {
						for _, c := range ts.Doc.List {
							doc += c.Text + "\n"
						}
					}
					if !strings.Contains(doc, "+k8s:deepcopy-gen=true") {
						continue
					}
					tn := pk.TypesInfo.Defs[ts.Name].(*types.TypeName)
					key := short + "." + tn.Name()
					ms := types.NewMethodSet(types.NewPointer(tn.Type()))
					missing := []string{}
					for _, m := range []string{"DeepCopyInto", "DeepCopy"} {
						if ms.Lookup(tn.Pkg(), m) == nil {
							missing = append(missing, m)
						}
					}
					// interface markers
					for _, line := range strings.Split(doc, "\n") {
						if i := strings.Index(line, "+k8s:deepcopy-gen:interfaces="); i >= 0 {
							iface := strings.TrimSpace(line[i+len("+k8s:deepcopy-gen:interfaces="):])
							name := iface[strings.LastIndex(iface, ".")+1:]
							if ms.Lookup(tn.Pkg(), "DeepCopy"+name) == nil {
								missing = append(missing, "DeepCopy"+name)
							}
						}
					}
					if len(missing) > 0 {
						r.Fail("coverage", key, tn.Pos(), "type annotated +k8s:deepcopy-gen=true lacks %v", missing)
					} else {
						r.OKf("coverage", key, tn.Pos(), "has generated copy methods")
					}
				}
			}
		}
	}
	// every interface-typed DeepCopyX method of the Message / DataType interfaces is implemented
	// by construction of the type checker; nothing to add.
}

func c17Func(p *Program, r *Report, fn *ssa.Function) {
	recvT := fn.Signature.Recv().Type()
	tname := types.TypeString(recvT, relQual)
	key := fmt.Sprintf("(%s).%s", tname, fn.Name())
	if len(fn.Params) == 0 {
		return
	}
	in := fn.Params[0]

	// ---- taint propagation (flow-insensitive fixpoint) ---------------------------------------
	tainted := map[ssa.Value]bool{in: true}
	holder := map[ssa.Value]bool{} // local variable allocs holding tainted values
	changed := true
	derive := func(v ssa.Value, from ...ssa.Value) {
		if tainted[v] {
			return
		}
		for _, f := range from {
			if tainted[f] {
				tainted[v] = true
				changed = true
				return
			}
		}
	}
	for changed {
		changed = false
		for _, b := range fn.Blocks {
			for _, ins := range b.Instrs {
				switch x := ins.(type) {
				case *ssa.FieldAddr:
					derive(x, x.X)
				case *ssa.Field:
					derive(x, x.X)
				case *ssa.IndexAddr:
					derive(x, x.X)
				case *ssa.Index:
					derive(x, x.X)
				case *ssa.Lookup:
					derive(x, x.X)
				case *ssa.UnOp:
					if x.Op == token.MUL {
						if holder[x.X] {
							if !tainted[x] {
								tainted[x] = true
								changed = true
							}
						} else {
							derive(x, x.X)
						}
					}
				case *ssa.Phi:
					derive(x, x.Edges...)
				case *ssa.ChangeType:
					derive(x, x.X)
				case *ssa.Convert:
					derive(x, x.X)
				case *ssa.ChangeInterface:
					derive(x, x.X)
				case *ssa.MakeInterface:
					derive(x, x.X)
				case *ssa.Slice:
					derive(x, x.X)
				case *ssa.Range:
					derive(x, x.X)
				case *ssa.Next:
					derive(x, x.Iter)
				case *ssa.Extract:
					derive(x, x.Tuple)
				case *ssa.TypeAssert:
					derive(x, x.X)
				case *ssa.Store:
					if tainted[x.Val] && isLocalVarAlloc(x.Addr) && !holder[x.Addr] {
						holder[x.Addr] = true
						changed = true
					}
				}
			}
		}
	}

	// fresh values: allocations and results of DeepCopy* calls
	fresh := func(v ssa.Value) bool {
		switch x := v.(type) {
		case *ssa.Alloc:
			return true
		case *ssa.MakeSlice, *ssa.MakeMap:
			return true
		case *ssa.Const:
			return x.IsNil()
		case *ssa.Call:
			return isDeepCopyName(calleeName(&x.Call))
		case *ssa.MakeInterface:
			if c, ok := x.X.(*ssa.Call); ok {
				return isDeepCopyName(calleeName(&c.Call))
			}
			_, isAlloc := x.X.(*ssa.Alloc)
			return isAlloc
		}
		return false
	}
	var freshDeep func(v ssa.Value, depth int) bool
	freshDeep = func(v ssa.Value, depth int) bool {
		if fresh(v) {
			return true
		}
		if depth > 6 {
			return false
		}
		switch x := v.(type) {
		case *ssa.Phi:
			for _, e := range x.Edges {
				if !freshDeep(e, depth+1) {
					return false
				}
			}
			return true
		case *ssa.UnOp:
			// load of a local variable that only ever receives fresh values
			if x.Op == token.MUL && isLocalVarAlloc(x.X) && !holder[x.X] {
				return true
			}
		case *ssa.ChangeInterface:
			return freshDeep(x.X, depth+1)
		case *ssa.ChangeType:
			return freshDeep(x.X, depth+1)
		}
		return false
	}

	// ---- no-alias ---------------------------------------------------------------------------------
	var out ssa.Value
	if len(fn.Params) > 1 {
		out = fn.Params[1]
	}
	initialCopy := false
	var problems []string
	report := func(pos token.Pos, format string, a ...interface{}) {
		problems = append(problems, fmt.Sprintf("%s: %s", p.pos(pos), fmt.Sprintf(format, a...)))
	}
	for _, b := range fn.Blocks {
		for _, ins := range b.Instrs {
			switch x := ins.(type) {
			case *ssa.Store:
				if out != nil && x.Addr == out {
					if u, ok := x.Val.(*ssa.UnOp); ok && u.Op == token.MUL && u.X == ssa.Value(in) {
						initialCopy = true
						continue
					}
				}
				if tainted[x.Val] && refCarrying(x.Val.Type(), nil) && !isLocalVarAlloc(x.Addr) {
					report(x.Pos(), "a reference-carrying value of type %s taken from the original is stored into the copy (shallow copy)", types.TypeString(x.Val.Type(), relQual))
				}
			case *ssa.MapUpdate:
				if tainted[x.Value] && refCarrying(x.Value.Type(), nil) {
					report(x.Pos(), "map value of type %s taken from the original is put into the copy's map", types.TypeString(x.Value.Type(), relQual))
				}
				if tainted[x.Key] && refCarrying(x.Key.Type(), nil) {
					report(x.Pos(), "map key carrying references is shared")
				}
			case *ssa.Return:
				for _, res := range x.Results {
					if tainted[res] && refCarrying(res.Type(), nil) {
						report(x.Pos(), "returns memory of the original")
					}
				}
			case *ssa.Call:
				name := calleeName(&x.Call)
				if isDeepCopyName(name) {
					continue
				}
				if bi, ok := x.Call.Value.(*ssa.Builtin); ok {
					switch bi.Name() {
					case "len", "cap":
						continue
					case "copy":
						src := x.Call.Args[1]
						if tainted[src] {
							if sl, ok := src.Type().Underlying().(*types.Slice); ok && refCarrying(sl.Elem(), nil) {
								report(x.Pos(), "copy() of elements of type %s shares what they reference", types.TypeString(sl.Elem(), relQual))
							}
						}
						continue
					case "append":
						for _, a := range x.Call.Args[1:] {
							if tainted[a] && refCarrying(a.Type(), nil) {
								if sl, ok := a.Type().Underlying().(*types.Slice); !ok || refCarrying(sl.Elem(), nil) {
									report(x.Pos(), "append() of original elements that carry references")
								}
							}
						}
						if tainted[x.Call.Args[0]] {
							report(x.Pos(), "append() onto the original's slice")
						}
						continue
					}
				}
				for _, a := range x.Call.Args {
					if tainted[a] && refCarrying(a.Type(), nil) {
						report(x.Pos(), "memory of the original is passed to %s", name)
					}
				}
			}
		}
	}
	if len(problems) > 0 {
		sort.Strings(problems)
		r.Fail("no-alias", key, fn.Pos(), "%s", strings.Join(problems, "; "))
	} else {
		r.OKf("no-alias", key, fn.Pos(), "no reference-carrying value of the original reaches the copy")
	}

	// ---- DeepCopyInto: per-field obligations --------------------------------------------------
	if fn.Name() == "DeepCopyInto" && out != nil {
		pt, _ := recvT.(*types.Pointer)
		if pt == nil {
			return
		}
		st, _ := pt.Elem().Underlying().(*types.Struct)
		if st == nil {
			return
		}
		if !initialCopy {
			r.Fail("field", key+" *out=*in", fn.Pos(), "the struct copy *out = *in is missing (scalar fields are not copied)")
		} else {
			r.OKf("field", key+" *out=*in", fn.Pos(), "present")
		}
		// addresses derived from out, by field index at the top level
		outField := map[ssa.Value]int{}
		for _, b := range fn.Blocks {
			for _, ins := range b.Instrs {
				if fa, ok := ins.(*ssa.FieldAddr); ok && fa.X == out {
					outField[fa] = fa.Field
				}
			}
		}
		for i := 0; i < st.NumFields(); i++ {
			f := st.Field(i)
			if !refCarrying(f.Type(), nil) {
				continue
			}
			fkey := fmt.Sprintf("%s.%s", key, f.Name())
			done, stale := false, false
			why := "no store of a fresh value to out." + f.Name()
			for _, b := range fn.Blocks {
				for _, ins := range b.Instrs {
					switch x := ins.(type) {
					case *ssa.Store:
						if idx, ok := outField[x.Addr]; ok && idx == i {
							if freshDeep(x.Val, 0) {
								done = true
							} else {
								stale = true
								why = fmt.Sprintf("out.%s is assigned, on some path, a value that is not freshly allocated (%s): memory the destination or the original already held is reused, so the copy can stay an alias", f.Name(), describeVal(x.Val))
							}
						}
					case *ssa.Call:
						// in.F.DeepCopyInto(&out.F)
						if calleeName(&x.Call) == "DeepCopyInto" {
							for _, a := range x.Call.Args {
								if idx, ok := outField[a]; ok && idx == i {
									done = true
								}
							}
						}
					}
				}
			}
			if done && !stale {
				r.OKf("field", fkey, f.Pos(), "reference-carrying field is copied into fresh memory")
			} else {
				r.Fail("field", fkey, f.Pos(), "field %s (%s) carries references but keeps the shallow copy: %s", f.Name(), types.TypeString(f.Type(), relQual), why)
			}
		}
		// populate: fresh containers of reference-carrying elements must be filled
		for _, b := range fn.Blocks {
			for _, ins := range b.Instrs {
				var elem types.Type
				var v ssa.Value
				switch x := ins.(type) {
				case *ssa.MakeSlice:
					elem = x.Type().Underlying().(*types.Slice).Elem()
					v = x
				case *ssa.MakeMap:
					elem = x.Type().Underlying().(*types.Map).Elem()
					v = x
				default:
					continue
				}
				filled := c17Filled(fn, v)
				pkey := fmt.Sprintf("%s make@%s", key, types.TypeString(v.Type(), relQual))
				if filled {
					r.OKf("populate", pkey, ins.Pos(), "container is filled from the original")
				} else {
					r.Fail("populate", pkey, ins.Pos(), "fresh %s is never filled (copy()/element stores missing; element type %s)", types.TypeString(v.Type(), relQual), types.TypeString(elem, relQual))
				}
			}
		}
		return
	}

	// ---- wrappers -------------------------------------------------------------------------------
	okWrap := true
	why := ""
	nret := 0
	for _, b := range fn.Blocks {
		for _, ins := range b.Instrs {
			ret, ok := ins.(*ssa.Return)
			if !ok {
				continue
			}
			for _, res := range ret.Results {
				nret++
				if !freshDeep(res, 0) {
					okWrap = false
					why = fmt.Sprintf("%s: returns a value that is neither nil, freshly allocated nor a DeepCopy* result", p.pos(ret.Pos()))
				}
				// a fresh struct object must be filled: either by a DeepCopyInto call or by a whole-value store
				if a, isAlloc := res.(*ssa.Alloc); isAlloc {
					filled := false
					for _, ref := range *a.Referrers() {
						switch y := ref.(type) {
						case *ssa.Call:
							if calleeName(&y.Call) == "DeepCopyInto" {
								filled = true
							}
						case *ssa.Store:
							if y.Addr == ssa.Value(a) {
								filled = true
							}
						}
					}
					if !filled {
						okWrap = false
						why = "the returned object is never filled from the original"
					}
				}
			}
		}
	}
	if nret == 0 {
		return
	}
	if okWrap {
		r.OKf("wrapper", key, fn.Pos(), "returns nil or fresh, filled memory")
	} else {
		r.Fail("wrapper", key, fn.Pos(), "%s", why)
	}
}

// c17Filled: the value (a fresh slice/map, possibly stored through a pointer and reloaded) is the
// destination of copy(), of an indexed store or of a map update somewhere in fn.
func c17Filled(fn *ssa.Function, v ssa.Value) bool {
	// aliases: loads from the address the container was stored to
	alias := map[ssa.Value]bool{v: true}
	var addrs []ssa.Value
	for _, ref := range *v.Referrers() {
		if st, ok := ref.(*ssa.Store); ok && st.Val == v {
			addrs = append(addrs, st.Addr)
		}
	}
	for _, b := range fn.Blocks {
		for _, ins := range b.Instrs {
			if u, ok := ins.(*ssa.UnOp); ok && u.Op == token.MUL {
				for _, a := range addrs {
					if sameAddr(u.X, a) {
						alias[u] = true
					}
				}
			}
		}
	}
	for _, b := range fn.Blocks {
		for _, ins := range b.Instrs {
			switch x := ins.(type) {
			case *ssa.Call:
				if bi, ok := x.Call.Value.(*ssa.Builtin); ok && bi.Name() == "copy" && alias[x.Call.Args[0]] {
					return true
				}
			case *ssa.IndexAddr:
				if alias[x.X] {
					for _, ref := range *x.Referrers() {
						switch y := ref.(type) {
						case *ssa.Store:
							if y.Addr == ssa.Value(x) {
								return true
							}
						case *ssa.Call:
							if calleeName(&y.Call) == "DeepCopyInto" {
								return true
							}
						}
					}
				}
			case *ssa.MapUpdate:
				if alias[x.Map] {
					return true
				}
			}
		}
	}
	return false
}

// sameAddr: structurally equal address expressions (FieldAddr chains on the same base).
func sameAddr(a, b ssa.Value) bool {
	if a == b {
		return true
	}
	fa, ok1 := a.(*ssa.FieldAddr)
	fb, ok2 := b.(*ssa.FieldAddr)
	if ok1 && ok2 {
		return fa.Field == fb.Field && sameAddr(fa.X, fb.X)
	}
	ia, ok1 := a.(*ssa.IndexAddr)
	ib, ok2 := b.(*ssa.IndexAddr)
	if ok1 && ok2 {
		return ia.Index == ib.Index && sameAddr(ia.X, ib.X)
	}
	ua, ok1 := a.(*ssa.UnOp)
	ub, ok2 := b.(*ssa.UnOp)
	if ok1 && ok2 && ua.Op == token.MUL && ub.Op == token.MUL {
		return sameAddr(ua.X, ub.X)
	}
	return false
}
