package main

// Wire rules: trace extraction for encoders, decoders and length calculators.

import (
	"fmt"
	"go/ast"
	"go/constant"
	"go/token"
	"go/types"
	"sort"
	"strings"
)

// wireHooks turns calls into wire symbols. In atom mode the primitive notations
// (primitive.ReadX/WriteX/LengthOfX) are atoms; in byte mode they are inlined down to
// binary.Read/Write, io.ReadFull, Writer.Write.
type wireHooks struct {
	effHooks
	p        *Program
	byteMode bool
	version  *constant.Value
	pe       *penum
	among    map[string][]constant.Value // memo: Check function + version -> accepted constants
	fixed    map[string]int64            // kind -> fixed size in bytes
}

func newWireHooks(p *Program, byteMode bool) *wireHooks {
	h := &wireHooks{p: p, byteMode: byteMode, among: map[string][]constant.Value{}, fixed: map[string]int64{}}
	scope := p.Pkg("primitive").Types.Scope()
	for _, n := range scope.Names() {
		if c, ok := scope.Lookup(n).(*types.Const); ok && strings.HasPrefix(n, "LengthOf") && c.Val().Kind() == constant.Int {
			if i, ok := constant.Int64Val(c.Val()); ok {
				h.fixed[strings.ToLower(strings.TrimPrefix(n, "LengthOf"))] = i
			}
		}
	}
	return h
}

func primKind(name string) (dir, kind string) {
	for _, pre := range []string{"Write", "Read", "LengthOf"} {
		if strings.HasPrefix(name, pre) && len(name) > len(pre) {
			return pre, strings.ToLower(name[len(pre):])
		}
	}
	return "", ""
}

func (h *wireHooks) Call(in *Interp, c *CallCtx, k func(*State, []Val)) bool {
	if c.Callee == nil {
		return false
	}
	fn := c.Callee
	sig := fn.Type().(*types.Signature)
	pk := shortPkg(fn.Pkg())
	if fn.Pkg() != nil && isModulePkg(fn.Pkg()) && pk == "primitive" && sig.Recv() == nil {
		name := fn.Name()
		// validity checks: constrain instead of inlining
		if strings.HasPrefix(name, "Check") && len(c.Args) >= 1 {
			return h.check(in, c, k)
		}
		dir, kind := primKind(name)
		if dir != "" && kind != "streamid" && !h.byteMode {
			switch dir {
			case "Write":
				arg := unknown
				if len(c.Args) > 0 {
					arg = in.resolve(c.Args[0], c.St)
				}
				c.St.emit(&Sym{Kind: "op", Name: kind, Arg: arg, Pos: c.Site.Pos(), Extra: "w"})
				k(c.St, in.assumedResults(sig))
				return true
			case "Read":
				id := in.newSym()
				c.St.emit(&Sym{Kind: "op", Name: kind, ID: id, Pos: c.Site.Pos(), Extra: "r"})
				res := in.assumedResults(sig)
				res[0] = Val{K: KSym, Sym: id, T: sig.Results().At(0).Type()}
				k(c.St, res)
				return true
			case "LengthOf":
				arg := unknown
				if len(c.Args) > 0 {
					arg = in.resolve(c.Args[0], c.St)
				}
				res := in.assumedResults(sig)
				res[0] = Val{K: KLin, Lin: h.sizeOf(kind, arg)}
				k(c.St, res)
				return true
			}
		}
		return false
	}
	if pk == "crc" && isModulePkg(fn.Pkg()) && sig.Recv() == nil && sig.Results().Len() == 1 {
		// checksums are opaque functions of their (bit-tracked) arguments
		var names []string
		for _, a := range c.Args {
			ra := in.resolve(a, c.St)
			if ra.K == KLin && ra.Lin.B != nil {
				names = append(names, ra.Lin.B.String())
			} else {
				names = append(names, nameOf(ra))
			}
		}
		c.St.emit(&Sym{Kind: "crc", Name: fn.Name(), Args: c.Args, Pos: c.Site.Pos()})
		k(c.St, []Val{{K: KExpr, Key: fn.Name() + "{" + strings.Join(names, ";") + "}", T: sig.Results().At(0).Type()}})
		return true
	}
	if h.byteMode {
		switch fn.FullName() {
		case "encoding/binary.Write":
			if len(c.Args) == 3 {
				n := sizeofType(typeOf(c.Fr, c.ArgEs[2]))
				c.St.emit(&Sym{Kind: "op", Name: fmt.Sprintf("fixed%d", n), Arg: in.resolve(c.Args[2], c.St), Pos: c.Site.Pos(), Extra: "w:" + byteOrder(c.ArgEs[1])})
				k(c.St, []Val{{K: KNil}})
				return true
			}
		case "encoding/binary.Read":
			if len(c.Args) == 3 {
				t := typeOf(c.Fr, c.ArgEs[2])
				if pt, ok := t.Underlying().(*types.Pointer); ok {
					t = pt.Elem()
				}
				id := in.newSym()
				if in.BitMode {
					k := 0
					for _, s := range c.St.trace {
						if s.Kind == "op" && strings.HasPrefix(s.Extra, "r") {
							k++
						}
					}
					if in.symNames == nil {
						in.symNames = map[int]string{}
					}
					in.symNames[id] = fmt.Sprintf("in%d", k)
				}
				c.St.emit(&Sym{Kind: "op", Name: fmt.Sprintf("fixed%d", sizeofType(t)), ID: id, T: t, Pos: c.Site.Pos(), Extra: "r:" + byteOrder(c.ArgEs[1])})
				// store into &x
				if ue, ok := ast.Unparen(c.ArgEs[2]).(*ast.UnaryExpr); ok && ue.Op == token.AND {
					if idn, ok := ast.Unparen(ue.X).(*ast.Ident); ok {
						if obj := c.Fr.info.ObjectOf(idn); obj != nil {
							c.St.env[obj] = Val{K: KSym, Sym: id, T: t}
						}
					}
				}
				k(c.St, []Val{{K: KNil}})
				return true
			}
		case "(*bytes.Buffer).WriteTo":
			if c.Recv != nil {
				arg := unknown
				if c.Recv.K == KExpr {
					arg = Val{K: KLin, Lin: linTerm("len(" + c.Recv.Key + ")")}
				}
				c.St.emit(&Sym{Kind: "op", Name: "raw", Arg: arg, Pos: c.Site.Pos(), Extra: "w"})
				k(c.St, []Val{unknown, {K: KNil}})
				return true
			}
		case "io.ReadFull":
			if len(c.Args) == 2 {
				ln := lenOfVal(c.Args[1])
				if n, ok := staticSliceLen(c.Fr, c.ArgEs[1]); ok {
					ln = intVal(n)
				}
				sym := &Sym{Kind: "op", Name: "raw", Arg: ln, Pos: c.Site.Pos(), Extra: "r"}
				c.St.emit(sym)
				if a := c.Args[1]; a.K == KAlloc && a.Obj != 0 {
					// remember which read filled this buffer: a later binary.*Endian.UintN(buf) turns
					// that read into a fixed-width integer read
					if in.readFills == nil {
						in.readFills = map[int]*Sym{}
					}
					in.readFills[a.Obj] = sym
				}
				k(c.St, []Val{unknown, {K: KNil}})
				return true
			}
		case "(encoding/binary.bigEndian).Uint16", "(encoding/binary.bigEndian).Uint32", "(encoding/binary.bigEndian).Uint64",
			"(encoding/binary.littleEndian).Uint16", "(encoding/binary.littleEndian).Uint32", "(encoding/binary.littleEndian).Uint64":
			if len(c.Args) == 1 && c.Args[0].K == KAlloc && c.Args[0].Obj != 0 && in.readFills != nil {
				if sym := in.readFills[c.Args[0].Obj]; sym != nil {
					n := map[string]int64{"Uint16": 2, "Uint32": 4, "Uint64": 8}[fn.Name()]
					if ln := in.resolve(sym.Arg, c.St); ln.K == KConst {
						if sz, ok := constant.Int64Val(ln.C); ok && sz == n {
							order := "BE"
							if strings.Contains(fn.FullName(), "littleEndian") {
								order = "LE"
							}
							id := in.newSym()
							sym.Name, sym.Extra, sym.ID, sym.Arg = fmt.Sprintf("fixed%d", n), "r:"+order, id, Val{}
							sym.T = sig.Results().At(0).Type()
							k(c.St, []Val{{K: KSym, Sym: id, T: sig.Results().At(0).Type()}})
							return true
						}
					}
				}
			}
		case "io.ReadFull#unused":
			if len(c.Args) == 2 {
				ln := lenOfVal(c.Args[1])
				c.St.emit(&Sym{Kind: "op", Name: "raw", Arg: ln, Pos: c.Site.Pos(), Extra: "r"})
				k(c.St, []Val{unknown, {K: KNil}})
				return true
			}
		}
		if strings.HasPrefix(fn.FullName(), "(encoding/binary.bigEndian).PutUint") || strings.HasPrefix(fn.FullName(), "(encoding/binary.littleEndian).PutUint") {
			// binary.BigEndian.PutUintN(buf, v): remember the content of the buffer
			if len(c.Args) == 2 && c.Args[0].K == KAlloc && c.Args[0].Obj != 0 {
				bits := strings.TrimPrefix(fn.Name(), "PutUint")
				order := "BE"
				if strings.Contains(fn.FullName(), "littleEndian") {
					order = "LE"
				}
				if m := c.St.heap[c.Args[0].Obj]; m != nil {
					m["put"] = in.resolve(c.Args[1], c.St)
					m["putinfo"] = Val{K: KExpr, Key: bits + ":" + order}
				}
				k(c.St, nil)
				return true
			}
		}
		if c.Iface && fn.Name() == "Write" && len(c.Args) == 1 {
			if a := c.Args[0]; a.K == KSlice && len(a.Elems) > 0 && len(a.Elems) <= 8 {
				// dest.Write([]byte{b0, b1, ...}): single bytes, in order
				for _, e := range a.Elems {
					c.St.emit(&Sym{Kind: "op", Name: "fixed1", Arg: in.resolve(e, c.St), Pos: c.Site.Pos(), Extra: "w:"})
				}
				k(c.St, []Val{unknown, {K: KNil}})
				return true
			}
			if a := c.Args[0]; a.K == KAlloc && a.Obj != 0 {
				if m := c.St.heap[a.Obj]; m != nil {
					if info, ok := m["putinfo"]; ok {
						parts := strings.Split(info.Key, ":")
						n := map[string]int{"16": 2, "32": 4, "64": 8}[parts[0]]
						// the buffer must be exactly as long as the integer put into it
						if len(a.Elems) > 0 && a.Elems[0].K == KConst {
							if sz, ok := constant.Int64Val(a.Elems[0].C); ok && int(sz) == n {
								c.St.emit(&Sym{Kind: "op", Name: fmt.Sprintf("fixed%d", n), Arg: m["put"], Pos: c.Site.Pos(), Extra: "w:" + parts[1]})
								k(c.St, []Val{unknown, {K: KNil}})
								return true
							}
						}
					}
				}
			}
			ln := lenOfVal(c.Args[0])
			if n, ok := staticSliceLen(c.Fr, c.ArgEs[0]); ok {
				ln = intVal(n)
			}
			c.St.emit(&Sym{Kind: "op", Name: "raw", Arg: ln, Pos: c.Site.Pos(), Extra: "w"})
			k(c.St, []Val{unknown, {K: KNil}})
			return true
		}
	}
	return false
}

func lenOfVal(v Val) Val {
	switch v.K {
	case KExpr:
		if n, ok := knownLen(v.Key); ok {
			return intVal(n)
		}
		return Val{K: KLin, Lin: linTerm("len(" + v.Key + ")")}
	case KAlloc:
		if len(v.Elems) > 0 {
			return v.Elems[0]
		}
	case KSlice:
		return intVal(int64(len(v.Elems)))
	}
	return unknown
}

func byteOrder(e ast.Expr) string {
	s := exprString(e)
	if strings.Contains(s, "LittleEndian") {
		return "LE"
	}
	if strings.Contains(s, "BigEndian") {
		return "BE"
	}
	return "?"
}

func sizeofType(t types.Type) int64 {
	if b, ok := t.Underlying().(*types.Basic); ok {
		switch b.Kind() {
		case types.Int8, types.Uint8, types.Bool:
			return 1
		case types.Int16, types.Uint16:
			return 2
		case types.Int32, types.Uint32, types.Float32:
			return 4
		case types.Int64, types.Uint64, types.Float64:
			return 8
		}
	}
	if a, ok := t.Underlying().(*types.Array); ok {
		return a.Len() * sizeofType(a.Elem())
	}
	return -1
}

// sizeOf: the byte size of one notation as a linear form.
func (h *wireHooks) sizeOf(kind string, arg Val) *Lin {
	if n, ok := h.fixed[kind]; ok {
		return linConst(n)
	}
	if arg.K == KConst && arg.Key == "" && arg.C.Kind() == constant.String {
		// a literal: prefix + len
		switch kind {
		case "string":
			return linConst(2 + int64(len(constant.StringVal(arg.C))))
		case "longstring":
			return linConst(4 + int64(len(constant.StringVal(arg.C))))
		}
	}
	return linTerm("sz:" + kind + "(" + nameOf(arg) + ")")
}

// check handles primitive.CheckX(value[, version]).
func (h *wireHooks) check(in *Interp, c *CallCtx, k func(*State, []Val)) bool {
	fn := c.Callee
	sig := fn.Type().(*types.Signature)
	arg := in.resolve(c.Args[0], c.St)
	c.St.emit(&Sym{Kind: "chk", Name: fn.Name(), Arg: arg, Pos: c.Site.Pos()})
	named, _ := sig.Params().At(0).Type().(*types.Named)
	if named == nil {
		return false
	}
	var vers []Val
	if len(c.Args) > 1 {
		vers = c.Args[1:]
		for _, v := range vers {
			if v.K != KConst {
				return false // version unknown: inline
			}
		}
	}
	if arg.K == KConst {
		return false // decidable by inlining
	}
	key := fn.Name()
	for _, v := range vers {
		key += "@" + v.C.ExactString()
	}
	set, ok := h.among[key]
	if !ok {
		if h.pe == nil {
			h.pe = newPenum(h.p)
		}
		for _, ct := range declaredCodeTypes(h.p) {
			if ct.tn != named.Obj() {
				continue
			}
			for _, cst := range ct.consts {
				args := append([]Val{constVal(cst.Val(), named)}, vers...)
				res, okr, _ := h.pe.eval(fn, nil, args...)
				if okr && res.K == KNil {
					set = append(set, cst.Val())
				}
			}
		}
		h.among[key] = set
	}
	switch arg.K {
	case KExpr:
		if prev, ok := c.St.among[arg.Key]; ok {
			set = intersectConsts(prev, set)
		}
		c.St.among[arg.Key] = set
		if len(set) == 1 {
			c.St.refine[arg.Key] = set[0]
		}
	case KSym:
		c.St.symAmong(arg.Sym, set)
	default:
		// unknown value: fork on the outcome
		in.forkErr(sig, c.St, k)
		return true
	}
	k(c.St, []Val{{K: KNil}})
	return true
}

func intersectConsts(a, b []constant.Value) []constant.Value {
	var out []constant.Value
	for _, x := range a {
		for _, y := range b {
			if constant.Compare(x, token.EQL, y) {
				out = append(out, x)
			}
		}
	}
	return out
}

// ---------------------------------------------------------------------------------------
// size forms

// traceForm sums the byte sizes of the ops of a trace.
func (h *wireHooks) traceForm(tr []*Sym, st *State, in *Interp) *Form {
	total := linConst(0)
	var loops []*LoopForm
	for _, s := range tr {
		switch s.Kind {
		case "op":
			if strings.HasPrefix(s.Name, "fixed") {
				var n int64
				fmt.Sscanf(s.Name, "fixed%d", &n)
				total = total.add(linConst(n), 1)
			} else if s.Name == "raw" {
				if l, ok := asLin(in.resolve(s.Arg, st)); ok {
					total = total.add(l, 1)
				} else {
					total = total.add(linTerm("raw(?)"), 1)
				}
			} else {
				total = total.add(h.sizeOf(s.Name, in.resolve(s.Arg, st)), 1)
			}
		case "loop":
			lf := &LoopForm{Key: s.Key}
			nonZero := false
			for _, b := range s.Body {
				if b.Ctl != "next" {
					continue
				}
				f := h.traceForm(b.St.trace, b.St, in)
				if f.C != 0 || len(f.Terms) > 0 || len(f.Loops) > 0 {
					nonZero = true
				}
				lf.Alts = append(lf.Alts, &FormAlt{St: b.St, F: f})
			}
			if nonZero {
				loops = append(loops, lf)
			}
		case "dyn":
			total = total.add(linTerm("dyn:"+dynStem(s.Name)+"("+dynArg(s)+")"), 1)
		case "rec":
			total = total.add(linTerm("rec:"+recStem(s.Name)+"("+firstArg(s.Args)+")"), 1)
		}
	}
	f := in.formFromLin(total)
	f.Loops = append(f.Loops, loops...)
	return f
}

// formsAgree compares two size forms; loops are matched by key and their alternatives pairwise
// on compatible path conditions.
func formsAgree(a, b *Form) (bool, string) { return formsAgreeUnder(a, b, nil, nil) }

// simplify drops len(K) terms when the path knows K to be nil or empty.
func simplifyForm(f *Form, sts ...*State) *Form {
	out := &Form{C: f.C, Terms: map[string]int64{}}
	// a loop adding the same constant for every element is c*len(K)
	for _, lp := range f.Loops {
		constant_ := len(lp.Alts) > 0
		var c0 int64
		for i, a := range lp.Alts {
			if len(a.F.Terms) > 0 || len(a.F.Loops) > 0 || (i > 0 && a.F.C != c0) {
				constant_ = false
				break
			}
			c0 = a.F.C
		}
		if constant_ && !strings.Contains(lp.Key, "?") {
			f = &Form{C: f.C, Terms: copyTerms(f.Terms), Loops: nil}
			f.Terms["len("+lp.Key+")"] += c0
			if f.Terms["len("+lp.Key+")"] == 0 {
				delete(f.Terms, "len("+lp.Key+")")
			}
			continue
		}
		out.Loops = append(out.Loops, lp)
	}
	out.C = f.C
	for t, c := range f.Terms {
		if strings.HasPrefix(t, "len(") && strings.HasSuffix(t, ")") {
			k := t[4 : len(t)-1]
			zero := false
			for _, st := range sts {
				if st == nil {
					continue
				}
				if st.atoms["nil("+k+")"] || st.atoms["len0("+k+")"] || st.atoms["empty("+k+")"] {
					zero = true
				}
			}
			if zero {
				continue
			}
		}
		// a notation whose content is known to be empty has its prefix size only
		done := false
		for kind, prefix := range map[string]int64{"sz:string(": 2, "sz:longstring(": 4, "sz:bytes(": 4, "sz:shortbytes(": 2} {
			if strings.HasPrefix(t, kind) && strings.HasSuffix(t, ")") {
				k := t[len(kind) : len(t)-1]
				for _, st := range sts {
					if st != nil && (st.atoms["empty("+k+")"] || st.atoms["len0("+k+")"] || st.atoms["nil("+k+")"]) {
						out.C += prefix * c
						done = true
						break
					}
				}
			}
			if done {
				break
			}
		}
		if done {
			continue
		}
		out.Terms[t] = c
	}
	return out
}

func formsAgreeUnder(a, b *Form, sa, sb *State) (bool, string) {
	a, b = simplifyForm(a, sa, sb), simplifyForm(b, sa, sb)
	if a.C != b.C {
		return false, fmt.Sprintf("fixed bytes %d vs %d", a.C, b.C)
	}
	for t, c := range a.Terms {
		if b.Terms[t] != c {
			return false, fmt.Sprintf("term %s: %d vs %d", t, c, b.Terms[t])
		}
	}
	for t, c := range b.Terms {
		if a.Terms[t] != c {
			return false, fmt.Sprintf("term %s: %d vs %d", t, a.Terms[t], c)
		}
	}
	if len(a.Loops) != len(b.Loops) {
		return false, fmt.Sprintf("%d loops vs %d loops", len(a.Loops), len(b.Loops))
	}
	used := make([]bool, len(b.Loops))
	for _, la := range a.Loops {
		found := false
		why := "no loop over " + la.Key
		for j, lb := range b.Loops {
			if used[j] || lb.Key != la.Key {
				continue
			}
			ok, w := loopsAgree(la, lb)
			if ok {
				used[j] = true
				found = true
				break
			}
			why = w
		}
		if !found {
			return false, "loop over " + la.Key + ": " + why
		}
	}
	return true, ""
}

func loopsAgree(a, b *LoopForm) (bool, string) {
	for _, x := range a.Alts {
		n := 0
		for _, y := range b.Alts {
			if !atomsCompatible(x.St, y.St) {
				continue
			}
			n++
			if ok, why := formsAgreeUnder(x.F, y.F, x.St, y.St); !ok {
				return false, fmt.Sprintf("per element {%s}: %s vs %s (%s)", describeAtoms(x.St), x.F, y.F, why)
			}
		}
		if n == 0 {
			return false, fmt.Sprintf("no compatible alternative for element path {%s}", describeAtoms(x.St))
		}
	}
	// alternatives only the second function has (e.g. a length calculator that also sizes
	// elements the version-aware writer refuses) are not a disagreement
	return true, ""
}

func loopAtomBase(body, outer *State) int {
	// atoms of the body path beyond those of the enclosing path at loop entry: the body state was
	// cloned from the pre-loop state, whose atom log is a prefix
	n := 0
	for n < len(outer.atomLog) && n < len(body.atomLog) && outer.atomLog[n] == body.atomLog[n] {
		n++
	}
	return n
}

func firstArg(args []Val) string {
	if len(args) == 0 {
		return ""
	}
	return nameOf(args[0])
}

func dynArg(s *Sym) string {
	if len(s.Args) > 0 {
		return nameOf(s.Args[0])
	}
	return ""
}

// dynStem maps Encode / EncodedLength / Decode of one interface to the same stem.
func dynStem(name string) string {
	for _, suf := range []string{".EncodedLength", ".Encode", ".Decode"} {
		if strings.HasSuffix(name, suf) {
			return strings.TrimSuffix(name, suf)
		}
	}
	return name
}

// recStem maps WriteX / ReadX / LengthOfX (any case of the first letter) to X.
func recStem(full string) string {
	name := full
	if i := strings.LastIndex(name, "."); i >= 0 {
		name = name[i+1:]
	}
	low := strings.ToLower(name)
	for _, pre := range []string{"write", "read", "lengthof", "encode", "decode"} {
		if strings.HasPrefix(low, pre) {
			return low[len(pre):]
		}
	}
	return low
}

// atomsOf returns the data atoms a path assumed, as a map.
func atomsCompatible(a, b *State) bool {
	for k, v := range a.atoms {
		if w, ok := b.atoms[k]; ok && w != v {
			return false
		}
	}
	// discriminator refinements must not contradict
	for k, v := range a.refine {
		if w, ok := b.refine[k]; ok && !constant.Compare(v, token.EQL, w) {
			return false
		}
		for _, x := range b.exclude[k] {
			if constant.Compare(x, token.EQL, v) {
				return false
			}
		}
	}
	for k, v := range b.refine {
		for _, x := range a.exclude[k] {
			if constant.Compare(x, token.EQL, v) {
				return false
			}
		}
	}
	return true
}

func describeAtoms(st *State) string {
	var parts []string
	parts = append(parts, st.atomLog...)
	var ks []string
	for k := range st.refine {
		ks = append(ks, k)
	}
	sort.Strings(ks)
	for _, k := range ks {
		parts = append(parts, k+"="+constLabel(st.refine[k]))
	}
	return strings.Join(parts, " ")
}

func copyTerms(m map[string]int64) map[string]int64 {
	o := make(map[string]int64, len(m))
	for k, v := range m {
		o[k] = v
	}
	return o
}

// staticSliceLen: the length of x[:] when x is an array or a pointer to one.
func staticSliceLen(fr *frame, e ast.Expr) (int64, bool) {
	se, ok := ast.Unparen(e).(*ast.SliceExpr)
	if !ok || se.Low != nil || se.High != nil {
		return 0, false
	}
	t := typeOf(fr, se.X)
	if t == nil {
		return 0, false
	}
	if p, ok := t.Underlying().(*types.Pointer); ok {
		t = p.Elem()
	}
	if a, ok := t.Underlying().(*types.Array); ok {
		return a.Len(), true
	}
	return 0, false
}
