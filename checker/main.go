package main

import (
	"flag"
	"fmt"
	"os"
	"path/filepath"
	"sort"
	"strconv"
)

type checkFn func(p *Program, r *Report)

type checkDef struct {
	level string
	fn    checkFn
}

// multiArch: checks whose verdict depends on the width of int are re-decided for GOARCH=386 in
// the thorough tier.
var multiArch = map[string]bool{}

var checks = map[string]checkDef{}

func register(id, level string, fn checkFn) { checks[id] = checkDef{level, fn} }

func main() {
	os.Exit(realMain())
}

func realMain() (code int) {
	fs := flag.NewFlagSet("verifcheck", flag.ExitOnError)
	tier := fs.String("tier", "quick", "quick|thorough")
	repo := fs.String("repo", "/repo", "repository to analyse")
	verif := fs.String("verif", "", "verif dir (default: parent of the executable's dir)")
	arch := fs.String("arch", "amd64", "GOARCH")
	noWrite := fs.Bool("no-write", false, "do not write evidence (used by positive controls)")
	if len(os.Args) < 2 {
		fmt.Println("usage: verifcheck <Cxx|list> [--tier quick|thorough] [--repo DIR]")
		return 2
	}
	id := os.Args[1]
	_ = fs.Parse(os.Args[2:])
	if id == "list" {
		var ids []string
		for k := range checks {
			ids = append(ids, k)
		}
		sort.Strings(ids)
		for _, k := range ids {
			fmt.Println(k, checks[k].level)
		}
		return 0
	}
	def, ok := checks[id]
	if !ok {
		fmt.Printf("ERROR unknown check %s\n", id)
		return 2
	}
	vdir := *verif
	if vdir == "" {
		exe, _ := os.Executable()
		vdir = filepath.Dir(filepath.Dir(exe))
	}
	if t := os.Getenv("VERIF_TIER"); t != "" && *tier == "" {
		*tier = t
	}
	seed := int64(0)
	if s := os.Getenv("VERIF_SEED"); s != "" {
		seed, _ = strconv.ParseInt(s, 10, 64)
	}
	defer func() {
		if r := recover(); r != nil {
			if fe, ok := r.(fatalErr); ok {
				fmt.Printf("ERROR %s: %s\n", id, fe.msg)
				code = 2
				return
			}
			fmt.Printf("ERROR %s: internal panic: %v\n", id, r)
			panic(r)
		}
	}()
	prog := loadProgram(*repo, *arch)
	rep := newReport(id, def.level, *tier, prog)
	rep.NoWrite = *noWrite
	def.fn(prog, rep)
	if *tier == "thorough" && multiArch[id] && *arch == "amd64" {
		p386 := loadProgram(*repo, "386")
		rep.prog = p386
		rep.KeyPrefix = "386/"
		def.fn(p386, rep)
		rep.KeyPrefix = ""
		rep.prog = prog
		rep.Extra["also_analysed_goarch"] = "386"
	}
	if *tier == "thorough" && !*noWrite {
		results, ok := runControls(id, *repo, vdir)
		rep.Extra["positive_controls"] = results
		n := 0
		for _, cr := range results {
			fmt.Printf("  control %s: %s %s\n", cr.ID, cr.Status, cr.Detail)
			if cr.Status == "detected" {
				n++
			}
		}
		rep.Extra["positive_controls_detected"] = n
		if !ok {
			rep.Broken = append(rep.Broken, "a positive control was not detected (the checker is broken, not the repository)")
		}
	}
	return rep.Finish(vdir, seed)
}
