package main

// effHooks: a generic effect recorder. Field stores, index stores, deletes and dereference stores
// are appended to the path trace so that rules can read a function's effect summary per path.

import (
	"go/ast"
	"go/types"
)

type effHooks struct {
	// CallHook, when set, is consulted first.
	CallHook func(in *Interp, c *CallCtx, k func(*State, []Val)) bool
}

func (h *effHooks) Call(in *Interp, c *CallCtx, k func(*State, []Val)) bool {
	if h.CallHook != nil {
		return h.CallHook(in, c, k)
	}
	return false
}

func (h *effHooks) FieldStore(in *Interp, l *ast.SelectorExpr, fv *types.Var, base, v Val, st *State, fr *frame) {
	st.emit(&Sym{Kind: "fstore", Name: fv.Name(), Arg: v, Args: []Val{base}, Pos: l.Pos(), Extra: exprString(l)})
}

func (h *effHooks) IndexStore(in *Interp, l *ast.IndexExpr, base, idx, v Val, st *State, fr *frame) {
	st.emit(&Sym{Kind: "istore", Arg: v, Args: []Val{base, idx}, Pos: l.Pos(), Extra: exprString(l)})
}

func (h *effHooks) DerefStore(in *Interp, l *ast.StarExpr, base, v Val, st *State, fr *frame) {
	st.emit(&Sym{Kind: "dstore", Arg: v, Args: []Val{base}, Pos: l.Pos(), Extra: exprString(l)})
}

// paramVals builds canonical argument values p0, p1, ... for a function's parameters and "recv"
// for its receiver.
func paramVals(fn *types.Func) (recv *Val, args []Val) {
	sig := fn.Type().(*types.Signature)
	if sig.Recv() != nil {
		r := Val{K: KExpr, Key: "recv", T: sig.Recv().Type()}
		recv = &r
	}
	for i := 0; i < sig.Params().Len(); i++ {
		args = append(args, Val{K: KExpr, Key: "p" + itoa(i), T: sig.Params().At(i).Type()})
	}
	return
}

func itoa(i int) string {
	if i == 0 {
		return "0"
	}
	s := ""
	for i > 0 {
		s = string(rune('0'+i%10)) + s
		i /= 10
	}
	return s
}

func (h *effHooks) Deref(in *Interp, x *ast.StarExpr, base Val, st *State) {
	st.emit(&Sym{Kind: "deref", Arg: base, Pos: x.Pos(), Extra: exprString(x)})
}
