package main

// C19: declared constants, validity predicates, String, Check* helpers, capability tables.
// Decided by abstract evaluation of the (loop-free or constant-bounded) predicate bodies over the
// partition of each code type's value domain induced by the constants the program compares
// against: {every declared constant} ∪ {every other constant expression of that type occurring in
// package primitive} ∪ {Other}, where Other is a value distinct from all of them. Because the
// predicates only compare their receiver for equality with constants, every member of the domain
// falls in one of these cells and the table is exact; a predicate that orders an Other value
// (<, >=) is undecided and fails the obligation.

import (
	"bufio"
	"fmt"
	"go/ast"
	"go/constant"
	"go/token"
	"go/types"
	"os"
	"path/filepath"
	"sort"
	"strconv"
	"strings"

	"golang.org/x/tools/go/types/typeutil"
)

func init() { register("C19", "proof", checkC19) }

type codeType struct {
	tn     *types.TypeName
	consts []*types.Const // declared
	extra  []constant.Value
}

func declaredCodeTypes(p *Program) []*codeType {
	pk := p.Pkg("primitive")
	scope := pk.Types.Scope()
	byType := map[*types.TypeName]*codeType{}
	var order []*types.TypeName
	for _, name := range scope.Names() {
		c, ok := scope.Lookup(name).(*types.Const)
		if !ok {
			continue
		}
		named, ok := c.Type().(*types.Named)
		if !ok || named.Obj().Pkg() != pk.Types {
			continue
		}
		ct := byType[named.Obj()]
		if ct == nil {
			ct = &codeType{tn: named.Obj()}
			byType[named.Obj()] = ct
			order = append(order, named.Obj())
		}
		ct.consts = append(ct.consts, c)
	}
	// other constant expressions of that type appearing in the package (case labels, comparisons)
	for e, tv := range pk.TypesInfo.Types {
		if tv.Value == nil {
			continue
		}
		named, ok := tv.Type.(*types.Named)
		if !ok {
			continue
		}
		ct := byType[named.Obj()]
		if ct == nil {
			continue
		}
		_ = e
		dup := false
		for _, c := range ct.consts {
			if constant.Compare(c.Val(), token.EQL, tv.Value) {
				dup = true
			}
		}
		for _, x := range ct.extra {
			if constant.Compare(x, token.EQL, tv.Value) {
				dup = true
			}
		}
		if !dup {
			ct.extra = append(ct.extra, tv.Value)
		}
	}
	sort.Slice(order, func(i, j int) bool { return order[i].Name() < order[j].Name() })
	var out []*codeType
	for _, tn := range order {
		ct := byType[tn]
		sort.Slice(ct.consts, func(i, j int) bool { return ct.consts[i].Name() < ct.consts[j].Name() })
		out = append(out, ct)
	}
	return out
}

// penum evaluates a predicate/method with constant or Other arguments.
type penum struct {
	in    *Interp
	other map[int]bool
}

func newPenum(p *Program) *penum {
	pe := &penum{other: map[int]bool{}}
	pe.in = newInterp(p, pe)
	return pe
}

func (pe *penum) Call(in *Interp, c *CallCtx, k func(*State, []Val)) bool { return false }

func (pe *penum) otherVal(t types.Type) Val {
	id := pe.in.newSym()
	pe.other[id] = true
	otherSyms[id] = true
	return Val{K: KSym, Sym: id, T: t}
}

// otherSyms: symbols that stand for "a value different from every constant in the program".
var otherSyms = map[int]bool{}

func init() {
	prev := compareHook
	compareHook = func(in *Interp, op token.Token, l, r Val, st *State) (Tri, bool) {
		if l.K == KSym && otherSyms[l.Sym] && r.K == KConst && (op == token.EQL || op == token.NEQ) {
			return Tri{Known: true, Val: op == token.NEQ}, true
		}
		if r.K == KSym && otherSyms[r.Sym] && l.K == KConst && (op == token.EQL || op == token.NEQ) {
			return Tri{Known: true, Val: op == token.NEQ}, true
		}
		if prev != nil {
			return prev(in, op, l, r, st)
		}
		return Tri{}, false
	}
}

// eval runs fn and returns the single result value; ok=false if the evaluation forked or did not
// produce exactly one outcome.
func (pe *penum) eval(fn *types.Func, recv *Val, args ...Val) (Val, bool, string) {
	n0 := len(pe.in.Undecided)
	outs := pe.in.RunFunc(fn, recv, args, nil)
	if len(pe.in.Undecided) > n0 {
		return unknown, false, strings.Join(pe.in.Undecided[n0:], "; ")
	}
	if len(outs) != 1 {
		return unknown, false, fmt.Sprintf("%d outcomes (undecided condition)", len(outs))
	}
	if len(outs[0].Ret) != 1 {
		return unknown, false, "arity"
	}
	return outs[0].Ret[0], true, ""
}

func (pe *penum) evalBool(fn *types.Func, recv *Val, args ...Val) (bool, bool, string) {
	v, ok, why := pe.eval(fn, recv, args...)
	if !ok {
		return false, false, why
	}
	b, isb := v.isBool()
	if !isb {
		return false, false, "non-constant result " + v.String()
	}
	return b, true, ""
}

func methodOf(tn *types.TypeName, name string) *types.Func {
	obj, _, _ := types.LookupFieldOrMethod(tn.Type(), true, tn.Pkg(), name)
	f, _ := obj.(*types.Func)
	return f
}

func constLabel(c constant.Value) string {
	if c.Kind() == constant.String {
		return strconv.Quote(constant.StringVal(c))
	}
	if i, ok := constant.Uint64Val(c); ok {
		return fmt.Sprintf("%#x", i)
	}
	return c.ExactString()
}

type specRow struct {
	cols []string
	line int
}

func readTSV(path string) []specRow {
	f, err := os.Open(path)
	if err != nil {
		fatalf("spec table: %v", err)
	}
	defer f.Close()
	var rows []specRow
	sc := bufio.NewScanner(f)
	sc.Buffer(make([]byte, 1<<20), 1<<20)
	n := 0
	for sc.Scan() {
		n++
		line := sc.Text()
		if strings.HasPrefix(line, "#") || strings.TrimSpace(line) == "" {
			continue
		}
		rows = append(rows, specRow{cols: strings.Split(line, "\t"), line: n})
	}
	return rows
}

var versionCols = []struct {
	name string
	val  int64
}{{"v2", 2}, {"v3", 3}, {"v4", 4}, {"v5", 5}, {"D1", 65}, {"D2", 66}}

func supportedVersions(p *Program, pe *penum) []constant.Value {
	fn := p.LookupFunc("primitive", "SupportedProtocolVersions")
	v, ok, why := pe.eval(fn, nil)
	if !ok || v.K != KSlice {
		fatalf("anchor: SupportedProtocolVersions is not a literal list (%s)", why)
	}
	var out []constant.Value
	for _, e := range v.Elems {
		if e.K != KConst {
			fatalf("anchor: SupportedProtocolVersions element not constant")
		}
		out = append(out, e.C)
	}
	return out
}

func verifDir() string {
	exe, _ := os.Executable()
	d := filepath.Dir(filepath.Dir(exe))
	if v := os.Getenv("VERIF_DIR"); v != "" {
		d = v
	}
	return d
}

func checkC19(p *Program, r *Report) {
	r.Explanation = "Exhaustive static tabulation: every validity/classification predicate, String method and Check* helper of package primitive is evaluated by an abstract interpreter of its source over the partition {declared constants, other compared constants, Other} of each code type's domain; capability predicates are tabulated over the six supported versions and compared with the hand-transcribed spec tables (spec/capabilities.tsv, spec/codes.tsv). No code of /repo is executed."
	r.Trusted = []string{"go/types constant evaluation", "absint evaluator (checker/ai*.go)", "spec/capabilities.tsv and spec/codes.tsv as transcribed from /repo/specs"}
	r.Assumptions = []string{"predicates compare their receiver only for equality with constants (an ordering test on an undeclared value is reported as undecided)", "capability cells for unsupported version numbers are not constrained by the specs and not checked"}
	r.Exhaustive = true
	pe := newPenum(p)
	cts := declaredCodeTypes(p)
	r.Extra["code_types"] = len(cts)
	vers := supportedVersions(p, pe)
	if len(vers) < 6 {
		fatalf("expected >= 6 supported versions, found %d", len(vers))
	}
	nConst := 0
	for _, ct := range cts {
		nConst += len(ct.consts)
	}
	r.Extra["declared_constants"] = nConst

	validName := func(ct *codeType) string {
		if ct.tn.Name() == "ProtocolVersion" {
			return "IsSupported"
		}
		return "IsValid"
	}
	// ---- closure of IsValid -----------------------------------------------------------
	r.Floor("closure", 120)
	r.Floor("closure-other", 17)
	for _, ct := range cts {
		m := methodOf(ct.tn, validName(ct))
		if m == nil {
			continue // flag types have no validity predicate
		}
		for _, c := range ct.consts {
			rv := constVal(c.Val(), ct.tn.Type())
			b, ok, why := pe.evalBool(m, &rv)
			key := fmt.Sprintf("%s.%s(%s)", ct.tn.Name(), m.Name(), c.Name())
			switch {
			case !ok:
				r.Fail("closure", key, m.Pos(), "undecided: %s", why)
			case !b:
				r.Fail("closure", key, c.Pos(), "declared constant %s (%s) is rejected by %s.%s", c.Name(), constLabel(c.Val()), ct.tn.Name(), m.Name())
			default:
				r.OKf("closure", key, c.Pos(), "accepted")
			}
		}
		for _, x := range ct.extra {
			rv := constVal(x, ct.tn.Type())
			b, ok, why := pe.evalBool(m, &rv)
			key := fmt.Sprintf("%s.%s(undeclared %s)", ct.tn.Name(), m.Name(), constLabel(x))
			switch {
			case !ok:
				r.Fail("closure-other", key, m.Pos(), "undecided: %s", why)
			case b:
				r.Fail("closure-other", key, m.Pos(), "undeclared value %s is accepted by %s.%s", constLabel(x), ct.tn.Name(), m.Name())
			default:
				r.OKf("closure-other", key, m.Pos(), "rejected")
			}
		}
		ov := pe.otherVal(ct.tn.Type())
		b, ok, why := pe.evalBool(m, &ov)
		key := fmt.Sprintf("%s.%s(Other)", ct.tn.Name(), m.Name())
		if !ok {
			// the predicate orders or masks its receiver: fall back to the complete value domain
			// of 8- and 16-bit code types (exact, just slower)
			if accepted, done := wholeDomain(pe, m, ct); done {
				ok, b, why = true, len(accepted) > 0, ""
				if b {
					r.Fail("closure-other", key, m.Pos(), "%s.%s accepts undeclared values %v (complete domain enumerated)", ct.tn.Name(), m.Name(), accepted)
					continue
				}
			}
		}
		switch {
		case !ok:
			r.Fail("closure-other", key, m.Pos(), "undecided for a value different from every constant: %s", why)
		case b:
			r.Fail("closure-other", key, m.Pos(), "%s.%s accepts values that are not declared constants", ct.tn.Name(), m.Name())
		default:
			r.OKf("closure-other", key, m.Pos(), "every value outside the declared constants is rejected")
		}
	}

	// ---- classification: every predicate other than IsValid is a subset of IsValid; opcodes are
	// request xor response ------------------------------------------------------------------
	r.Floor("classification", 17)
	r.Floor("subset", 11)
	for _, ct := range cts {
		valid := methodOf(ct.tn, validName(ct))
		if valid == nil {
			continue
		}
		named := ct.tn.Type().(*types.Named)
		var preds []*types.Func
		for i := 0; i < named.NumMethods(); i++ {
			m := named.Method(i)
			sig := m.Type().(*types.Signature)
			if m == valid || sig.Params().Len() != 0 || sig.Results().Len() != 1 {
				continue
			}
			if b, ok := sig.Results().At(0).Type().Underlying().(*types.Basic); !ok || b.Kind() != types.Bool {
				continue
			}
			if ct.tn.Name() == "ProtocolVersion" {
				continue // capability predicates: separate rule
			}
			preds = append(preds, m)
		}
		for _, m := range preds {
			// no classification predicate accepts an undeclared value
			ov := pe.otherVal(ct.tn.Type())
			b, ok, why := pe.evalBool(m, &ov)
			key := fmt.Sprintf("%s.%s(Other)", ct.tn.Name(), m.Name())
			if !ok {
				r.Fail("subset", key, m.Pos(), "undecided: %s", why)
			} else if b {
				r.Fail("subset", key, m.Pos(), "%s.%s holds for values that are not declared constants", ct.tn.Name(), m.Name())
			} else {
				r.OKf("subset", key, m.Pos(), "false outside the declared constants")
			}
			for _, x := range ct.extra {
				rv := constVal(x, ct.tn.Type())
				b, ok, why := pe.evalBool(m, &rv)
				key := fmt.Sprintf("%s.%s(undeclared %s)", ct.tn.Name(), m.Name(), constLabel(x))
				if !ok {
					r.Fail("subset", key, m.Pos(), "undecided: %s", why)
				} else if b {
					r.Fail("subset", key, m.Pos(), "%s.%s holds for undeclared value %s", ct.tn.Name(), m.Name(), constLabel(x))
				} else {
					r.OKf("subset", key, m.Pos(), "false")
				}
			}
		}
		if ct.tn.Name() == "OpCode" {
			req, resp := methodOf(ct.tn, "IsRequest"), methodOf(ct.tn, "IsResponse")
			if req == nil || resp == nil {
				fatalf("anchor: OpCode.IsRequest/IsResponse")
			}
			for _, c := range ct.consts {
				rv := constVal(c.Val(), ct.tn.Type())
				a, ok1, w1 := pe.evalBool(req, &rv)
				b, ok2, w2 := pe.evalBool(resp, &rv)
				key := fmt.Sprintf("OpCode request-xor-response(%s)", c.Name())
				switch {
				case !ok1 || !ok2:
					r.Fail("classification", key, c.Pos(), "undecided: %s %s", w1, w2)
				case a == b:
					r.Fail("classification", key, c.Pos(), "opcode %s: IsRequest=%v IsResponse=%v (must be exactly one)", c.Name(), a, b)
				default:
					r.OKf("classification", key, c.Pos(), "IsRequest=%v IsResponse=%v", a, b)
				}
			}
		}
	}

	// ---- String ------------------------------------------------------------------------------
	r.Floor("string", 140)
	for _, ct := range cts {
		sm := methodOf(ct.tn, "String")
		b, isBasic := ct.tn.Type().Underlying().(*types.Basic)
		if sm == nil {
			if isBasic && b.Info()&types.IsString != 0 {
				// string-valued code space: the value is its own name
				seen := map[string]string{}
				for _, c := range ct.consts {
					s := constant.StringVal(c.Val())
					key := fmt.Sprintf("%s name(%s)", ct.tn.Name(), c.Name())
					if s == "" {
						r.Fail("string", key, c.Pos(), "empty name")
					} else if o, dup := seen[s]; dup {
						r.Fail("string", key, c.Pos(), "same name %q as %s", s, o)
					} else {
						r.OKf("string", key, c.Pos(), "prints as %q", s)
					}
					seen[s] = c.Name()
				}
			}
			continue
		}
		ov := pe.otherVal(ct.tn.Type())
		fb, ok, why := pe.eval(sm, &ov)
		if !ok {
			r.Fail("string", ct.tn.Name()+".String(Other)", sm.Pos(), "undecided: %s", why)
			continue
		}
		seen := map[string]string{}
		for _, c := range ct.consts {
			rv := constVal(c.Val(), ct.tn.Type())
			v, ok, why := pe.eval(sm, &rv)
			key := fmt.Sprintf("%s.String(%s)", ct.tn.Name(), c.Name())
			if !ok {
				r.Fail("string", key, sm.Pos(), "undecided: %s", why)
				continue
			}
			name := v.String()
			if v.K == KConst && v.C.Kind() == constant.String {
				name = constant.StringVal(v.C)
			}
			if sameVal(v, fb) || (v.K != KConst && v.K != KExpr) {
				r.Fail("string", key, c.Pos(), "declared constant %s is printed by the fallback (%s)", c.Name(), name)
			} else if o, dup := seen[name]; dup {
				r.Fail("string", key, c.Pos(), "same text %q as %s", name, o)
			} else {
				r.OKf("string", key, c.Pos(), "%q", name)
			}
			seen[name] = c.Name()
		}
	}

	// ---- Check* helpers negate exactly the predicates they call -----------------------------
	r.Floor("check-helper", 18)
	c19CheckHelpers(p, r, pe, cts, vers)

	// ---- capability tables ---------------------------------------------------------------------
	c19Capabilities(p, r, pe, cts, vers)

	// ---- declared constants vs codes.tsv -----------------------------------------------------
	c19Codes(p, r, cts, "C19")
}

func c19CheckHelpers(p *Program, r *Report, pe *penum, cts []*codeType, vers []constant.Value) {
	pk := p.Pkg("primitive")
	scope := pk.Types.Scope()
	byName := map[string]*codeType{}
	for _, ct := range cts {
		byName[ct.tn.Name()] = ct
	}
	for _, name := range scope.Names() {
		fn, ok := scope.Lookup(name).(*types.Func)
		if !ok || !strings.HasPrefix(name, "Check") {
			continue
		}
		sig := fn.Type().(*types.Signature)
		if sig.Results().Len() != 1 || !isErrorType(sig.Results().At(0).Type()) || sig.Params().Len() < 1 {
			continue
		}
		decl, _ := p.Decl(fn)
		if decl == nil {
			continue
		}
		// predicates called in the body on parameters
		var preds []*ast.CallExpr
		ast.Inspect(decl.Body, func(n ast.Node) bool {
			if ce, ok := n.(*ast.CallExpr); ok {
				if f, ok := typeutil.Callee(pk.TypesInfo, ce).(*types.Func); ok && f.Pkg() == pk.Types {
					if s := f.Type().(*types.Signature); s.Recv() != nil && s.Results().Len() == 1 {
						if b, ok := s.Results().At(0).Type().Underlying().(*types.Basic); ok && b.Kind() == types.Bool {
							preds = append(preds, ce)
						}
					}
				}
			}
			return true
		})
		if len(preds) == 0 {
			r.Fail("check-helper", name, fn.Pos(), "helper calls no predicate")
			continue
		}
		// argument domains
		var doms [][]Val
		for i := 0; i < sig.Params().Len(); i++ {
			pt := sig.Params().At(i).Type()
			n, _ := pt.(*types.Named)
			if n == nil {
				doms = append(doms, []Val{unknown})
				continue
			}
			if n.Obj().Name() == "ProtocolVersion" && i > 0 {
				var d []Val
				for _, v := range vers {
					d = append(d, constVal(v, pt))
				}
				doms = append(doms, d)
				continue
			}
			ct := byName[n.Obj().Name()]
			if ct == nil {
				doms = append(doms, []Val{unknown})
				continue
			}
			var d []Val
			for _, c := range ct.consts {
				d = append(d, constVal(c.Val(), pt))
			}
			for _, x := range ct.extra {
				d = append(d, constVal(x, pt))
			}
			d = append(d, pe.otherVal(pt))
			doms = append(doms, d)
		}
		// evaluate over the product
		idx := make([]int, len(doms))
		bad := ""
		cells := 0
		for {
			args := make([]Val, len(doms))
			for i := range doms {
				args[i] = doms[i][idx[i]]
			}
			res, ok, why := pe.eval(fn, nil, args...)
			if !ok || (res.K != KNil && res.K != KNonNil) {
				bad = fmt.Sprintf("undecided for %v: %s %v", args, why, res)
				break
			}
			// expected: conjunction of the called predicates evaluated on the same arguments
			want := true
			for _, ce := range preds {
				pf := typeutil.Callee(pk.TypesInfo, ce).(*types.Func)
				se := ce.Fun.(*ast.SelectorExpr)
				rv, okr := argFor(se.X, decl, pk.TypesInfo, args)
				if !okr {
					bad = "receiver of " + pf.Name() + " is not a parameter"
					break
				}
				var pargs []Val
				for _, a := range ce.Args {
					av, oka := argFor(a, decl, pk.TypesInfo, args)
					if !oka {
						bad = "argument of " + pf.Name() + " is not a parameter"
						break
					}
					pargs = append(pargs, av)
				}
				b, okb, why := pe.evalBool(pf, &rv, pargs...)
				if !okb {
					bad = "predicate undecided: " + why
					break
				}
				want = want && b
			}
			if bad != "" {
				break
			}
			cells++
			if (res.K == KNil) != want {
				bad = fmt.Sprintf("for arguments %v the helper returns error=%v but its predicates give %v", args, res.K == KNonNil, want)
				break
			}
			// next index
			i := len(idx) - 1
			for ; i >= 0; i-- {
				idx[i]++
				if idx[i] < len(doms[i]) {
					break
				}
				idx[i] = 0
			}
			if i < 0 {
				break
			}
		}
		if bad != "" {
			r.Fail("check-helper", name, fn.Pos(), "%s", bad)
		} else {
			r.OKf("check-helper", name, fn.Pos(), "error result is nil exactly when the called predicates hold (%d argument cells)", cells)
		}
	}
}

// argFor maps an expression that is a bare parameter name to the corresponding argument value.
func argFor(e ast.Expr, decl *ast.FuncDecl, info *types.Info, args []Val) (Val, bool) {
	id, ok := ast.Unparen(e).(*ast.Ident)
	if !ok {
		return unknown, false
	}
	obj := info.ObjectOf(id)
	i := 0
	for _, fld := range decl.Type.Params.List {
		for _, nm := range fld.Names {
			if info.Defs[nm] == obj {
				return args[i], true
			}
			i++
		}
	}
	return unknown, false
}

func parseSpecValue(s string) (constant.Value, bool) {
	s = strings.TrimSpace(s)
	if i, err := strconv.ParseInt(s, 0, 64); err == nil {
		return constant.MakeInt64(i), true
	}
	if u, err := strconv.ParseUint(s, 0, 64); err == nil {
		return constant.MakeUint64(u), true
	}
	return nil, false
}

func c19Capabilities(p *Program, r *Report, pe *penum, cts []*codeType, vers []constant.Value) {
	r.Floor("capability", 250)
	rows := readTSV(filepath.Join(verifDir(), "spec", "capabilities.tsv"))
	pvT := p.LookupType("primitive", "ProtocolVersion")
	covered := map[string]bool{}
	weak := 0
	for _, row := range rows {
		if len(row.cols) < 9 {
			fatalf("capabilities.tsv line %d: expected 9 columns", row.line)
		}
		m := methodOf(pvT, row.cols[0])
		if m == nil {
			fatalf("anchor: capabilities.tsv line %d names ProtocolVersion.%s which does not exist", row.line, row.cols[0])
		}
		covered[m.Name()] = true
		sig := m.Type().(*types.Signature)
		var args []Val
		if row.cols[1] != "-" {
			if sig.Params().Len() != 1 {
				fatalf("capabilities.tsv line %d: %s takes no argument", row.line, m.Name())
			}
			pt := sig.Params().At(0).Type()
			if v, ok := parseSpecValue(row.cols[1]); ok {
				args = []Val{constVal(v, pt)}
			} else {
				args = []Val{constVal(constant.MakeString(row.cols[1]), pt)}
			}
		}
		for i, vc := range versionCols {
			cell := strings.TrimSpace(row.cols[2+i])
			isWeak := strings.HasSuffix(cell, "~")
			cell = strings.TrimSuffix(cell, "~")
			if isWeak {
				weak++
			}
			rv := constVal(constant.MakeInt64(vc.val), pvT.Type())
			key := fmt.Sprintf("%s(%s)@%s", m.Name(), row.cols[1], vc.name)
			got, ok, why := pe.eval(m, &rv, args...)
			if !ok || got.K != KConst {
				r.Fail("capability", key, m.Pos(), "undecided: %s %v", why, got)
				continue
			}
			var want constant.Value
			switch cell {
			case "T":
				want = constant.MakeBool(true)
			case "F":
				want = constant.MakeBool(false)
			default:
				v, okv := parseSpecValue(cell)
				if !okv {
					fatalf("capabilities.tsv line %d: bad cell %q", row.line, cell)
				}
				want = v
			}
			same := false
			if want.Kind() == constant.Bool && got.C.Kind() == constant.Bool {
				same = constant.BoolVal(want) == constant.BoolVal(got.C)
			} else if want.Kind() != constant.Bool && got.C.Kind() != constant.Bool {
				same = constant.Compare(want, token.EQL, got.C)
			}
			if !same {
				r.Fail("capability", key, m.Pos(), "ProtocolVersion.%s(%s) for %s is %s in the code, %s in the specification (%s)", m.Name(), row.cols[1], vc.name, got.C, want, row.cols[8])
			} else {
				r.OKf("capability", key, m.Pos(), "%s (%s)", got.C, row.cols[8])
			}
		}
	}
	r.Extra["weak_oracle_cells"] = weak
	// every Supports*/Uses* predicate has a row; every argument constant of an argument-taking predicate has a row
	named := pvT.Type().(*types.Named)
	r.Floor("capability-coverage", 12)
	for i := 0; i < named.NumMethods(); i++ {
		m := named.Method(i)
		if !(strings.HasPrefix(m.Name(), "Supports") || strings.HasPrefix(m.Name(), "Uses") || strings.HasPrefix(m.Name(), "Is") || strings.HasPrefix(m.Name(), "FrameHeader")) {
			continue
		}
		if covered[m.Name()] {
			r.OKf("capability-coverage", m.Name(), m.Pos(), "has spec rows")
		} else {
			r.Fail("capability-coverage", m.Name(), m.Pos(), "capability predicate ProtocolVersion.%s has no row in spec/capabilities.tsv", m.Name())
		}
	}
	// argument domains: every declared constant of the parameter type has a row; Other => false
	byName := map[string]*codeType{}
	for _, ct := range cts {
		byName[ct.tn.Name()] = ct
	}
	for i := 0; i < named.NumMethods(); i++ {
		m := named.Method(i)
		sig := m.Type().(*types.Signature)
		if sig.Params().Len() != 1 || !covered[m.Name()] {
			continue
		}
		pn, _ := sig.Params().At(0).Type().(*types.Named)
		if pn == nil {
			continue
		}
		ct := byName[pn.Obj().Name()]
		if ct == nil {
			continue
		}
		for _, c := range ct.consts {
			found := false
			for _, row := range rows {
				if row.cols[0] != m.Name() {
					continue
				}
				if v, ok := parseSpecValue(row.cols[1]); ok {
					found = found || (c.Val().Kind() != constant.String && constant.Compare(v, token.EQL, c.Val()))
				} else if c.Val().Kind() == constant.String {
					found = found || constant.StringVal(c.Val()) == row.cols[1]
				}
			}
			key := fmt.Sprintf("%s(%s) has rows", m.Name(), c.Name())
			if found {
				r.OKf("capability-coverage", key, c.Pos(), "ok")
			} else {
				r.Fail("capability-coverage", key, c.Pos(), "no row for argument %s of %s in spec/capabilities.tsv", c.Name(), m.Name())
			}
		}
		for _, v := range vers {
			rv := constVal(v, pvT.Type())
			ov := pe.otherVal(pn)
			b, ok, why := pe.evalBool(m, &rv, ov)
			key := fmt.Sprintf("%s(Other)@%s", m.Name(), v.ExactString())
			if !ok {
				r.Fail("capability", key, m.Pos(), "undecided: %s", why)
			} else if b {
				r.Fail("capability", key, m.Pos(), "%s holds for an undeclared argument", m.Name())
			} else {
				r.OKf("capability", key, m.Pos(), "false for undeclared arguments")
			}
		}
	}
}

// c19Codes compares declared constants with spec/codes.tsv by value.
func c19Codes(p *Program, r *Report, cts []*codeType, prop string) {
	r.Floor("codes", 145)
	rows := readTSV(filepath.Join(verifDir(), "spec", "codes.tsv"))
	type specVal struct {
		name, versions, attr, ref, declared string
		val                                 constant.Value
		used                                bool
	}
	spec := map[string][]*specVal{}
	for _, row := range rows {
		if len(row.cols) < 7 {
			fatalf("codes.tsv line %d: expected 7 columns", row.line)
		}
		sv := &specVal{name: row.cols[1], versions: row.cols[3], attr: row.cols[4], ref: row.cols[5], declared: strings.TrimSpace(row.cols[6])}
		if row.cols[2] == "STRING" {
			n := row.cols[1]
			if i := strings.Index(n, "("); i >= 0 {
				n = n[:i]
			}
			sv.val = constant.MakeString(n)
		} else if v, ok := parseSpecValue(row.cols[2]); ok {
			sv.val = v
		} else {
			fatalf("codes.tsv line %d: bad value %q", row.line, row.cols[2])
		}
		spec[row.cols[0]] = append(spec[row.cols[0]], sv)
	}
	pk := p.Pkg("primitive")
	for _, ct := range cts {
		svs := spec[ct.tn.Name()]
		if svs == nil {
			r.Fail("codes", ct.tn.Name(), ct.tn.Pos(), "code type %s has declared constants but no rows in spec/codes.tsv", ct.tn.Name())
			continue
		}
		for _, c := range ct.consts {
			var hit *specVal
			for _, sv := range svs {
				if sv.val.Kind() == c.Val().Kind() && constant.Compare(sv.val, token.EQL, c.Val()) {
					hit = sv
				}
			}
			key := fmt.Sprintf("%s %s", ct.tn.Name(), c.Name())
			if hit == nil {
				r.Fail("codes", key, c.Pos(), "declared constant %s = %s is not a value the specifications define for %s", c.Name(), constLabel(c.Val()), ct.tn.Name())
				continue
			}
			hit.used = true
			// opcode direction
			if ct.tn.Name() == "OpCode" {
				pe := newPenum(p)
				rv := constVal(c.Val(), ct.tn.Type())
				isReq, ok, _ := pe.evalBool(methodOf(ct.tn, "IsRequest"), &rv)
				if ok && (isReq != (hit.attr == "request")) {
					r.Fail("codes", key, c.Pos(), "opcode %s is a %s in the specification (%s) but IsRequest=%v", c.Name(), hit.attr, hit.ref, isReq)
					continue
				}
			}
			r.OKf("codes", key, c.Pos(), "= %s (%s, %s)", constLabel(c.Val()), hit.name, hit.ref)
		}
		for _, sv := range svs {
			if sv.declared == "yes" && !sv.used {
				r.Fail("codes", fmt.Sprintf("%s spec value %s", ct.tn.Name(), constLabel(sv.val)), ct.tn.Pos(), "the specification defines %s %s = %s (%s) but no constant with that value is declared", ct.tn.Name(), sv.name, constLabel(sv.val), sv.ref)
			}
		}
	}
	// ValueType constants live in package primitive as well (values.go); covered when declared as a named type.
	_ = pk
}

// wholeDomain evaluates a predicate for every value of an 8- or 16-bit code type and returns the
// undeclared values it accepts; done=false when the domain is larger or an evaluation is undecided.
func wholeDomain(pe *penum, m *types.Func, ct *codeType) (accepted []string, done bool) {
	bits, signed, ok := intBits(ct.tn.Type())
	if !ok || bits > 16 || signed {
		return nil, false
	}
	declared := map[int64]bool{}
	for _, c := range ct.consts {
		if i, ok := constant.Int64Val(c.Val()); ok {
			declared[i] = true
		}
	}
	for v := int64(0); v < 1<<uint(bits); v++ {
		if declared[v] {
			continue
		}
		rv := constVal(constant.MakeInt64(v), ct.tn.Type())
		b, ok, _ := pe.evalBool(m, &rv)
		if !ok {
			return nil, false
		}
		if b {
			accepted = append(accepted, fmt.Sprintf("%#x", v))
			if len(accepted) > 8 {
				break
			}
		}
	}
	return accepted, true
}
