package main

import (
	"fmt"
	"go/ast"
	"go/constant"
	"go/token"
	"go/types"
	"strings"

	"golang.org/x/tools/go/types/typeutil"
)

func (in *Interp) call(x *ast.CallExpr, st *State, fr *frame, k func(*State, Val)) {
	info := fr.info
	// conversion?
	if tv, ok := info.Types[x.Fun]; ok && tv.IsType() && len(x.Args) == 1 {
		in.expr(x.Args[0], st, fr, func(st *State, v Val) {
			k(st, in.convert(v, tv.Type, typeOf(fr, x.Args[0]), st))
		})
		return
	}
	// builtin?
	if id, ok := ast.Unparen(x.Fun).(*ast.Ident); ok {
		if b, ok := info.ObjectOf(id).(*types.Builtin); ok {
			in.builtin(b.Name(), x, st, fr, k)
			return
		}
	}
	ret := func(st *State, vals []Val) {
		switch len(vals) {
		case 0:
			k(st, unknown)
		case 1:
			k(st, vals[0])
		default:
			k(st, Val{K: KTuple, Elems: vals})
		}
	}
	callee := typeutil.Callee(info, x)
	fnObj, _ := callee.(*types.Func)
	// evaluate receiver (if method) and args
	var recvE ast.Expr
	iface := false
	var recvT types.Type
	if se, ok := ast.Unparen(x.Fun).(*ast.SelectorExpr); ok {
		if sel := info.Selections[se]; sel != nil && sel.Kind() == types.MethodVal {
			recvE = se.X
			recvT = sel.Recv()
			if _, isI := sel.Recv().Underlying().(*types.Interface); isI {
				iface = true
			}
		}
	}
	evalArgs := func(st *State, recv *Val) {
		in.exprs(x.Args, st, fr, func(st *State, args []Val) {
			if len(args) == 1 && args[0].K == KTuple {
				args = args[0].Elems
			}
			if x.Ellipsis.IsValid() && len(args) > 0 {
				// f(xs...) : pass the slice elements when known
				last := args[len(args)-1]
				if last.K == KSlice {
					args = append(append([]Val(nil), args[:len(args)-1]...), last.Elems...)
				}
			}
			cc := &CallCtx{Site: x, Callee: fnObj, Recv: recv, RecvT: recvT, Args: args, ArgEs: x.Args, St: st, Fr: fr, Iface: iface}
			if fnObj == nil {
				// dynamic call of a function value
				in.expr(x.Fun, st, fr, func(st *State, fv Val) {
					cc.St = st
					if in.Hooks != nil && in.Hooks.Call(in, cc, ret) {
						return
					}
					if fv.K == KFunc && fv.Fn != nil {
						if fv.Fn.Lit != nil {
							in.callLit(fv.Fn, args, st, fr, x.Pos(), ret)
							return
						}
						if fv.Fn.Decl != nil {
							cc2 := *cc
							cc2.Callee = fv.Fn.Decl
							cc2.Recv = fv.Fn.Recv
							in.dispatch(&cc2, ret)
							return
						}
					}
					st.emit(&Sym{Kind: "dyn", Name: "funcvalue:" + exprString(x.Fun), Pos: x.Pos(), Args: args})
					sig, _ := typeOf(fr, x.Fun).Underlying().(*types.Signature)
					if sig != nil {
						in.forkErr(sig, st, ret)
					} else {
						ret(st, nil)
					}
				})
				return
			}
			in.dispatch(cc, ret)
		})
	}
	if recvE != nil {
		in.expr(recvE, st, fr, func(st *State, rv Val) {
			r := rv
			evalArgs(st, &r)
		})
		return
	}
	evalArgs(st, nil)
}

// forkErr returns unknown results; an error result forks into nil / non-nil.
func (in *Interp) forkErr(sig *types.Signature, st *State, ret func(*State, []Val)) {
	n := sig.Results().Len()
	if n > 0 && isErrorType(sig.Results().At(n-1).Type()) {
		for _, n := range st.notes {
			if n == "pure" {
				panic(pureAbort{})
			}
		}
		in.countPath()
		s2 := st.clone()
		ok := in.unknownResults(sig)
		ok[n-1] = Val{K: KNil}
		bad := in.unknownResults(sig)
		bad[n-1] = Val{K: KNonNil}
		ret(st, ok)
		ret(s2, bad)
		return
	}
	ret(st, in.unknownResults(sig))
}

func (in *Interp) dispatch(cc *CallCtx, ret func(*State, []Val)) {
	st := cc.St
	fn := cc.Callee
	if in.Hooks != nil && in.Hooks.Call(in, cc, ret) {
		return
	}
	sig := fn.Type().(*types.Signature)
	if cc.Iface {
		// pure getter through an interface: a canonical expression, no effect
		if cc.Recv != nil && sig.Params().Len() == 0 && sig.Results().Len() == 1 && in.isPureGetter(fn) {
			in.markGetterFields(fn)
			switch cc.Recv.K {
			case KExpr:
				key := cc.Recv.Key + "." + fn.Name() + "()"
				ret(st, []Val{in.resolve(Val{K: KExpr, Key: key, T: sig.Results().At(0).Type()}, st)})
				return
			}
			ret(st, []Val{unknown})
			return
		}
		name := fn.Name()
		if recvN := namedOf(cc.RecvT); recvN != nil {
			name = shortPkg(recvN.Obj().Pkg()) + "." + recvN.Obj().Name() + "." + fn.Name()
		}
		st.emit(&Sym{Kind: "dyn", Name: name, Pos: cc.Site.Pos(), Args: cc.Args, Arg: derefVal(cc.Recv)})
		if sig.Results().Len() > 0 && isIntType(sig.Results().At(0).Type()) {
			// a length computed behind an interface: a symbolic term named after the interface
			arg0 := ""
			if len(cc.Args) > 0 {
				arg0 = nameOf(cc.Args[0])
			}
			lin := Val{K: KLin, Lin: linTerm("dyn:" + dynStem(name) + "(" + arg0 + ")")}
			in.forkErr(sig, st, func(s *State, vals []Val) {
				vals[0] = lin
				ret(s, vals)
			})
			return
		}
		in.forkErr(sig, st, ret)
		return
	}
	if isModulePkg(fn.Pkg()) {
		// pure boolean predicates that iterate over their argument (their result would be unknown
		// after loop summarisation): a named atom, answered consistently along the path
		if sig.Results().Len() == 1 && in.isPureLoopPredicate(fn) {
			allKeys := len(cc.Args) > 0
			var ks []string
			for _, a := range cc.Args {
				if a.K != KExpr {
					allKeys = false
				}
				ks = append(ks, a.Key)
			}
			if allKeys {
				ret(st, []Val{{K: KExpr, Key: fn.Name() + "(" + strings.Join(ks, ",") + ")", T: sig.Results().At(0).Type()}})
				return
			}
		}
		if in.NoInline != nil && in.NoInline(fn) {
			name := shortFuncName(fn)
			st.emit(&Sym{Kind: "callatom", Name: name, Pos: cc.Site.Pos(), Args: cc.Args, Arg: derefVal(cc.Recv)})
			n := sig.Results().Len()
			// a boolean predicate: a named atom answered consistently along the path
			if n == 1 {
				if b, ok := sig.Results().At(0).Type().Underlying().(*types.Basic); ok && b.Kind() == types.Bool {
					var ks []string
					if cc.Recv != nil {
						ks = append(ks, nameOf(*cc.Recv))
					}
					for _, a := range cc.Args {
						ks = append(ks, nameOf(a))
					}
					ret(st, []Val{{K: KExpr, Key: name + "(" + strings.Join(ks, ",") + ")", T: sig.Results().At(0).Type()}})
					return
				}
			}
			if n > 0 && isErrorType(sig.Results().At(n-1).Type()) {
				in.forkErr(sig, st, func(s *State, vals []Val) {
					out := "ok"
					if vals[n-1].K == KNonNil {
						out = "err"
					}
					s.emit(&Sym{Kind: "callret", Name: name, Extra: out, Pos: cc.Site.Pos()})
					for i := 0; i < n-1; i++ {
						if vals[i].K == KUnknown {
							vals[i] = Val{K: KExpr, Key: fmt.Sprintf("%s#%d", name, i), T: sig.Results().At(i).Type()}
						}
					}
					ret(s, vals)
				})
				return
			}
			vals := in.unknownResults(sig)
			for i := range vals {
				vals[i] = Val{K: KExpr, Key: fmt.Sprintf("%s#%d", name, i), T: sig.Results().At(i).Type()}
			}
			ret(st, vals)
			return
		}
		in.inline(fn, cc.Recv, cc.Args, st, cc.Fr, cc.Site.Pos(), ret)
		return
	}
	in.external(cc, ret)
}

func derefVal(v *Val) Val {
	if v == nil {
		return unknown
	}
	return *v
}

func namedOf(t types.Type) *types.Named {
	if t == nil {
		return nil
	}
	if p, ok := t.(*types.Pointer); ok {
		t = p.Elem()
	}
	n, _ := t.(*types.Named)
	return n
}

// external models calls into the standard library / third-party code.
func (in *Interp) external(cc *CallCtx, ret func(*State, []Val)) {
	fn := cc.Callee
	sig := fn.Type().(*types.Signature)
	full := fn.FullName()
	switch full {
	case "fmt.Errorf", "errors.New":
		ret(cc.St, []Val{{K: KNonNil}})
		return
	case "fmt.Sprintf", "fmt.Sprint":
		v := Val{K: KExpr, Key: "fmt:?"}
		if len(cc.Args) > 0 && cc.Args[0].K == KConst && cc.Args[0].C.Kind() == constant.String {
			v.Key = "fmt:" + constant.StringVal(cc.Args[0].C)
		}
		ret(cc.St, []Val{v})
		return
	case "errors.Is", "errors.As":
		ret(cc.St, []Val{unknown})
		return
	case "bytes.NewBuffer", "bytes.NewReader":
		if in.BitMode && len(cc.Args) == 1 {
			name := fmt.Sprintf("buf#%d", in.P.Fset.Position(cc.Site.Pos()).Line)
			if cc.Args[0].K == KExpr {
				name = cc.Args[0].Key
			}
			ret(cc.St, []Val{{K: KExpr, Key: name, T: sig.Results().At(0).Type()}})
			return
		}
	case "(*bytes.Buffer).Bytes":
		if in.BitMode && cc.Recv != nil && cc.Recv.K == KExpr {
			ret(cc.St, []Val{{K: KExpr, Key: cc.Recv.Key, T: sig.Results().At(0).Type()}})
			return
		}
	case "(*bytes.Buffer).Len":
		if in.BitMode && cc.Recv != nil && cc.Recv.K == KExpr {
			ret(cc.St, []Val{{K: KLin, Lin: linTerm("len(" + cc.Recv.Key + ")"), T: sig.Results().At(0).Type()}})
			return
		}
	case "(net.IP).To4", "(net.IP).To16":
		// pure accessors with a documented result length (4 / 16 bytes when non-nil)
		if cc.Recv != nil && cc.Recv.K == KExpr {
			ret(cc.St, []Val{{K: KExpr, Key: cc.Recv.Key + "." + fn.Name() + "()", T: sig.Results().At(0).Type()}})
			return
		}
		if cc.Recv != nil && cc.Recv.K == KNil {
			// a nil address has neither form (documented: To4/To16 return nil)
			ret(cc.St, []Val{{K: KNil, T: sig.Results().At(0).Type()}})
			return
		}
		ret(cc.St, []Val{unknown})
		return
	}
	// calls with no error result are pure unknowns as far as the path structure goes
	n := sig.Results().Len()
	if n > 0 && isErrorType(sig.Results().At(n-1).Type()) {
		cc.St.emit(&Sym{Kind: "ext", Name: full, Pos: cc.Site.Pos(), Args: cc.Args, Arg: derefVal(cc.Recv)})
		in.forkErr(sig, cc.St, ret)
		return
	}
	cc.St.emit(&Sym{Kind: "ext", Name: full, Pos: cc.Site.Pos(), Args: cc.Args, Arg: derefVal(cc.Recv)})
	vals := in.unknownResults(sig)
	for i := range vals {
		rt := sig.Results().At(i).Type()
		if _, isPtr := rt.Underlying().(*types.Pointer); isPtr {
			vals[i] = Val{K: KNonNil, T: rt}
		}
		if in.BitMode && isIntType(rt) {
			vals[i] = Val{K: KSym, Sym: in.newSym(), T: rt} // a nameable unknown
		}
	}
	ret(cc.St, vals)
}

func (in *Interp) callLit(c *Closure, args []Val, st *State, caller *frame, pos token.Pos, ret func(*State, []Val)) {
	lit := c.Lit
	for _, f := range st.stack {
		_ = f
	}
	if len(st.stack) >= in.MaxDepth {
		fatalf("absint: inlining depth exceeded in closure at %s", in.P.pos(pos))
	}
	fr := &frame{fn: caller.fn, pkg: caller.pkg, info: caller.info, parent: caller}
	i := 0
	for _, fld := range lit.Type.Params.List {
		for _, nm := range fld.Names {
			if obj := fr.info.Defs[nm]; obj != nil {
				if i < len(args) {
					st.env[obj] = args[i]
				} else {
					st.env[obj] = unknown
				}
			}
			i++
		}
		if len(fld.Names) == 0 {
			i++
		}
	}
	if lit.Type.Results != nil {
		for _, fld := range lit.Type.Results.List {
			for _, nm := range fld.Names {
				if obj, ok := fr.info.Defs[nm].(*types.Var); ok {
					fr.results = append(fr.results, obj)
					st.env[obj] = in.zeroValue(obj.Type(), st)
				}
			}
		}
	}
	fr.ret = func(s *State, vals []Val, p token.Pos) { ret(s, vals) }
	in.block(lit.Body.List, st, fr, ctl{}, func(s *State) {
		var vals []Val
		for _, r := range fr.results {
			vals = append(vals, s.env[r])
		}
		ret(s, vals)
	})
}

// isPureGetter: every module implementation of the interface method is a single return of a
// constant, a field or a call of another such getter.
func (in *Interp) isPureGetter(m *types.Func) bool {
	if v, ok := in.pureGetter[m]; ok {
		return v == 1
	}
	in.pureGetter[m] = 1 // optimistic for recursion
	res := true
	found := 0
	recvI, _ := m.Type().(*types.Signature).Recv().Type().Underlying().(*types.Interface)
	for _, pk := range in.P.Pkgs {
		scope := pk.Types.Scope()
		for _, name := range scope.Names() {
			tn, ok := scope.Lookup(name).(*types.TypeName)
			if !ok {
				continue
			}
			if _, isI := tn.Type().Underlying().(*types.Interface); isI {
				continue
			}
			for _, t := range []types.Type{tn.Type(), types.NewPointer(tn.Type())} {
				if recvI != nil && !types.Implements(t, recvI) {
					continue
				}
				obj, _, _ := types.LookupFieldOrMethod(t, true, m.Pkg(), m.Name())
				impl, ok := obj.(*types.Func)
				if !ok {
					continue
				}
				decl, dpk := in.P.Decl(impl)
				if decl == nil || decl.Body == nil {
					continue
				}
				found++
				if !in.trivialBody(decl, dpk.TypesInfo) {
					res = false
				}
				break
			}
		}
	}
	if found == 0 {
		res = false
	}
	if res {
		in.pureGetter[m] = 1
	} else {
		in.pureGetter[m] = 2
	}
	return res
}

func (in *Interp) trivialBody(decl *ast.FuncDecl, info *types.Info) bool {
	if len(decl.Body.List) != 1 {
		return false
	}
	rs, ok := decl.Body.List[0].(*ast.ReturnStmt)
	if !ok || len(rs.Results) != 1 {
		return false
	}
	return in.trivialExpr(rs.Results[0], info)
}

func (in *Interp) trivialExpr(e ast.Expr, info *types.Info) bool {
	if tv, ok := info.Types[e]; ok && tv.Value != nil {
		return true
	}
	switch x := ast.Unparen(e).(type) {
	case *ast.Ident:
		return true
	case *ast.SelectorExpr:
		return in.trivialExpr(x.X, info)
	case *ast.CallExpr:
		if tv, ok := info.Types[x.Fun]; ok && tv.IsType() && len(x.Args) == 1 {
			return in.trivialExpr(x.Args[0], info)
		}
		if len(x.Args) == 0 {
			if f, ok := typeutil.Callee(info, x).(*types.Func); ok && isModulePkg(f.Pkg()) {
				return true
			}
		}
	}
	return false
}

func (in *Interp) convert(v Val, to, from types.Type, st *State) Val {
	v = in.resolve(v, st)
	if in.BitMode && isIntType(to) && from != nil && isIntType(from) {
		switch {
		case v.K == KLin && v.Lin != nil && v.Lin.B != nil:
			if nv, ok := in.convertBits(v, to, st); ok {
				return nv
			}
		case v.K == KSym || (v.K == KExpr && v.Key != "&mask" && v.Key != "|mask" && v.Key != "&^mask"):
			// promote with the width of the source type, then extend / truncate
			src := v
			if src.T == nil || !isIntType(src.T) {
				src.T = from
			}
			if b, ok := in.toBits(src, st); ok {
				if nv, ok := in.convertBits(bitsVal(b, src.T), to, st); ok {
					return nv
				}
			}
		}
	}
	// string(nil slice) is ""; []byte("...") / []rune("...") is a fresh non-nil slice
	if v.K == KNil {
		if b, ok := to.Underlying().(*types.Basic); ok && b.Info()&types.IsString != 0 {
			return Val{K: KConst, C: constant.MakeString(""), T: to}
		}
	}
	if v.K == KConst && v.C.Kind() == constant.String {
		if _, ok := to.Underlying().(*types.Slice); ok {
			return Val{K: KNonNil, T: to}
		}
	}
	switch v.K {
	case KConst:
		if v.C.Kind() == constant.Int {
			if b, ok := to.Underlying().(*types.Basic); ok && b.Info()&types.IsString != 0 {
				return unknown
			}
			ot := v.OT
			if ot == nil {
				if n, ok := v.T.(*types.Named); ok && n.Obj().Pkg() != nil && isModulePkg(n.Obj().Pkg()) {
					ot = v.T
				}
			}
			oc := v.OC
			if oc == nil {
				oc = v.C
			}
			return Val{K: KConst, C: wrapInt(v.C, to), T: to, Key: v.Key, OT: ot, OC: oc}
		}
		return Val{K: KConst, C: v.C, T: to, Key: v.Key, OT: v.OT, OC: v.OC}
	case KSym, KExpr, KLin, KObj, KNil, KNonNil, KAlloc, KSlice:
		nv := v
		nv.T = to
		if v.K == KSym && isIntType(to) {
			src := from
			if src == nil || !isIntType(src) {
				src = v.T
			}
			if src != nil && isIntType(src) {
				if in.symOrigin == nil {
					in.symOrigin = map[int]types.Type{}
				}
				if _, ok := in.symOrigin[v.Sym]; !ok {
					in.symOrigin[v.Sym] = src
				}
				ob, osigned, _ := intBits(in.symOrigin[v.Sym])
				tb, tsigned, _ := intBits(to)
				preserving := (osigned == tsigned && tb >= ob) || (!osigned && tsigned && tb > ob)
				if preserving {
					nv.Reint = ""
				} else {
					nv.Reint = types.TypeString(to.Underlying(), nil)
				}
			}
		}
		return nv
	}
	return v
}

func (in *Interp) builtin(name string, x *ast.CallExpr, st *State, fr *frame, k func(*State, Val)) {
	switch name {
	case "len", "cap":
		in.expr(x.Args[0], st, fr, func(st *State, v Val) {
			switch v.K {
			case KExpr:
				if n, ok := knownLen(v.Key); ok {
					k(st, intVal(n))
					return
				}
				k(st, Val{K: KLin, Lin: linTerm("len(" + v.Key + ")")})
			case KNil:
				k(st, intVal(0))
			case KSlice:
				k(st, intVal(int64(len(v.Elems))))
			case KConst:
				if v.C.Kind() == constant.String {
					k(st, intVal(int64(len(constant.StringVal(v.C)))))
					return
				}
				k(st, unknown)
			case KAlloc:
				if len(v.Elems) > 0 {
					k(st, v.Elems[0])
					return
				}
				k(st, unknown)
			case KSym:
				k(st, Val{K: KLin, Lin: linTerm(fmt.Sprintf("len(s%d)", v.Sym))})
			default:
				k(st, unknown)
			}
		})
	case "make":
		in.exprs(x.Args[1:], st, fr, func(st *State, vals []Val) {
			if h, ok := in.Hooks.(interface {
				Make(in *Interp, x *ast.CallExpr, sizes []Val, st *State, fr *frame)
			}); ok {
				h.Make(in, x, vals, st, fr)
			}
			// allocations carry an identity so that hooks can remember what was put into a buffer
			in.objN++
			st.heap[in.objN] = map[string]Val{}
			k(st, Val{K: KAlloc, Elems: vals, T: typeOf(fr, x), Obj: in.objN})
		})
	case "new":
		t := typeOf(fr, x.Args[0])
		if _, ok := t.Underlying().(*types.Struct); ok {
			k(st, in.newObj(t, st))
		} else {
			k(st, Val{K: KNonNil})
		}
	case "append":
		in.exprs(x.Args, st, fr, func(st *State, vals []Val) { k(st, Val{K: KNonNil}) })
	case "copy", "delete", "close", "panic", "print", "println":
		in.exprs(x.Args, st, fr, func(st *State, vals []Val) {
			if name == "panic" {
				st.emit(&Sym{Kind: "panic", Pos: x.Pos()})
				// path ends
				return
			}
			if name == "close" || name == "delete" {
				st.emit(&Sym{Kind: name, Pos: x.Pos(), Extra: exprString(x.Args[0]), Args: vals})
			}
			k(st, unknown)
		})
	default:
		in.exprs(x.Args, st, fr, func(st *State, vals []Val) { k(st, unknown) })
	}
}

// maskTest recognises (x & C) cmp 0 forms produced by binop and turns them into bit atoms.
func maskOperands(v Val) (base Val, mask Val, ok bool) {
	if v.K == KExpr && v.Key == "&mask" && len(v.Elems) == 2 {
		return v.Elems[0], v.Elems[1], true
	}
	return Val{}, Val{}, false
}

func init() {
	// extend compare with mask tests by wrapping: installed through compareHook
	compareHook = func(in *Interp, op token.Token, l, r Val, st *State) (Tri, bool) {
		base, mask, ok := maskOperands(l)
		other := r
		if !ok {
			base, mask, ok = maskOperands(r)
			other = l
			switch op {
			case token.LSS:
				op = token.GTR
			case token.GTR:
				op = token.LSS
			case token.LEQ:
				op = token.GEQ
			case token.GEQ:
				op = token.LEQ
			}
		}
		if !ok || other.K != KConst || mask.K != KConst {
			return Tri{}, false
		}
		m, _ := constant.Int64Val(wrapInt(mask.C, types.Typ[types.Int64]))
		um, _ := constant.Uint64Val(mask.C)
		_ = m
		var atom string
		switch base.K {
		case KSym:
			atom = fmt.Sprintf("bit(s%d,%#x)", base.Sym, um)
		case KExpr:
			atom = fmt.Sprintf("bit(%s,%#x)", base.Key, um)
		default:
			return Tri{}, false
		}
		single := um != 0 && um&(um-1) == 0
		if isZeroConst(other) {
			switch op {
			case token.NEQ, token.GTR:
				return Tri{Atom: atom}, true
			case token.EQL, token.LEQ:
				return Tri{Atom: atom, Neg: true}, true
			}
		}
		if single && constant.Compare(other.C, token.EQL, mask.C) {
			switch op {
			case token.EQL, token.GEQ:
				return Tri{Atom: atom}, true
			case token.NEQ, token.LSS:
				return Tri{Atom: atom, Neg: true}, true
			}
		}
		return Tri{Atom: fmt.Sprintf("%s %s %s", atom, op, other.String())}, true
	}
}

var compareHook func(in *Interp, op token.Token, l, r Val, st *State) (Tri, bool)

func keyHasPrefix(k, p string) bool { return strings.HasPrefix(k, p) }

// knownLen: lengths fixed by a documented contract of the producing accessor.
func knownLen(key string) (int64, bool) {
	switch {
	case strings.HasSuffix(key, ".To4()"):
		return 4, true
	case strings.HasSuffix(key, ".To16()"):
		return 16, true
	}
	return 0, false
}

// isPureLoopPredicate: fn returns one bool, contains a loop, calls nothing but builtins and
// conversions, and assigns only its own locals.
func (in *Interp) isPureLoopPredicate(fn *types.Func) bool {
	if v, ok := in.purePred[fn]; ok {
		return v
	}
	res := false
	defer func() { in.purePred[fn] = res }()
	sig := fn.Type().(*types.Signature)
	if sig.Results().Len() != 1 {
		return false
	}
	if b, ok := sig.Results().At(0).Type().Underlying().(*types.Basic); !ok || b.Kind() != types.Bool {
		return false
	}
	decl, pkg := in.P.Decl(fn)
	if decl == nil || decl.Body == nil {
		return false
	}
	hasLoop, pure := false, true
	ast.Inspect(decl.Body, func(n ast.Node) bool {
		switch x := n.(type) {
		case *ast.ForStmt, *ast.RangeStmt:
			hasLoop = true
		case *ast.CallExpr:
			if tv, ok := pkg.TypesInfo.Types[x.Fun]; ok && tv.IsType() {
				return true
			}
			if id, ok := ast.Unparen(x.Fun).(*ast.Ident); ok {
				if _, isB := pkg.TypesInfo.ObjectOf(id).(*types.Builtin); isB && (id.Name == "len" || id.Name == "cap") {
					return true
				}
			}
			pure = false
		case *ast.AssignStmt:
			for _, l := range x.Lhs {
				if _, ok := l.(*ast.Ident); !ok {
					pure = false
				}
			}
		case *ast.GoStmt, *ast.DeferStmt, *ast.SendStmt:
			pure = false
		}
		return true
	})
	res = hasLoop && pure
	return res
}

// markGetterFields records as read the fields returned by the module implementations of a pure
// getter called through an interface.
func (in *Interp) markGetterFields(m *types.Func) {
	if in.getterMarked == nil {
		in.getterMarked = map[*types.Func]bool{}
	}
	if in.getterMarked[m] {
		return
	}
	in.getterMarked[m] = true
	for f, d := range in.P.funcDecls {
		if f.Name() != m.Name() || d.Body == nil || len(d.Body.List) != 1 {
			continue
		}
		rs, ok := d.Body.List[0].(*ast.ReturnStmt)
		if !ok || len(rs.Results) != 1 {
			continue
		}
		info := in.P.declPkg[f].TypesInfo
		ast.Inspect(rs.Results[0], func(n ast.Node) bool {
			if se, ok := n.(*ast.SelectorExpr); ok {
				if sel := info.Selections[se]; sel != nil && sel.Kind() == types.FieldVal {
					in.FieldReads[sel.Obj().(*types.Var)] = true
				}
			}
			return true
		})
	}
}

// shortFuncName: "recvType.method" or "func" without package paths.
func shortFuncName(fn *types.Func) string {
	sig := fn.Type().(*types.Signature)
	if sig.Recv() != nil {
		if n := namedOf(sig.Recv().Type()); n != nil {
			return n.Obj().Name() + "." + fn.Name()
		}
	}
	return fn.Name()
}
