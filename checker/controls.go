package main

// Positive controls (thorough tier): each registered micro-mutation is applied to a scratch copy
// of the CURRENT /repo outside /repo and /verif, the copy must still type-check, and the check
// must report the named obligation. Controls test the checker; they never decide a property.

import (
	"encoding/json"
	"fmt"
	"io"
	"io/fs"
	"os"
	"os/exec"
	"path/filepath"
	"sort"
	"strings"
	"sync"
)

type control struct {
	ID       string `json:"id"`
	Property string `json:"property"`
	File     string `json:"file"`
	Old      string `json:"old"`
	New      string `json:"new"`
	Expect   string `json:"expect"` // substring of a FAIL line (obligation key)
	Why      string `json:"why"`
	Edits    []struct {
		File string `json:"file"`
		Old  string `json:"old"`
		New  string `json:"new"`
	} `json:"edits,omitempty"`
}

type controlResult struct {
	ID     string `json:"id"`
	Status string `json:"status"` // detected | missed | skipped | broken
	Detail string `json:"detail,omitempty"`
}

func copyTree(src, dst string) error {
	return filepath.WalkDir(src, func(path string, d fs.DirEntry, err error) error {
		if err != nil {
			return err
		}
		rel, _ := filepath.Rel(src, path)
		if d.IsDir() {
			if d.Name() == ".git" {
				return filepath.SkipDir
			}
			return os.MkdirAll(filepath.Join(dst, rel), 0o755)
		}
		if !d.Type().IsRegular() {
			return nil
		}
		in, err := os.Open(path)
		if err != nil {
			return err
		}
		defer in.Close()
		out, err := os.Create(filepath.Join(dst, rel))
		if err != nil {
			return err
		}
		defer out.Close()
		_, err = io.Copy(out, in)
		return err
	})
}

func runControls(prop, repo, verif string) ([]controlResult, bool) {
	b, err := os.ReadFile(filepath.Join(verif, "controls", "controls.json"))
	if err != nil {
		return nil, true
	}
	var all []control
	if err := json.Unmarshal(b, &all); err != nil {
		fatalf("controls.json: %v", err)
	}
	var mine []control
	only := map[string]bool{} // VERIF_CONTROLS=K1,K2: development aid, runs a subset
	for _, id := range strings.Split(os.Getenv("VERIF_CONTROLS"), ",") {
		if id != "" {
			only[id] = true
		}
	}
	for _, c := range all {
		if c.Property == prop && (len(only) == 0 || only[c.ID]) {
			mine = append(mine, c)
		}
	}
	self, _ := os.Executable()
	results := make([]controlResult, len(mine))
	sem := make(chan struct{}, 4)
	var wg sync.WaitGroup
	for i, c := range mine {
		wg.Add(1)
		go func(i int, c control) {
			defer wg.Done()
			sem <- struct{}{}
			defer func() { <-sem }()
			results[i] = runControl(c, repo, verif, self)
		}(i, c)
	}
	wg.Wait()
	ok := true
	for _, r := range results {
		if r.Status == "missed" || r.Status == "broken" {
			ok = false
		}
	}
	sort.Slice(results, func(i, j int) bool { return results[i].ID < results[j].ID })
	return results, ok
}

func runControl(c control, repo, verif, self string) controlResult {
	res := controlResult{ID: c.ID}
	tmp, err := os.MkdirTemp("", "verif-ctl-"+c.ID+"-")
	if err != nil {
		res.Status, res.Detail = "broken", err.Error()
		return res
	}
	defer os.RemoveAll(tmp)
	if err := copyTree(repo, tmp); err != nil {
		res.Status, res.Detail = "broken", err.Error()
		return res
	}
	edits := c.Edits
	if c.File != "" {
		edits = append(edits, struct {
			File string `json:"file"`
			Old  string `json:"old"`
			New  string `json:"new"`
		}{c.File, c.Old, c.New})
	}
	for _, e := range edits {
		path := filepath.Join(tmp, e.File)
		src, err := os.ReadFile(path)
		if err != nil || strings.Count(string(src), e.Old) != 1 {
			res.Status, res.Detail = "skipped", fmt.Sprintf("anchor text not present exactly once in %s", e.File)
			return res
		}
		if err := os.WriteFile(path, []byte(strings.Replace(string(src), e.Old, e.New, 1)), 0o644); err != nil {
			res.Status, res.Detail = "broken", err.Error()
			return res
		}
	}
	cmd := exec.Command(self, c.Property, "--tier", "quick", "--repo", tmp, "--verif", verif, "--no-write")
	cmd.Env = append(os.Environ(), "VERIF_DIR="+verif)
	out, _ := cmd.CombinedOutput()
	code := cmd.ProcessState.ExitCode()
	text := string(out)
	switch {
	case code == 1 && strings.Contains(text, c.Expect):
		res.Status = "detected"
	case code == 2:
		// a mutation that no longer type-checks is a broken control, a tripped floor/anchor also counts as detection of a kind
		if strings.Contains(text, "load/type errors") {
			res.Status, res.Detail = "broken", "mutated copy does not type-check"
		} else if strings.Contains(text, c.Expect) {
			res.Status = "detected"
		} else {
			res.Status, res.Detail = "missed", "check exited 2: "+lastLines(text, 3)
		}
	default:
		res.Status, res.Detail = "missed", fmt.Sprintf("exit %d; expected a FAIL line containing %q; got: %s", code, c.Expect, lastLines(text, 4))
	}
	return res
}

func lastLines(s string, n int) string {
	ls := strings.Split(strings.TrimSpace(s), "\n")
	if len(ls) > n {
		ls = ls[len(ls)-n:]
	}
	return strings.Join(ls, " | ")
}
