package main

// Bit-provenance domain for the abstract interpreter (used for the segment header packing and the
// CRC input rules): an integer is a vector of 64 tags, each "0", "1", "<origin>:<bit>" or "?".

import (
	"fmt"
	"go/constant"
	"go/token"
	"go/types"
	"strings"
)

type Bits struct{ B [64]string }

func constBits(u uint64) *Bits {
	b := &Bits{}
	for i := 0; i < 64; i++ {
		if u&(1<<uint(i)) != 0 {
			b.B[i] = "1"
		} else {
			b.B[i] = "0"
		}
	}
	return b
}

func namedBits(name string, width int) *Bits {
	b := &Bits{}
	for i := 0; i < 64; i++ {
		if i < width {
			b.B[i] = fmt.Sprintf("%s:%d", name, i)
		} else {
			b.B[i] = "0"
		}
	}
	return b
}

func (b *Bits) String() string {
	// compress runs: name:lo..hi
	var parts []string
	i := 0
	for i < 64 {
		t := b.B[i]
		if t == "0" {
			i++
			continue
		}
		name, idx := splitTag(t)
		j := i
		k := idx
		for j+1 < 64 {
			n2, i2 := splitTag(b.B[j+1])
			if n2 != name || i2 != k+1 || name == "" {
				break
			}
			j++
			k++
		}
		if name == "" {
			parts = append(parts, fmt.Sprintf("[%d]=%s", i, t))
		} else if j == i {
			parts = append(parts, fmt.Sprintf("[%d]=%s:%d", i, name, idx))
		} else {
			parts = append(parts, fmt.Sprintf("[%d..%d]=%s:%d..%d", i, j, name, idx, k))
		}
		i = j + 1
	}
	if len(parts) == 0 {
		return "0"
	}
	return strings.Join(parts, " ")
}

func splitTag(t string) (string, int) {
	i := strings.LastIndex(t, ":")
	if i < 0 {
		return "", 0
	}
	n := 0
	if _, err := fmt.Sscanf(t[i+1:], "%d", &n); err != nil {
		return "", 0
	}
	return t[:i], n
}

func (b *Bits) equal(o *Bits) bool { return b.B == o.B }

// toBits promotes a value to a bit vector when possible.
func (in *Interp) toBits(v Val, st *State) (*Bits, bool) {
	v = in.resolve(v, st)
	switch v.K {
	case KConst:
		if v.C.Kind() == constant.Int {
			if u, ok := constant.Uint64Val(v.C); ok {
				return constBits(u), true
			}
			if i, ok := constant.Int64Val(v.C); ok {
				return constBits(uint64(i)), true
			}
		}
		if v.C.Kind() == constant.Bool {
			if constant.BoolVal(v.C) {
				return constBits(1), true
			}
			return constBits(0), true
		}
	case KLin:
		if v.Lin != nil && v.Lin.B != nil {
			return v.Lin.B, true
		}
		name := v.Lin.String()
		return namedBits(name, in.widthOf(name, v.T, st)), true
	case KExpr:
		if v.Key == "&mask" || v.Key == "|mask" || v.Key == "&^mask" {
			return nil, false
		}
		return namedBits(v.Key, in.widthOf(v.Key, v.T, st)), true
	case KSym:
		name := fmt.Sprintf("s%d", v.Sym)
		if n, ok := in.symNames[v.Sym]; ok {
			name = n
		}
		return namedBits(name, in.widthOf(name, v.T, st)), true
	}
	return nil, false
}

// widthOf: number of possibly non-zero low bits: from an upper bound known on the path, else from
// the static type.
func (in *Interp) widthOf(name string, t types.Type, st *State) int {
	if ub, ok := st.ubound[name]; ok {
		w := 0
		for ub > 0 {
			w++
			ub >>= 1
		}
		return w
	}
	if t != nil {
		if b, ok := t.Underlying().(*types.Basic); ok && b.Kind() == types.Bool {
			return 1
		}
		if bits, _, ok := intBits(t); ok {
			return bits
		}
	}
	return 64
}

func bitsVal(b *Bits, t types.Type) Val {
	return Val{K: KLin, Lin: &Lin{Terms: map[string]int64{"bits:" + b.String(): 1}, B: b}, T: t}
}

// bitOp evaluates a bit operation in the provenance domain.
func (in *Interp) bitOp(op token.Token, l, r Val, t types.Type, st *State) (Val, bool) {
	lb, ok1 := in.toBits(l, st)
	rb, ok2 := in.toBits(r, st)
	if !ok1 || !ok2 {
		return unknown, false
	}
	res := &Bits{}
	switch op {
	case token.AND:
		for i := 0; i < 64; i++ {
			a, b := lb.B[i], rb.B[i]
			switch {
			case a == "0" || b == "0":
				res.B[i] = "0"
			case a == "1":
				res.B[i] = b
			case b == "1":
				res.B[i] = a
			case a == b:
				res.B[i] = a
			default:
				res.B[i] = "?"
			}
		}
	case token.OR:
		for i := 0; i < 64; i++ {
			a, b := lb.B[i], rb.B[i]
			switch {
			case a == "1" || b == "1":
				res.B[i] = "1"
			case a == "0":
				res.B[i] = b
			case b == "0":
				res.B[i] = a
			case a == b:
				res.B[i] = a
			default:
				res.B[i] = "?"
			}
		}
	case token.AND_NOT:
		for i := 0; i < 64; i++ {
			a, b := lb.B[i], rb.B[i]
			switch {
			case b == "1" || a == "0":
				res.B[i] = "0"
			case b == "0":
				res.B[i] = a
			default:
				res.B[i] = "?"
			}
		}
	case token.SHL, token.SHR:
		rv := in.resolve(r, st)
		if rv.K != KConst {
			return unknown, false
		}
		n64, ok := constant.Int64Val(rv.C)
		if !ok || n64 < 0 || n64 > 63 {
			return unknown, false
		}
		n := int(n64)
		for i := 0; i < 64; i++ {
			res.B[i] = "0"
		}
		if op == token.SHL {
			for i := 0; i+n < 64; i++ {
				res.B[i+n] = lb.B[i]
			}
		} else {
			for i := n; i < 64; i++ {
				res.B[i-n] = lb.B[i]
			}
		}
	default:
		return unknown, false
	}
	// truncate to the result type's width
	if bits, _, ok := intBits(t); ok && bits < 64 {
		for i := bits; i < 64; i++ {
			res.B[i] = "0"
		}
	}
	return bitsVal(res, t), true
}

// convertBits: conversion between integer types in the provenance domain.
func (in *Interp) convertBits(v Val, to types.Type, st *State) (Val, bool) {
	b, ok := in.toBits(v, st)
	if !ok {
		return unknown, false
	}
	res := &Bits{B: b.B}
	if bits, _, ok := intBits(to); ok && bits < 64 {
		for i := bits; i < 64; i++ {
			res.B[i] = "0"
		}
	}
	// sign extension of a possibly negative narrower signed source is not modelled: mark unknown
	if fb, fsigned, ok := intBits(v.T); ok && fsigned {
		if tb, _, ok2 := intBits(to); ok2 && tb > fb && b.B[fb-1] != "0" {
			for i := fb; i < tb; i++ {
				res.B[i] = "?"
			}
		}
	}
	return bitsVal(res, to), true
}
