package main

// C01: frame round-trip fidelity - the structural necessary conditions.
//
//   enc-vs-dec      for every registered message codec (and the envelope body prefix), per protocol
//                   version: every version-legal success trace of the encoder is accepted by the
//                   decoder - same notations in the same order, same loop nesting, and the flag
//                   words / discriminators the encoder writes satisfy the conditions under which the
//                   decoder takes that path
//   non-nil-result  every successful decoder path returns a non-nil message
//   registry        opcodes of registered codecs are distinct, every opcode constant has a codec,
//                   message types report the opcode / direction of their codec
//   field-coverage  every exported field of a message struct is read by the encoder and assigned
//                   by the decoder (exceptions listed with a reason)

import (
	"fmt"
	"go/ast"
	"go/constant"
	"go/token"
	"go/types"
	"os"
	"path/filepath"
	"regexp"
	"sort"
	"strings"
)

func init() { register("C01", "other", checkC01) }

type seqItem struct {
	kind        string // op | loop | rec | dyn
	name        string
	arg         Val // writer: value written; reader: Val{KSym}
	id          int
	sym         *Sym
	alts        []*seqAlt // loop bodies
	key         string
	excl        []constant.Value // spec '*' alternative: any value but these
	illegalAlts []*seqAlt        // spec loop: iterations using values only other versions define
}

type seqAlt struct {
	st    *State
	items []*seqItem
}

func traceSeq(tr []*Sym, st *State, in *Interp) []*seqItem {
	var out []*seqItem
	for _, s := range tr {
		switch s.Kind {
		case "op":
			it := &seqItem{kind: "op", name: s.Name, sym: s, id: s.ID}
			if strings.HasPrefix(s.Extra, "w") {
				it.arg = in.resolve(s.Arg, st)
			}
			out = append(out, it)
		case "loop":
			it := &seqItem{kind: "loop", key: s.Key, sym: s}
			for _, b := range s.Body {
				if b.Ctl != "next" {
					continue
				}
				it.alts = append(it.alts, &seqAlt{st: b.St, items: traceSeq(b.St.trace, b.St, in)})
			}
			// a loop whose every iteration is empty carries no wire content
			nonEmpty := false
			for _, a := range it.alts {
				if len(a.items) > 0 {
					nonEmpty = true
				}
			}
			if nonEmpty {
				out = append(out, it)
			}
		case "rec":
			out = append(out, &seqItem{kind: "rec", name: recStem(s.Name), sym: s})
		case "dyn":
			out = append(out, &seqItem{kind: "dyn", name: dynStem(s.Name), sym: s})
		}
	}
	return out
}

func seqString(items []*seqItem) string {
	var parts []string
	for _, it := range items {
		switch it.kind {
		case "op":
			s := it.name
			if it.arg.K == KConst {
				s += "=" + it.arg.String()
			}
			parts = append(parts, s)
		case "loop":
			var as []string
			for _, a := range it.alts {
				as = append(as, seqString(a.items))
			}
			sort.Strings(as)
			as = dedupStrings(as)
			parts = append(parts, "loop{"+strings.Join(as, " | ")+"}")
		default:
			parts = append(parts, it.kind+":"+it.name)
		}
	}
	return "[" + strings.Join(parts, " ") + "]"
}

// expandAmong: a written value the encoder does not pin to a constant but that passed a validity
// check (finite set of accepted constants, minus those excluded by the path) is expanded into one
// variant per constant, so that the decoder must have a path for each.
func expandAmong(items []*seqItem, st *State) [][]*seqItem {
	for i, it := range items {
		if it.kind != "op" || it.arg.K != KExpr {
			continue
		}
		set, ok := st.among[it.arg.Key]
		if !ok || len(set) == 0 || len(set) > 64 {
			continue
		}
		var rest []constant.Value
		for _, c := range set {
			ex := false
			for _, x := range st.exclude[it.arg.Key] {
				if constant.Compare(x, token.EQL, c) {
					ex = true
				}
			}
			if !ex {
				rest = append(rest, c)
			}
		}
		var out [][]*seqItem
		for _, c := range rest {
			cp := append([]*seqItem(nil), items...)
			ni := *it
			ni.arg = Val{K: KConst, C: c, T: it.arg.T, Key: it.arg.Key}
			cp[i] = &ni
			// later items may be expandable too
			out = append(out, expandAmong(cp, st)...)
		}
		return out
	}
	return [][]*seqItem{items}
}

// binding of reader symbols to the constants the writer wrote at the same position.
type binding map[int]constant.Value

// matchSeq aligns a writer sequence with a reader sequence.
func matchSeq(w, r []*seqItem, bind binding, rst *State) (bool, string) {
	if len(w) != len(r) {
		return false, fmt.Sprintf("writer has %d wire items, reader %d", len(w), len(r))
	}
	for i := range w {
		a, b := w[i], r[i]
		if a.kind != b.kind {
			return false, fmt.Sprintf("item %d: writer %s, reader %s", i+1, a.kind+":"+a.name, b.kind+":"+b.name)
		}
		switch a.kind {
		case "op":
			if a.name != b.name {
				return false, fmt.Sprintf("item %d: writer writes [%s], reader reads [%s]", i+1, a.name, b.name)
			}
			if a.arg.K == KConst && b.id != 0 {
				bind[b.id] = a.arg.C
				// byte mode: the same bytes are -1 through a signed API and 0xffffffff through an
				// unsigned one; bind the value as the *reader's* type sees those bytes, and compare
				// equalities modulo 2^width
				if w := wireWidth(a.name); w > 0 && a.arg.C.Kind() == constant.Int {
					bind[-b.id] = constant.MakeInt64(int64(w))
					if b.sym != nil && b.sym.T != nil && isIntType(b.sym.T) {
						_, signed, _ := intBits(b.sym.T)
						bind[b.id] = wrapToWidth(a.arg.C, w, signed)
					}
				}
			}
		case "rec", "dyn":
			if a.name != b.name {
				return false, fmt.Sprintf("item %d: writer recurses into %s, reader into %s", i+1, a.name, b.name)
			}
		case "loop":
			// the reader path's own conditions must accept what was written so far before its
			// iterations are compared
			if rst != nil {
				if ok, why := readerAccepts(rst, bind); !ok {
					return false, fmt.Sprintf("item %d: %s", i, why)
				}
			}
			for _, wa := range a.alts {
				for _, witems := range expandAmong(wa.items, wa.st) {
					okAny := false
					why := "reader loop has no iteration path"
					for _, ra := range b.alts {
						lb := binding{}
						for k, v := range bind {
							lb[k] = v
						}
						if ok, w2 := matchSeq(witems, ra.items, lb, ra.st); ok {
							if ok2, w3 := readerAccepts(ra.st, lb); ok2 {
								okAny = true
								break
							} else {
								why = w3
							}
						} else {
							why = w2
						}
					}
					if !okAny {
						return false, fmt.Sprintf("item %d (loop): writer iteration %s has no matching reader iteration: %s", i+1, seqString(witems), why)
					}
				}
			}
		}
	}
	return true, ""
}

// readerAccepts: the constants bound to the reader's symbols satisfy the reader path's conditions.
func readerAccepts(rst *State, bind binding) (bool, string) {
	same := func(id int, x, y constant.Value) bool {
		if constant.Compare(x, token.EQL, y) {
			return true
		}
		if w, ok := bind[-id]; ok && x.Kind() == constant.Int && y.Kind() == constant.Int {
			bits, _ := constant.Int64Val(w)
			return constant.Compare(wrapToWidth(x, int(bits), false), token.EQL, wrapToWidth(y, int(bits), false))
		}
		return false
	}
	for id, c := range bind {
		if id < 0 {
			continue
		}
		if eq, ok := rst.symEq[id]; ok && !same(id, eq, c) {
			return false, fmt.Sprintf("reader path requires s%d == %s, writer wrote %s", id, constLabel(eq), constLabel(c))
		}
		for _, ne := range rst.symNe[id] {
			if same(id, ne, c) {
				return false, fmt.Sprintf("reader path excludes %s", constLabel(c))
			}
		}
		if set, ok := rst.symSet[id]; ok {
			in := false
			for _, x := range set {
				if same(id, x, c) {
					in = true
				}
			}
			if !in {
				return false, fmt.Sprintf("reader rejects the value %s (validity check)", constLabel(c))
			}
		}
	}
	for atom, pol := range rst.atoms {
		var id int
		var mask uint64
		if n, _ := fmt.Sscanf(atom, "bit(s%d,0x%x)", &id, &mask); n == 2 {
			if c, ok := bind[id]; ok {
				u, _ := constant.Uint64Val(constant.ToInt(c))
				if i, isI := constant.Int64Val(c); isI && i < 0 {
					u = uint64(i)
				}
				if (u&mask != 0) != pol {
					return false, fmt.Sprintf("reader path assumes flag bit %#x %s, writer wrote flags %s", mask, map[bool]string{true: "set", false: "clear"}[pol], constLabel(c))
				}
			}
			continue
		}
		var op, rhs string
		// a reinterpreted symbol: "int16(s1) < 0" - evaluate on the bound value wrapped into that type
		if m := reintAtomRe.FindStringSubmatch(atom); m != nil {
			fmt.Sscanf(m[2], "%d", &id)
			if c, ok := bind[id]; ok {
				if rv, ok := parseSpecValue(m[4]); ok {
					bits, signed := 0, strings.HasPrefix(m[1], "int")
					fmt.Sscanf(strings.TrimLeft(m[1], "uint"), "%d", &bits)
					if bits == 0 {
						bits = 64
					}
					w := wrapToWidth(c, bits, signed)
					var tok token.Token
					switch m[3] {
					case ">":
						tok = token.GTR
					case "<":
						tok = token.LSS
					case ">=":
						tok = token.GEQ
					case "<=":
						tok = token.LEQ
					default:
						continue
					}
					if constant.Compare(w, tok, rv) != pol {
						return false, fmt.Sprintf("reader path assumes %s is %v, the value is %s", atom, pol, constLabel(c))
					}
				}
			}
			continue
		}
		if n, _ := fmt.Sscanf(atom, "s%d %s %s", &id, &op, &rhs); n == 3 {
			if c, ok := bind[id]; ok {
				if rv, ok := parseSpecValue(rhs); ok {
					var tok token.Token
					switch op {
					case ">":
						tok = token.GTR
					case "<":
						tok = token.LSS
					case ">=":
						tok = token.GEQ
					case "<=":
						tok = token.LEQ
					default:
						continue
					}
					if constant.Compare(c, tok, rv) != pol {
						return false, fmt.Sprintf("reader path assumes %s is %v, writer wrote %s", atom, pol, constLabel(c))
					}
				}
			}
		}
	}
	return true, ""
}

// flagLegality: flag type -> bit -> set of version labels, from spec/codes.tsv.
type legality map[string]map[uint64]map[string]bool

func loadLegality() legality {
	leg := legality{}
	for _, row := range readTSV(filepath.Join(verifDir(), "spec", "codes.tsv")) {
		if !strings.HasSuffix(row.cols[0], "Flag") {
			continue
		}
		v, ok := parseSpecValue(row.cols[2])
		if !ok {
			continue
		}
		u, _ := constant.Uint64Val(v)
		if leg[row.cols[0]] == nil {
			leg[row.cols[0]] = map[uint64]map[string]bool{}
		}
		leg[row.cols[0]][u] = parseVersions(row.cols[3])
	}
	return leg
}

func parseVersions(s string) map[string]bool {
	out := map[string]bool{}
	all := []string{"v2", "v3", "v4", "v5", "D1", "D2"}
	for _, tok := range strings.Split(s, ",") {
		tok = strings.TrimSpace(tok)
		switch {
		case tok == "all":
			for _, v := range all {
				out[v] = true
			}
		case strings.HasSuffix(tok, "+"):
			n := tok[:len(tok)-1]
			on := false
			for _, v := range all {
				if v == "v"+n {
					on = true
				}
				if on {
					out[v] = true
				}
			}
		case tok == "D1" || tok == "D2":
			out[tok] = true
		case tok == "-" || tok == "":
		default:
			out["v"+tok] = true
		}
	}
	return out
}

// pathLegal: every flag bit the writer path sets is defined for the version.
func pathLegal(items []*seqItem, leg legality, ver string) (bool, string) {
	for _, it := range items {
		switch it.kind {
		case "op":
			if it.arg.K != KConst || it.arg.OT == nil {
				continue
			}
			n, ok := it.arg.OT.(*types.Named)
			if !ok {
				continue
			}
			bits := leg[n.Obj().Name()]
			if bits == nil {
				continue
			}
			fc := it.arg.C
			if it.arg.OC != nil {
				fc = it.arg.OC // the flag word before a narrowing conversion for the wire
			}
			u, exact := constant.Uint64Val(constant.ToInt(fc))
			if !exact {
				if i, ok := constant.Int64Val(fc); ok {
					u = uint64(uint32(i))
				}
			}
			for b := uint64(1); b != 0 && b <= u; b <<= 1 {
				if u&b == 0 {
					continue
				}
				if vs, ok := bits[b]; !ok || !vs[ver] {
					return false, fmt.Sprintf("%s bit %#x is not defined for %s", n.Obj().Name(), b, ver)
				}
			}
		case "loop":
			// legality inside iterations is judged per iteration in matchSeq callers; not needed today
		}
	}
	return true, ""
}

func checkC01(p *Program, r *Report) {
	if os.Getenv("C01_DUMP") != "" {
		c01DumpPrimitives(p)
	}
	r.Explanation = "For every registered message codec and protocol version the abstract interpreter enumerates the success traces of Encode (Flags() inlined, so the flag word on each path is a constant) and of Decode (flag words and discriminators are symbols with the conditions the path assumed). Every version-legal encoder trace (flag bits defined for the version per spec/codes.tsv) must be matched by a decoder trace: same notations in order, same loop nesting and recursion, and the written flag/discriminator constants must satisfy the decoder path's conditions. Plus: decoder success paths return non-nil, registry coherence, exported-field coverage. These are necessary conditions of the round trip visible in the shape of the code; equality of field values, compression contents and IP normalisation are not decided."
	r.Trusted = []string{"absint evaluator", "spec/codes.tsv for the per-version legality of flag bits"}
	r.Assumptions = []string{"primitive notations round-trip individually (their length/byte agreement is decided by C03 primitive-length in byte mode)", "a discriminator the writer does not test itself is accepted when the reader has a path for it"}
	pe := newPenum(p)
	vers := supportedVersions(p, pe)
	leg := loadLegality()
	r.Floor("enc-vs-dec", 100)
	r.Floor("non-nil-result", 100)
	codecs := messageCodecs(p)
	nPaths := 0
	for _, ct := range codecs {
		enc, dec := methodOfNamed(ct, "Encode"), methodOfNamed(ct, "Decode")
		if enc == nil || dec == nil {
			r.Fail("enc-vs-dec", ct.Obj().Name(), ct.Obj().Pos(), "codec lacks Encode/Decode")
			continue
		}
		for _, v := range vers {
			key := fmt.Sprintf("%s@%s", ct.Obj().Name(), versionLabel(v))
			nPaths += c01Pair(p, r, key, enc, dec, v, leg, false, nil)
		}
	}
	r.Extra["encoder_paths_matched"] = nPaths
	c01Body(p, r, vers, leg)
	c01Registry(p, r, codecs)
	c01FieldCoverage(p, r, codecs, vers)
	c01ElisionPredicate(p, r)
	c02BitAssembly(p, r)
	c01PrimitivePairing(p, r)
	// an encoding depends on the frame alone: no content carried over in pooled buffers
	poolHygiene(p, r, "pool-hygiene")
	receiverReadOnly(p, r, "codec-stateless", "frame", "codec")
}

func c01Pair(p *Program, r *Report, key string, enc, dec *types.Func, v constant.Value, leg legality, byteMode bool, presets map[string]Val) int {
	wr := runWire(p, enc, v, byteMode, presets)
	rr := runWire(p, dec, v, byteMode, presets)
	und := append(append([]string{}, wr.in.Undecided...), rr.in.Undecided...)
	if len(und) > 0 {
		r.Fail("enc-vs-dec", key, enc.Pos(), "undecided: %s", strings.Join(dedupStrings(und), "; "))
		return 0
	}
	ws, rs := successPaths(wr.outs), successPaths(rr.outs)
	// non-nil result on every reader success path
	nilPath := ""
	for _, o := range rs {
		if len(o.Ret) > 0 {
			res := rr.in.resolve(o.Ret[0], o.St)
			if res.K == KNil {
				nilPath = fmt.Sprintf("a successful decoder path returns a nil result (conditions {%s}, trace %s)", describeAtoms(o.St), seqString(traceSeq(o.St.trace, o.St, rr.in)))
			}
		}
	}
	if nilPath != "" {
		r.Fail("non-nil-result", key, dec.Pos(), "%s", nilPath)
	} else {
		r.OKf("non-nil-result", key, dec.Pos(), "%d decoder success paths return a value", len(rs))
	}
	type rseq struct {
		st    *State
		items []*seqItem
		sig   string
	}
	var rseqs []rseq
	for _, o := range rs {
		it := traceSeq(o.St.trace, o.St, rr.in)
		rseqs = append(rseqs, rseq{o.St, it, seqString(it)})
	}
	ver := versionLabel(v)
	checked, skipped := 0, 0
	failed := map[string]bool{}
	for _, o := range ws {
		for _, witems := range expandAmong(traceSeq(o.St.trace, o.St, wr.in), o.St) {
			if ok, _ := pathLegal(witems, leg, ver); !ok {
				skipped++
				continue
			}
			checked++
			matched := false
			best, bestAt := "", -1
			for _, rq := range rseqs {
				b := binding{}
				ok, why := matchSeq(witems, rq.items, b, rq.st)
				if !ok {
					at := 0
					fmt.Sscanf(why, "item %d", &at)
					at *= 2
					if strings.Contains(why, "(loop)") {
						at++ // a mismatch inside a loop body is deeper than one at the loop's position
					}
					if at > bestAt {
						best, bestAt = why+" (decoder trace "+rq.sig+")", at
					}
					continue
				}
				if ok2, why2 := readerAccepts(rq.st, b); ok2 {
					matched = true
					break
				} else if bestAt < 1<<20 {
					best, bestAt = why2+" (decoder trace "+rq.sig+")", 1<<20
				}
			}
			if !matched {
				// one obligation per distinct objection, so that a known finding cannot mask another
				rid := best
				if i := strings.Index(rid, " (decoder trace"); i >= 0 {
					rid = rid[:i]
				}
				if i := strings.Index(rid, " has no matching reader iteration"); i >= 0 {
					// name the iteration by its discriminating constants only
					it := rid[:i]
					var ks []string
					for _, f := range strings.Fields(strings.Trim(it[strings.Index(it, "[")+1:], "]")) {
						if strings.Contains(f, "=") {
							ks = append(ks, strings.Trim(f, "]"))
						}
					}
					rid = "no reader iteration for " + strings.Join(ks, ",")
				}
				if len(rid) > 120 {
					rid = rid[:120]
				}
				if !failed[rid] {
					failed[rid] = true
					r.Fail("enc-vs-dec", key+" / "+rid, enc.Pos(), "the decoder has no path for what the encoder writes on path {%s}: encoder trace %s; closest decoder objection: %s", describeAtoms(o.St), seqString(witems), best)
				}
			}
		}
	}
	// reader-driven case split: a value the *decoder* distinguishes (it compares what it read with a
	// constant K) while the encoder wrote it without ever looking at it is re-examined with the
	// encoder's field fixed to K - the encoder may treat that value differently in other versions
	// only, which is exactly the asymmetry to find.
	if presets == nil {
		type cand struct {
			key string
			k   constant.Value
		}
		cands := map[string]cand{}
		for _, rq := range rseqs {
			for id, k := range rq.st.symEq {
				for idx, it := range rq.items {
					if it.kind != "op" || it.id != id {
						continue
					}
					for _, o := range ws {
						witems := traceSeq(o.St.trace, o.St, wr.in)
						if idx < len(witems) && witems[idx].kind == "op" && witems[idx].name == it.name && witems[idx].arg.K == KExpr && witems[idx].arg.Key != "" {
							cands[witems[idx].arg.Key+"="+k.ExactString()] = cand{witems[idx].arg.Key, k}
						}
					}
				}
			}
		}
		var cks []string
		for ck := range cands {
			cks = append(cks, ck)
		}
		sort.Strings(cks)
		for _, ck := range cks {
			cd := cands[ck]
			c01Pair(p, r, key+" ["+ck+"]", enc, dec, v, leg, byteMode, map[string]Val{cd.key: {K: KConst, C: cd.k}})
		}
	}
	if len(ws) == 0 && len(rs) == 0 {
		r.OKf("enc-vs-dec", key, enc.Pos(), "no success path on either side for this version")
		return 0
	}
	if checked == 0 {
		r.Fail("enc-vs-dec", key, enc.Pos(), "no version-legal encoder path (%d paths, %d illegal)", len(ws), skipped)
		return 0
	}
	if len(failed) > 0 {
		return checked
	}
	r.OKf("enc-vs-dec", key, enc.Pos(), "%d legal encoder paths (%d with flag bits undefined for the version skipped) all accepted by one of %d decoder paths", checked, skipped, len(rs))
	return checked
}

func c01Registry(p *Program, r *Report, codecs []*types.Named) {
	r.Floor("registry", 17)
	pe := newPenum(p)
	seen := map[string]string{}
	opT := p.LookupType("primitive", "OpCode")
	var opConsts []*types.Const
	for _, ct := range declaredCodeTypes(p) {
		if ct.tn == opT {
			opConsts = ct.consts
		}
	}
	covered := map[string]bool{}
	for _, ct := range codecs {
		get := methodOfNamed(ct, "GetOpCode")
		key := ct.Obj().Name()
		if get == nil {
			r.Fail("registry", key, ct.Obj().Pos(), "codec has no GetOpCode")
			continue
		}
		recv := Val{K: KExpr, Key: "recv"}
		v, ok, why := pe.eval(get, &recv)
		if !ok || v.K != KConst {
			r.Fail("registry", key, get.Pos(), "GetOpCode is not a constant: %s", why)
			continue
		}
		lbl := constLabel(v.C)
		if o, dup := seen[lbl]; dup {
			r.Fail("registry", key, get.Pos(), "opcode %s is registered by both %s and %s", lbl, o, key)
			continue
		}
		seen[lbl] = key
		covered[lbl] = true
		r.OKf("registry", key, get.Pos(), "opcode %s", lbl)
	}
	for _, c := range opConsts {
		key := "codec for " + c.Name()
		if covered[constLabel(c.Val())] {
			r.OKf("registry", key, c.Pos(), "registered")
		} else {
			r.Fail("registry", key, c.Pos(), "opcode %s (%s) has no codec in message.DefaultMessageCodecs: such frames can be neither encoded nor decoded", c.Name(), constLabel(c.Val()))
		}
	}
	// message types: GetOpCode / IsResponse constants agree with OpCode.IsResponse
	msgI := p.LookupType("message", "Message").Type().Underlying().(*types.Interface)
	scope := p.Pkg("message").Types.Scope()
	isResp := methodOf(opT, "IsResponse")
	for _, name := range scope.Names() {
		tn, ok := scope.Lookup(name).(*types.TypeName)
		if !ok {
			continue
		}
		if _, isI := tn.Type().Underlying().(*types.Interface); isI {
			continue
		}
		pt := types.NewPointer(tn.Type())
		if !types.Implements(pt, msgI) {
			continue
		}
		named := tn.Type().(*types.Named)
		gop, gresp := methodOfNamed(named, "GetOpCode"), methodOfNamed(named, "IsResponse")
		key := "message." + name
		recv := Val{K: KExpr, Key: "recv"}
		ov, ok1, _ := pe.eval(gop, &recv)
		rv, ok2, _ := pe.eval(gresp, &recv)
		if !ok1 || !ok2 || ov.K != KConst || rv.K != KConst {
			r.Fail("registry", key, tn.Pos(), "GetOpCode/IsResponse are not constants")
			continue
		}
		o := constVal(ov.C, opT.Type())
		want, ok3, _ := pe.evalBool(isResp, &o)
		got, _ := rv.isBool()
		switch {
		case !ok3:
			r.Fail("registry", key, tn.Pos(), "OpCode.IsResponse undecided")
		case !covered[constLabel(ov.C)]:
			r.Fail("registry", key, tn.Pos(), "message type reports opcode %s which has no registered codec", constLabel(ov.C))
		case want != got:
			r.Fail("registry", key, tn.Pos(), "message type says IsResponse=%v but its opcode %s is classified IsResponse=%v", got, constLabel(ov.C), want)
		default:
			r.OKf("registry", key, tn.Pos(), "opcode %s, response=%v", constLabel(ov.C), got)
		}
	}
}

// fieldCoverageExceptions: exported fields that the wire format cannot carry, one reason each.
var fieldCoverageExceptions = map[string]string{
	"ColumnMetadata.Index": "not part of <col_spec> in any protocol version; a position the decoder could only recompute",
}

func c01FieldCoverage(p *Program, r *Report, codecs []*types.Named, vers []constant.Value) {
	r.Floor("field-coverage", 90)
	reads, stores := map[*types.Var]bool{}, map[*types.Var]bool{}
	for _, ct := range codecs {
		enc, dec := methodOfNamed(ct, "Encode"), methodOfNamed(ct, "Decode")
		for _, v := range vers {
			wr := runWire(p, enc, v, false, nil)
			for f := range wr.in.FieldReads {
				reads[f] = true
			}
			rr := runWire(p, dec, v, false, nil)
			for f := range rr.in.FieldStores {
				stores[f] = true
			}
		}
	}
	msgI := p.LookupType("message", "Message").Type().Underlying().(*types.Interface)
	scope := p.Pkg("message").Types.Scope()
	seen := map[*types.Named]bool{}
	var visit func(n *types.Named)
	visit = func(n *types.Named) {
		if seen[n] || n.Obj().Pkg() == nil || shortPkg(n.Obj().Pkg()) != "message" {
			return
		}
		seen[n] = true
		st, ok := n.Underlying().(*types.Struct)
		if !ok {
			return
		}
		for i := 0; i < st.NumFields(); i++ {
			f := st.Field(i)
			if !f.Exported() {
				continue
			}
			key := n.Obj().Name() + "." + f.Name()
			if why, ok := fieldCoverageExceptions[key]; ok {
				r.OKf("field-coverage", key, f.Pos(), "excepted: %s", why)
			} else if !reads[f] {
				r.Fail("field-coverage", key, f.Pos(), "exported message field %s is never read by any encoder: its content cannot survive a round trip", key)
			} else if !stores[f] {
				r.Fail("field-coverage", key, f.Pos(), "exported message field %s is never assigned by any decoder: its content cannot survive a round trip", key)
			} else {
				r.OKf("field-coverage", key, f.Pos(), "read by an encoder and assigned by a decoder")
			}
			// nested structs
			t := f.Type()
			for {
				switch u := t.(type) {
				case *types.Pointer:
					t = u.Elem()
					continue
				case *types.Slice:
					t = u.Elem()
					continue
				case *types.Map:
					t = u.Elem()
					continue
				}
				break
			}
			if nn, ok := t.(*types.Named); ok {
				visit(nn)
			}
		}
	}
	for _, name := range scope.Names() {
		tn, ok := scope.Lookup(name).(*types.TypeName)
		if !ok {
			continue
		}
		if _, isI := tn.Type().Underlying().(*types.Interface); isI {
			continue
		}
		if types.Implements(types.NewPointer(tn.Type()), msgI) {
			visit(tn.Type().(*types.Named))
		}
	}
}

// c01Body: the envelope body prefix (tracing id, custom payload, warnings) - encoder and decoder
// fork on the same header flag bits and on the frame direction; every legal encoder path must have
// a decoder path under the same flag/direction assumptions with the same notations.
func c01Body(p *Program, r *Report, vers []constant.Value, leg legality) {
	enc := p.LookupMethod("frame", "codec", "encodeBodyUncompressed")
	dec := p.LookupMethod("frame", "codec", "DecodeBody")
	compressed, _ := constant.Uint64Val(p.Pkg("primitive").Types.Scope().Lookup("HeaderFlagCompressed").(*types.Const).Val())
	warning, _ := constant.Uint64Val(p.Pkg("primitive").Types.Scope().Lookup("HeaderFlagWarning").(*types.Const).Val())
	tracing, _ := constant.Uint64Val(p.Pkg("primitive").Types.Scope().Lookup("HeaderFlagTracing").(*types.Const).Val())
	for _, v := range vers {
		ver := versionLabel(v)
		key := "frame.body@" + ver
		presets := map[string]Val{"p0.Version": constVal(v, nil)}
		wr := runWire(p, enc, v, false, presets)
		rr := runWire(p, dec, v, false, presets)
		if und := append(append([]string{}, wr.in.Undecided...), rr.in.Undecided...); len(und) > 0 {
			r.Fail("enc-vs-dec", key, enc.Pos(), "undecided: %s", strings.Join(und, "; "))
			continue
		}
		// canonical atoms: flag bits of p0.Flags and the direction
		canon := func(st *State) (bits map[uint64]bool, dir int) {
			bits = map[uint64]bool{}
			dir = -1
			for a, pol := range st.atoms {
				var m uint64
				if n, _ := fmt.Sscanf(a, "bit(p0.Flags,0x%x)", &m); n == 1 {
					bits[m] = pol
				}
				if a == "p1.Message.IsResponse()" || a == "p0.IsResponse" {
					if pol {
						dir = 1
					} else {
						dir = 0
					}
				}
			}
			return
		}
		ws, rs := successPaths(wr.outs), successPaths(rr.outs)
		checked := 0
		bad := ""
		for _, w := range ws {
			wb, wd := canon(w.St)
			// legality: bits defined for the version; warnings and tracing ids exist on responses only
			legal := true
			for m, set := range wb {
				if !set || m == compressed {
					continue
				}
				if vs, ok := leg["HeaderFlag"][m]; !ok || !vs[ver] {
					legal = false
				}
				if m == warning && wd == 0 {
					legal = false
				}
			}
			if wb[compressed] {
				continue // the uncompressed body encoder is analysed; compression wraps it (C08)
			}
			if !legal {
				continue
			}
			checked++
			witems := traceSeq(w.St.trace, w.St, wr.in)
			found := false
			why := "no decoder path under the same flags"
			for _, rd := range rs {
				rb, rdir := canon(rd.St)
				compat := true
				for m, set := range wb {
					if x, ok := rb[m]; ok && x != set {
						compat = false
					}
				}
				if wd >= 0 && rdir >= 0 && wd != rdir {
					compat = false
				}
				// a request with the tracing flag carries no tracing id on either side
				_ = tracing
				if !compat {
					continue
				}
				if ok, w2 := matchSeq(witems, traceSeq(rd.St.trace, rd.St, rr.in), binding{}, nil); ok {
					found = true
					break
				} else {
					why = w2 + " (decoder trace " + seqString(traceSeq(rd.St.trace, rd.St, rr.in)) + ")"
				}
			}
			if !found {
				bad = fmt.Sprintf("encoder path {%s} writes %s; %s", describeAtoms(w.St), seqString(witems), why)
				break
			}
		}
		if bad != "" {
			r.Fail("enc-vs-dec", key, enc.Pos(), "%s", bad)
		} else if checked == 0 {
			r.Fail("enc-vs-dec", key, enc.Pos(), "no legal encoder path")
		} else {
			r.OKf("enc-vs-dec", key, enc.Pos(), "%d legal flag/direction combinations agree", checked)
		}
	}
}

// c01ElisionPredicate: under the global-table-spec flag the encoder writes the keyspace/table of the
// first column once and omits them for every column; the decoder copies the first pair to all
// columns. That is lossless only if the predicate deriving the flag (haveSameTable) compares exactly
// the omitted fields, each with itself, for every element. Decided structurally: the omitted fields
// are read off the encoder; the predicate must contain, per omitted field F, an (in)equality whose
// operands are both plain reads of F (the element's F against a variable holding an element's F).
func c01ElisionPredicate(p *Program, r *Report) {
	pk := p.Pkg("message")
	info := pk.TypesInfo
	encFn := p.LookupFunc("message", "encodeColumnsMetadata")
	pred := p.LookupFunc("message", "haveSameTable")
	encDecl, _ := p.Decl(encFn)
	predDecl, _ := p.Decl(pred)
	// omitted fields: selectors on the range variable inside `if !<bool param> { ... }` in a range loop
	omitted := map[string]bool{}
	ast.Inspect(encDecl.Body, func(n ast.Node) bool {
		rs, ok := n.(*ast.RangeStmt)
		if !ok {
			return true
		}
		ast.Inspect(rs.Body, func(m ast.Node) bool {
			is, ok := m.(*ast.IfStmt)
			if !ok {
				return true
			}
			ue, ok := ast.Unparen(is.Cond).(*ast.UnaryExpr)
			if !ok || ue.Op != token.NOT {
				return true
			}
			ast.Inspect(is.Body, func(k ast.Node) bool {
				if se, ok := k.(*ast.SelectorExpr); ok {
					if sel := info.Selections[se]; sel != nil && sel.Kind() == types.FieldVal {
						if named := namedOf(sel.Recv()); named != nil && named.Obj().Name() == "ColumnMetadata" {
							omitted[sel.Obj().Name()] = true
						}
					}
				}
				return true
			})
			return true
		})
		return true
	})
	if len(omitted) == 0 {
		fatalf("anchor: encodeColumnsMetadata omits no per-column field under the global table spec flag")
	}
	// variables assigned from a plain field read, by field name
	heldField := map[types.Object]string{}
	fieldOf := func(e ast.Expr) string {
		se, ok := ast.Unparen(e).(*ast.SelectorExpr)
		if !ok {
			return ""
		}
		if sel := info.Selections[se]; sel != nil && sel.Kind() == types.FieldVal {
			// the field of one element: col.F, cols[i].F, (*col).F
			switch x := ast.Unparen(se.X).(type) {
			case *ast.Ident:
				return sel.Obj().Name()
			case *ast.IndexExpr:
				if _, ok := ast.Unparen(x.X).(*ast.Ident); ok {
					return sel.Obj().Name()
				}
			case *ast.StarExpr:
				return sel.Obj().Name()
			}
		}
		return ""
	}
	ast.Inspect(predDecl.Body, func(n ast.Node) bool {
		if as, ok := n.(*ast.AssignStmt); ok && len(as.Lhs) == len(as.Rhs) {
			for i, l := range as.Lhs {
				if id, ok := l.(*ast.Ident); ok {
					if f := fieldOf(as.Rhs[i]); f != "" {
						if obj := info.ObjectOf(id); obj != nil {
							heldField[obj] = f
						}
					}
				}
			}
		}
		return true
	})
	compared := map[string]bool{}
	ast.Inspect(predDecl.Body, func(n ast.Node) bool {
		be, ok := n.(*ast.BinaryExpr)
		if !ok || (be.Op != token.EQL && be.Op != token.NEQ) {
			return true
		}
		side := func(e ast.Expr) string {
			if f := fieldOf(e); f != "" {
				return f
			}
			if id, ok := ast.Unparen(e).(*ast.Ident); ok {
				return heldField[info.ObjectOf(id)]
			}
			return ""
		}
		a, b := side(be.X), side(be.Y)
		if a != "" && a == b {
			compared[a] = true
		}
		return true
	})
	for f := range omitted {
		key := "haveSameTable compares " + f
		if compared[f] {
			r.OKf("elision-predicate", key, pred.Pos(), "field %s, omitted per column under the flag, is compared with itself across elements", f)
		} else {
			r.Fail("elision-predicate", key, pred.Pos(), "the encoder omits ColumnMetadata.%s for every column when haveSameTable holds, but haveSameTable does not compare %s with %s element by element: columns with different %s values can be merged into the first one's", f, f, f, f)
		}
	}
}

// c01DumpPrimitives (debug): byte-mode traces of every primitive Write/Read pair.
func c01DumpPrimitives(p *Program) {
	scope := p.Pkg("primitive").Types.Scope()
	pe := newPenum(p)
	vers := supportedVersions(p, pe)
	for _, n := range scope.Names() {
		if !strings.HasPrefix(n, "Write") {
			continue
		}
		w, ok := scope.Lookup(n).(*types.Func)
		if !ok {
			continue
		}
		rd, ok := scope.Lookup("Read" + strings.TrimPrefix(n, "Write")).(*types.Func)
		if !ok {
			continue
		}
		v := vers[2]
		wr := runWire(p, w, v, true, nil)
		rr := runWire(p, rd, v, true, nil)
		var dump func(tr []*Sym, st *State, in *Interp) string
		dump = func(tr []*Sym, st *State, in *Interp) string {
			var parts []string
			for _, s := range tr {
				switch s.Kind {
				case "op":
					parts = append(parts, fmt.Sprintf("%s[%s arg=%v id=%d]", s.Name, s.Extra, in.resolve(s.Arg, st), s.ID))
				case "loop":
					var bs []string
					for _, b := range s.Body {
						if b.IsErr == 1 {
							continue
						}
						bs = append(bs, dump(b.St.trace, b.St, in))
					}
					parts = append(parts, fmt.Sprintf("loop(%s){%s}", s.Key, strings.Join(bs, " | ")))
				}
			}
			return strings.Join(parts, " ")
		}
		for _, o := range successPaths(wr.outs) {
			fmt.Fprintf(os.Stderr, "W %s: %s {%s}\n", n, dump(o.St.trace, o.St, wr.in), describeAtoms(o.St))
		}
		for _, o := range successPaths(rr.outs) {
			fmt.Fprintf(os.Stderr, "R %s: %s {%s}\n", rd.Name(), dump(o.St.trace, o.St, rr.in), describeAtoms(o.St))
		}
		if len(wr.in.Undecided)+len(rr.in.Undecided) > 0 {
			fmt.Fprintf(os.Stderr, "  UNDECIDED %v %v\n", wr.in.Undecided, rr.in.Undecided)
		}
	}
}

var reintAtomRe = regexp.MustCompile(`^(u?int(?:8|16|32|64)?)\(s(\d+)\) (<|>|<=|>=) (\S+)$`)

// wrapToWidth: the two's-complement value of c in an integer type of the given width.
func wrapToWidth(c constant.Value, bits int, signed bool) constant.Value {
	i, ok := constant.Int64Val(constant.ToInt(c))
	if !ok {
		if u, ok := constant.Uint64Val(constant.ToInt(c)); ok {
			i = int64(u)
		} else {
			return c
		}
	}
	if bits >= 64 {
		if signed {
			return constant.MakeInt64(i)
		}
		return constant.MakeUint64(uint64(i))
	}
	mask := int64(1)<<uint(bits) - 1
	v := i & mask
	if signed && v&(int64(1)<<uint(bits-1)) != 0 {
		v -= int64(1) << uint(bits)
	}
	return constant.MakeInt64(v)
}

// wireWidth: bit width of a fixed-width wire integer op (byte mode names), 0 otherwise.
func wireWidth(name string) int {
	name = strings.TrimSuffix(name, ":n")
	switch name {
	case "fixed1", "be8", "le8":
		return 8
	case "fixed2", "be16", "le16":
		return 16
	case "fixed4", "be32", "le32":
		return 32
	case "fixed8", "be64", "le64":
		return 64
	}
	return 0
}
