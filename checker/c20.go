package main

// C20: frame mutators keep the header flag of an optional body part in step with the part;
// SetCompress never flags STARTUP/OPTIONS/READY; STARTUP option accessors are pairwise consistent.
//
// Decides: per-path effect summaries of every *Frame method that stores Header.Flags (abstract
// interpretation of the method body), cross-checked with the flag -> body-part mapping extracted
// from the body encoder and decoder; the false-set of isCompressible by tabulation; setter/getter
// key identity and value agreement for every SetX/GetX|IsX pair of *message.Startup.

import (
	"fmt"
	"go/ast"
	"go/constant"
	"go/token"
	"go/types"
	"sort"
	"strings"

	"golang.org/x/tools/go/types/typeutil"
)

func init() { register("C20", "other", checkC20) }

// flagGuardedFields: in fn's body, for every `if` whose condition calls HeaderFlag.Contains(C)
// (C constant), the Body fields read (or stored, when stores=true) inside the if-body.
func flagGuardedFields(p *Program, fn *types.Func, stores bool) map[uint64]map[string]bool {
	decl, pk := p.Decl(fn)
	if decl == nil {
		fatalf("anchor: no body for %s", fn.FullName())
	}
	info := pk.TypesInfo
	bodyT := p.LookupType("frame", "Body").Type()
	out := map[uint64]map[string]bool{}
	ast.Inspect(decl.Body, func(n ast.Node) bool {
		is, ok := n.(*ast.IfStmt)
		if !ok {
			return true
		}
		var flags []uint64
		ast.Inspect(is.Cond, func(m ast.Node) bool {
			ce, ok := m.(*ast.CallExpr)
			if !ok {
				return true
			}
			f, _ := typeutil.Callee(info, ce).(*types.Func)
			if f == nil || f.Name() != "Contains" || len(ce.Args) != 1 {
				return true
			}
			if rn := namedOf(f.Type().(*types.Signature).Recv().Type()); rn == nil || rn.Obj().Name() != "HeaderFlag" {
				return true
			}
			if tv := info.Types[ce.Args[0]]; tv.Value != nil {
				if u, ok := constant.Uint64Val(tv.Value); ok {
					flags = append(flags, u)
				}
			}
			return true
		})
		if len(flags) == 0 {
			return true
		}
		ast.Inspect(is.Body, func(m ast.Node) bool {
			se, ok := m.(*ast.SelectorExpr)
			if !ok {
				return true
			}
			sel := info.Selections[se]
			if sel == nil || sel.Kind() != types.FieldVal {
				return true
			}
			rt := sel.Recv()
			if pt, ok := rt.(*types.Pointer); ok {
				rt = pt.Elem()
			}
			if !types.Identical(rt, bodyT) {
				return true
			}
			for _, fl := range flags {
				if out[fl] == nil {
					out[fl] = map[string]bool{}
				}
				out[fl][sel.Obj().Name()] = true
			}
			return true
		})
		return true
	})
	_ = stores
	return out
}

func checkC20(p *Program, r *Report) {
	r.Explanation = "Per-path effect summaries (abstract interpretation of each *frame.Frame mutator body): which header-flag constant is OR-ed in or cleared, under which condition on the argument, and which Body field is assigned; cross-checked with the flag->body-part mapping read off the body encoder and decoder. isCompressible is tabulated over all opcodes; every path that sets the COMPRESSED flag must have excluded STARTUP/OPTIONS/READY. STARTUP accessors: map keys used by each SetX / GetX|IsX pair are identical, a single key per accessor, distinct across pairs, and stored/compared values agree. Decides the flag/part invariant re-established by each mutator from any state (hence for sequences); does not decide that the frame then round-trips (C01) nor runtime values."
	r.Trusted = []string{"absint evaluator (checker/ai*.go)", "go/types"}
	r.Assumptions = []string{"mutators are the methods of *frame.Frame that assign Header.Flags", "accessor pairs are matched by the API naming SetX <-> GetX|IsX"}

	frameT := p.LookupType("frame", "Frame")
	named := frameT.Type().(*types.Named)
	hfT := p.LookupType("primitive", "HeaderFlag")
	flagName := map[uint64]string{}
	for _, ct := range declaredCodeTypes(p) {
		if ct.tn == hfT {
			for _, c := range ct.consts {
				u, _ := constant.Uint64Val(c.Val())
				flagName[u] = c.Name()
			}
		}
	}
	compressed, _ := constant.Uint64Val(p.Pkg("primitive").Types.Scope().Lookup("HeaderFlagCompressed").(*types.Const).Val())

	enc := flagGuardedFields(p, p.LookupMethod("frame", "codec", "encodeBodyUncompressed"), false)
	dec := flagGuardedFields(p, p.LookupMethod("frame", "codec", "DecodeBody"), true)
	lenm := flagGuardedFields(p, p.LookupMethod("frame", "codec", "uncompressedBodyLength"), false)
	r.Floor("flag-part-map", 3)
	var fl []uint64
	for f := range enc {
		fl = append(fl, f)
	}
	sort.Slice(fl, func(i, j int) bool { return fl[i] < fl[j] })
	for _, f := range fl {
		key := fmt.Sprintf("%s", flagName[f])
		e, d, l := setStr(enc[f]), setStr(dec[f]), setStr(lenm[f])
		if len(enc[f]) != 1 {
			r.Fail("flag-part-map", key, token.NoPos, "encoder guards %s under flag %s (expected exactly one body part)", e, key)
		} else if e != d {
			r.Fail("flag-part-map", key, token.NoPos, "flag %s guards %s in the body encoder but %s in the body decoder", key, e, d)
		} else if l != "" && l != e {
			r.Fail("flag-part-map", key, token.NoPos, "flag %s guards %s in the body encoder but %s in the body length", key, e, l)
		} else {
			r.OKf("flag-part-map", key, token.NoPos, "flag %s <-> Body.%s in encoder, decoder and length", key, e)
		}
	}

	// ---- mutators ---------------------------------------------------------------------------
	r.Floor("mutator-flag", 5)
	nonCompressible := map[int64]bool{1: true, 5: true, 2: true} // STARTUP, OPTIONS, READY (spec opcodes, property text)
	for i := 0; i < named.NumMethods(); i++ {
		m := named.Method(i)
		decl, pk := p.Decl(m)
		if decl == nil {
			continue
		}
		// a mutator assigns Header.Flags
		assigns := false
		ast.Inspect(decl.Body, func(n ast.Node) bool {
			if as, ok := n.(*ast.AssignStmt); ok {
				for _, l := range as.Lhs {
					if se, ok := l.(*ast.SelectorExpr); ok {
						if sel := pk.TypesInfo.Selections[se]; sel != nil && sel.Kind() == types.FieldVal && sel.Obj().Name() == "Flags" {
							assigns = true
						}
					}
				}
			}
			return true
		})
		if !assigns {
			continue
		}
		in := newInterp(p, &effHooks{})
		recv, args := paramVals(m)
		outs := in.RunFunc(m, recv, args, nil)
		key := "Frame." + m.Name()
		if len(in.Undecided) > 0 {
			r.Fail("mutator-flag", key, m.Pos(), "undecided: %s", strings.Join(in.Undecided, "; "))
			continue
		}
		type eff struct {
			op    string // add | remove
			flag  uint64
			field string
			fval  Val
			atoms []string
			st    *State
		}
		var effs []eff
		bad := ""
		for _, o := range outs {
			var e eff
			e.st = o.St
			e.atoms = o.St.atomLog
			for _, s := range o.St.trace {
				if s.Kind != "fstore" {
					continue
				}
				switch s.Name {
				case "Flags":
					if s.Arg.K == KExpr && (s.Arg.Key == "|mask" || s.Arg.Key == "&^mask") && len(s.Arg.Elems) == 2 && s.Arg.Elems[0].K == KExpr && s.Arg.Elems[0].Key == "recv.Header.Flags" {
						if e.op != "" {
							bad = "more than one flag update on a path"
						}
						e.op = map[string]string{"|mask": "add", "&^mask": "remove"}[s.Arg.Key]
						e.flag, _ = constant.Uint64Val(s.Arg.Elems[1].C)
					} else {
						bad = fmt.Sprintf("Header.Flags assigned %v, not the previous flags with one constant added/removed", s.Arg)
					}
				default:
					if len(s.Args) == 1 && s.Args[0].K == KExpr && s.Args[0].Key == "recv.Body" {
						if e.field != "" {
							bad = "more than one body part assigned"
						}
						e.field = s.Name
						e.fval = s.Arg
					} else {
						bad = fmt.Sprintf("unexpected store to %s", s.Extra)
					}
				}
			}
			if e.op == "" {
				bad = "a path leaves Header.Flags untouched"
			}
			effs = append(effs, e)
		}
		if bad != "" {
			r.Fail("mutator-flag", key, m.Pos(), "%s", bad)
			continue
		}
		// one flag, both polarities, consistent with the argument
		flags := map[uint64]bool{}
		hasAdd, hasRemove := false, false
		for _, e := range effs {
			flags[e.flag] = true
			if e.op == "add" {
				hasAdd = true
			} else {
				hasRemove = true
			}
		}
		if len(flags) != 1 || !hasAdd || !hasRemove {
			r.Fail("mutator-flag", key, m.Pos(), "mutator toggles %d different flags (add path: %v, remove path: %v); expected one flag added on one condition and removed on its negation", len(flags), hasAdd, hasRemove)
			continue
		}
		var flag uint64
		for f := range flags {
			flag = f
		}
		// polarity: add <=> argument present/true
		for _, e := range effs {
			present, known := argPresence(e.atoms)
			if !known {
				bad = fmt.Sprintf("cannot relate the %s path to the argument (conditions %v)", e.op, e.atoms)
			} else if present != (e.op == "add") && flag != compressed {
				bad = fmt.Sprintf("flag %s is %sed when the argument is %s", flagName[flag], e.op, map[bool]string{true: "present/true", false: "absent/false"}[present])
			}
			if flag == compressed && e.op == "add" {
				if !present {
					bad = "COMPRESSED added when compress=false"
				}
				// the opcode must be known not to be STARTUP/OPTIONS/READY on this path
				okc := false
				for k, ex := range e.st.exclude {
					if strings.HasSuffix(k, ".GetOpCode()") {
						got := map[int64]bool{}
						for _, c := range ex {
							if i, ok := constant.Int64Val(c); ok {
								got[i] = true
							}
						}
						okc = true
						for c := range nonCompressible {
							if !got[c] {
								okc = false
							}
						}
					}
				}
				for k, c := range e.st.refine {
					if strings.HasSuffix(k, ".GetOpCode()") {
						if i, ok := constant.Int64Val(c); ok && !nonCompressible[i] {
							okc = true
						}
					}
				}
				if !okc {
					bad = "COMPRESSED flag can be set without excluding STARTUP, OPTIONS and READY"
				}
			}
		}
		// body part
		fieldSet := map[string]bool{}
		for _, e := range effs {
			fieldSet[e.field] = true
			if e.field != "" && !(e.fval.K == KExpr && e.fval.Key == "p0") {
				bad = fmt.Sprintf("Body.%s is assigned %v, not the argument", e.field, e.fval)
			}
		}
		if len(fieldSet) != 1 {
			bad = "body part assigned on some paths only"
		}
		var field string
		for f := range fieldSet {
			field = f
		}
		if bad == "" && field != "" {
			if !enc[flag][field] || !dec[flag][field] {
				bad = fmt.Sprintf("mutator toggles %s and assigns Body.%s, but the body encoder/decoder guard %s/%s with that flag", flagName[flag], field, setStr(enc[flag]), setStr(dec[flag]))
			}
		}
		if bad == "" && field == "" {
			// flag-only mutators: argument must be a bool (request tracing / compress)
			sig := m.Type().(*types.Signature)
			if b, ok := sig.Params().At(0).Type().Underlying().(*types.Basic); !ok || b.Kind() != types.Bool {
				bad = fmt.Sprintf("mutator with a non-boolean argument toggles %s without assigning the body part", flagName[flag])
			}
		}
		if bad != "" {
			r.Fail("mutator-flag", key, m.Pos(), "%s", bad)
		} else {
			r.OKf("mutator-flag", key, m.Pos(), "toggles %s iff argument present; assigns Body.%s", flagName[flag], field)
		}
	}

	// ---- isCompressible ------------------------------------------------------------------------
	r.Floor("compressible", 18)
	isc := p.LookupFunc("frame", "isCompressible")
	pe := newPenum(p)
	for _, ct := range declaredCodeTypes(p) {
		if ct.tn.Name() != "OpCode" {
			continue
		}
		for _, c := range ct.consts {
			b, ok, why := pe.evalBool(isc, nil, constVal(c.Val(), ct.tn.Type()))
			i, _ := constant.Int64Val(c.Val())
			key := "isCompressible(" + c.Name() + ")"
			if !ok {
				r.Fail("compressible", key, isc.Pos(), "undecided: %s", why)
			} else if b == nonCompressible[i] {
				r.Fail("compressible", key, isc.Pos(), "isCompressible(%s) = %v; STARTUP, OPTIONS and READY (and only they) must not be compressible", c.Name(), b)
			} else {
				r.OKf("compressible", key, isc.Pos(), "%v", b)
			}
		}
		ov := pe.otherVal(ct.tn.Type())
		if _, ok, why := pe.evalBool(isc, nil, ov); !ok {
			r.Fail("compressible", "isCompressible(Other)", isc.Pos(), "undecided: %s", why)
		} else {
			r.OKf("compressible", "isCompressible(Other)", isc.Pos(), "decided")
		}
	}

	c20Accessors(p, r)
}

// argPresence interprets the path conditions on parameter p0: present (non-empty / non-nil / true).
func argPresence(atoms []string) (present, known bool) {
	for _, a := range atoms {
		pol := a[0] == '+'
		body := a[1:]
		switch body {
		case "len0(p0)", "nil(p0)", "empty(p0)":
			return !pol, true
		case "p0":
			return pol, true
		}
	}
	return false, false
}

func setStr(m map[string]bool) string {
	var ks []string
	for k := range m {
		ks = append(ks, k)
	}
	sort.Strings(ks)
	return strings.Join(ks, ",")
}

func c20Accessors(p *Program, r *Report) {
	r.Floor("accessor-pairing", 7)
	st := p.LookupType("message", "Startup")
	pt := types.NewPointer(st.Type())
	ms := types.NewMethodSet(pt)
	info := p.Pkg("message").TypesInfo
	type acc struct {
		fn     *types.Func
		keys   map[string]bool
		consts map[string]bool // string constants stored / compared
		passes bool            // setter stores its parameter / getter returns the looked-up value
	}
	analyse := func(fn *types.Func) *acc {
		decl, _ := p.Decl(fn)
		if decl == nil {
			return nil
		}
		a := &acc{fn: fn, keys: map[string]bool{}, consts: map[string]bool{}}
		isOptions := func(e ast.Expr) bool {
			se, ok := ast.Unparen(e).(*ast.SelectorExpr)
			if !ok {
				return false
			}
			sel := info.Selections[se]
			return sel != nil && sel.Kind() == types.FieldVal && sel.Obj().Name() == "Options"
		}
		keyOf := func(e ast.Expr) {
			if tv := info.Types[e]; tv.Value != nil && tv.Value.Kind() == constant.String {
				a.keys[constant.StringVal(tv.Value)] = true
			} else {
				a.keys["<non-constant "+exprString(e)+">"] = true
			}
		}
		ast.Inspect(decl.Body, func(n ast.Node) bool {
			switch x := n.(type) {
			case *ast.IndexExpr:
				if isOptions(x.X) {
					keyOf(x.Index)
				}
			case *ast.CallExpr:
				if id, ok := x.Fun.(*ast.Ident); ok && id.Name == "delete" && len(x.Args) == 2 && isOptions(x.Args[0]) {
					keyOf(x.Args[1])
				}
			case *ast.AssignStmt:
				for i, l := range x.Lhs {
					if ie, ok := l.(*ast.IndexExpr); ok && isOptions(ie.X) && i < len(x.Rhs) {
						rhs := ast.Unparen(x.Rhs[i])
						if tv := info.Types[rhs]; tv.Value != nil && tv.Value.Kind() == constant.String {
							a.consts[constant.StringVal(tv.Value)] = true
						} else if usesParam(rhs, decl, info) {
							a.passes = true
						}
					}
				}
			case *ast.BinaryExpr:
				if x.Op == token.EQL || x.Op == token.NEQ {
					for _, s := range []ast.Expr{x.X, x.Y} {
						if tv := info.Types[s]; tv.Value != nil && tv.Value.Kind() == constant.String {
							a.consts[constant.StringVal(tv.Value)] = true
						}
					}
				}
			case *ast.ReturnStmt:
				for _, res := range x.Results {
					if ie, ok := ast.Unparen(res).(*ast.IndexExpr); ok && isOptions(ie.X) {
						a.passes = true
					}
					if ce, ok := ast.Unparen(res).(*ast.CallExpr); ok && len(ce.Args) == 1 {
						if tv, ok := info.Types[ce.Fun]; ok && tv.IsType() {
							a.passes = true
						}
					}
				}
			}
			return true
		})
		return a
	}
	usedKeys := map[string]string{}
	for i := 0; i < ms.Len(); i++ {
		set, ok := ms.At(i).Obj().(*types.Func)
		if !ok || !strings.HasPrefix(set.Name(), "Set") {
			continue
		}
		base := strings.TrimPrefix(set.Name(), "Set")
		var get *types.Func
		for _, pre := range []string{"Get", "Is"} {
			if sel := ms.Lookup(st.Pkg(), pre+base); sel != nil {
				get = sel.Obj().(*types.Func)
			}
		}
		key := "Startup." + base
		if get == nil {
			r.Fail("accessor-pairing", key, set.Pos(), "setter %s has no matching getter", set.Name())
			continue
		}
		sa, ga := analyse(set), analyse(get)
		if sa == nil || ga == nil {
			continue
		}
		sk, gk := setStr(sa.keys), setStr(ga.keys)
		switch {
		case len(sa.keys) != 1 || len(ga.keys) != 1:
			r.Fail("accessor-pairing", key, set.Pos(), "%s touches keys {%s}, %s touches keys {%s}; each accessor must use exactly one option key", set.Name(), sk, get.Name(), gk)
		case sk != gk:
			r.Fail("accessor-pairing", key, set.Pos(), "%s stores under option key %q but %s reads option key %q", set.Name(), sk, get.Name(), gk)
		case usedKeys[sk] != "":
			r.Fail("accessor-pairing", key, set.Pos(), "option key %q is also used by %s", sk, usedKeys[sk])
		default:
			// value agreement
			sig := set.Type().(*types.Signature)
			isBool := false
			if b, ok := sig.Params().At(0).Type().Underlying().(*types.Basic); ok && b.Kind() == types.Bool {
				isBool = true
			}
			if isBool {
				if len(sa.consts) != 1 || setStr(sa.consts) != setStr(ga.consts) {
					r.Fail("accessor-pairing", key, set.Pos(), "%s stores {%s} for true but %s compares with {%s}", set.Name(), setStr(sa.consts), get.Name(), setStr(ga.consts))
					break
				}
			} else if !sa.passes || !ga.passes {
				r.Fail("accessor-pairing", key, set.Pos(), "%s must store its argument and %s must return the stored value", set.Name(), get.Name())
				break
			}
			r.OKf("accessor-pairing", key, set.Pos(), "both use option key %q", sk)
		}
		if usedKeys[sk] == "" {
			usedKeys[sk] = set.Name()
		}
	}
}

func usesParam(e ast.Expr, decl *ast.FuncDecl, info *types.Info) bool {
	found := false
	ast.Inspect(e, func(n ast.Node) bool {
		if id, ok := n.(*ast.Ident); ok {
			obj := info.ObjectOf(id)
			for _, fld := range decl.Type.Params.List {
				for _, nm := range fld.Names {
					if info.Defs[nm] == obj {
						found = true
					}
				}
			}
		}
		return true
	})
	return found
}
