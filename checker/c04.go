package main

// C04: decoders never panic on arbitrary input - the structurally visible panic classes.
//
//   nonneg-size         every allocation size / reflect size / SetLen operand in a function reachable
//                       from a decoding entry point is provably >= 0 (guards engine: dominating
//                       conditions, return summaries on the non-error returns, fields through the
//                       stores on the producing object, parameters through all callers)
//   recursion-progress  in every call-graph cycle among decode-reachable functions each recursive
//                       call is dominated by a call that consumes input
//   field-init          (shared with C15) pointer fields dereferenced on decode paths are assigned
//
// Not decided: huge positive counts, index bounds that depend on runtime lengths, third-party
// decompressor internals, stack depth of consuming recursion.

import (
	"fmt"
	"go/ast"
	"go/token"
	"go/types"
	"sort"
	"strings"

	"golang.org/x/tools/go/callgraph"
	"golang.org/x/tools/go/ssa"
)

func init() { register("C04", "other", checkC04) }

var decodePkgs = map[string]bool{"primitive": true, "message": true, "frame": true, "segment": true, "datatype": true, "datacodec": true, "compression/lz4": true, "compression/snappy": true, "crc": true}

func isDecodeEntryName(n string) bool {
	for _, p := range []string{"Decode", "Read", "Decompress", "DiscardBody", "ConvertFromRawFrame", "Checksum"} {
		if strings.HasPrefix(n, p) {
			return true
		}
	}
	return false
}

// decodeReachable: module functions reachable (call graph) from the exported decoding entry points.
func decodeReachable(p *Program, cg *callgraph.Graph) (map[*ssa.Function]bool, []*ssa.Function) {
	var roots []*ssa.Function
	for _, fn := range p.ModuleFuncs() {
		if fn.Pkg == nil || fn.Parent() != nil {
			continue
		}
		if !decodePkgs[shortPkg(fn.Pkg.Pkg)] {
			continue
		}
		if ast.IsExported(fn.Name()) && isDecodeEntryName(fn.Name()) {
			roots = append(roots, fn)
		}
	}
	seen := map[*ssa.Function]bool{}
	var stack []*ssa.Function
	for _, r := range roots {
		seen[r] = true
		stack = append(stack, r)
	}
	for len(stack) > 0 {
		f := stack[len(stack)-1]
		stack = stack[:len(stack)-1]
		// anonymous functions defined inside are reachable too (closures handed to callees)
		for _, an := range f.AnonFuncs {
			if !seen[an] {
				seen[an] = true
				stack = append(stack, an)
			}
		}
		n := cg.Nodes[f]
		if n == nil {
			continue
		}
		for _, e := range n.Out {
			c := e.Callee.Func
			if c == nil || seen[c] || c.Blocks == nil {
				continue
			}
			pk := c.Package()
			if pk == nil && c.Parent() != nil {
				pk = c.Parent().Package()
			}
			if pk == nil || !isModulePkg(pk.Pkg) {
				continue
			}
			seen[c] = true
			stack = append(stack, c)
		}
	}
	return seen, roots
}

func fnKey(fn *ssa.Function) string {
	s := fn.String()
	return strings.ReplaceAll(s, modPath+"/", "")
}

func checkC04(p *Program, r *Report) {
	r.Explanation = "Decides the panic classes visible in the shape of the code for every function reachable (VTA call graph; CHA in the thorough tier) from the exported Decode*/Read*/Decompress*/DiscardBody/ConvertFromRawFrame entry points: each make/reflect.MakeSlice/SetLen size operand must be provably non-negative under its dominating conditions (interprocedurally through return summaries, object fields and caller arguments); each recursive call in a decode cycle must be dominated by an input-consuming call. Does not decide: upper bounds of counts (memory), index bounds tied to runtime lengths, third-party code, timing."
	r.Trusted = []string{"go/ssa, VTA call graph", "interval domain in checker/guards.go", "stdlib post-conditions table (strconv.ParseInt bit size, bits.LeadingZeros*, len/cap >= 0, Buffer.Len >= 0)"}
	r.Assumptions = []string{"no Go object is longer than 2^47 bytes (amd64 address space)", "third-party and standard-library callees do not write fields of repository structs", "exported functions and methods may be called with arbitrary arguments (their parameters are unconstrained)"}
	g := newGuards(p)
	if r.Tier == "thorough" {
		g.cg = p.CallGraphCHA()
	}
	reach, roots := decodeReachable(p, g.cg)
	r.Extra["decode_entry_points"] = len(roots)
	r.Extra["decode_reachable_functions"] = len(reach)
	if len(roots) < 60 {
		fatalf("only %d decoding entry points found", len(roots))
	}
	r.Floor("nonneg-size", 25)
	var fns []*ssa.Function
	for f := range reach {
		fns = append(fns, f)
	}
	sort.Slice(fns, func(i, j int) bool { return fns[i].String() < fns[j].String() })
	for _, fn := range fns {
		counter := map[string]int{}
		for _, b := range fn.Blocks {
			for _, ins := range b.Instrs {
				type operand struct {
					v    ssa.Value
					what string
				}
				var ops []operand
				switch x := ins.(type) {
				case *ssa.MakeSlice:
					ops = append(ops, operand{x.Len, "make len"})
					if x.Cap != x.Len {
						ops = append(ops, operand{x.Cap, "make cap"})
					}
				case *ssa.MakeChan:
					ops = append(ops, operand{x.Size, "chan size"})
				case *ssa.Call:
					if f := x.Call.StaticCallee(); f != nil {
						switch f.String() {
						case "reflect.MakeSlice":
							ops = append(ops, operand{x.Call.Args[1], "reflect.MakeSlice len"}, operand{x.Call.Args[2], "reflect.MakeSlice cap"})
						case "(reflect.Value).SetLen":
							ops = append(ops, operand{x.Call.Args[1], "reflect SetLen"})
						case "reflect.MakeChan":
							ops = append(ops, operand{x.Call.Args[1], "reflect.MakeChan size"})
						case "(*bytes.Buffer).Grow", "(*strings.Builder).Grow":
							ops = append(ops, operand{x.Call.Args[1], "Grow"})
						}
					}
				}
				for _, op := range ops {
					if _, isConst := op.v.(*ssa.Const); isConst {
						continue
					}
					counter[op.what]++
					key := fmt.Sprintf("%s %s#%d", fnKey(fn), op.what, counter[op.what])
					it := g.At(op.v, b)
					if it.nonNeg() {
						r.OKf("nonneg-size", key, ins.Pos(), "operand in %s", it.String())
					} else {
						r.Fail("nonneg-size", key, ins.Pos(), "%s operand %s may be negative (interval %s): a wire-supplied count reaches an allocation without a lower-bound check", op.what, describeVal(op.v), it.String())
					}
				}
			}
		}
	}
	c04Recursion(p, r, g, reach)
	c04ReflectKeys(p, r, reach)
	// the LZ4 trial-buffer loop must make progress towards its bound on every iteration (no hang) and
	// size its buffers soundly (shared with C08)
	c08Rules(p, r)
}

func describeVal(v ssa.Value) string {
	if v.Name() != "" {
		return v.Name() + " (" + types.TypeString(v.Type(), relQual) + ")"
	}
	return v.String()
}

// isConsumingCall: the call reads from the input (primitive.Read*, binary.Read, io.ReadFull,
// io.CopyN, Reader.Read) or is a module function every non-error return of which is preceded, on
// all paths, by such a call.
var consumingMemo = map[*ssa.Function]int{}

func isConsumingCall(c *ssa.CallCommon) bool {
	if c.IsInvoke() {
		return c.Method.Name() == "Read" || c.Method.Name() == "ReadByte"
	}
	f := c.StaticCallee()
	if f == nil {
		return false
	}
	switch f.String() {
	case "encoding/binary.Read", "io.ReadFull", "io.CopyN", "io.ReadAtLeast":
		return true
	}
	if f.Pkg != nil && shortPkg(f.Pkg.Pkg) == "primitive" && strings.HasPrefix(f.Name(), "Read") {
		return true
	}
	if f.Blocks == nil || f.Pkg == nil || !isModulePkg(f.Pkg.Pkg) {
		return false
	}
	if v, ok := consumingMemo[f]; ok {
		return v == 1
	}
	consumingMemo[f] = 2
	unprot := unprotectedBlocks(f)
	ok := true
	for _, ret := range returnsOf(f) {
		if provablyNonNilErrRet(ret) {
			continue
		}
		// the return is reached without consumption if its block is entered unprotected and holds
		// no consuming call itself
		if unprot[ret.Block()] && !blockConsumesBefore(ret.Block(), len(ret.Block().Instrs)) {
			ok = false
		}
	}
	if ok {
		consumingMemo[f] = 1
	}
	return ok
}

func provablyNonNilErrRet(ret *ssa.Return) bool {
	n := len(ret.Results)
	return n > 0 && isErrorType(ret.Results[n-1].Type()) && provablyNonNilErr(ret.Results[n-1], 0)
}

func blockConsumesBefore(b *ssa.BasicBlock, lim int) bool {
	for _, pi := range b.Instrs[:lim] {
		if c, ok := pi.(ssa.CallInstruction); ok {
			if _, isGo := pi.(*ssa.Go); isGo {
				continue
			}
			if _, isDefer := pi.(*ssa.Defer); isDefer {
				continue
			}
			if isConsumingCall(c.Common()) {
				return true
			}
		}
	}
	return false
}

// unprotectedBlocks: blocks whose entry is reachable from the function entry along a path on which
// no consuming call has been executed yet.
func unprotectedBlocks(f *ssa.Function) map[*ssa.BasicBlock]bool {
	out := map[*ssa.BasicBlock]bool{}
	if len(f.Blocks) == 0 {
		return out
	}
	work := []*ssa.BasicBlock{f.Blocks[0]}
	out[f.Blocks[0]] = true
	for len(work) > 0 {
		b := work[len(work)-1]
		work = work[:len(work)-1]
		if blockConsumesBefore(b, len(b.Instrs)) {
			continue
		}
		for _, s := range b.Succs {
			if !out[s] {
				out[s] = true
				work = append(work, s)
			}
		}
	}
	return out
}

// descends: some argument of the recursive call is a strict projection (field, element,
// dereference, accessor result) of the caller's parameter in the same position: recursion over a
// finite data structure rather than over the input.
func descends(call *ssa.CallCommon, caller *ssa.Function) bool {
	args := call.Args
	if call.IsInvoke() {
		args = append([]ssa.Value{call.Value}, args...)
	}
	for i, a := range args {
		if i >= len(caller.Params) {
			break
		}
		if strictProjection(a, caller.Params[i], 0, 0) {
			return true
		}
	}
	return false
}

func strictProjection(v ssa.Value, root ssa.Value, steps, depth int) bool {
	if depth > 12 {
		return false
	}
	if v == root {
		return steps > 0
	}
	switch x := v.(type) {
	case *ssa.UnOp:
		if x.Op == token.MUL {
			return strictProjection(x.X, root, steps+1, depth+1)
		}
	case *ssa.FieldAddr:
		return strictProjection(x.X, root, steps+1, depth+1)
	case *ssa.Field:
		return strictProjection(x.X, root, steps+1, depth+1)
	case *ssa.IndexAddr:
		return strictProjection(x.X, root, steps+1, depth+1)
	case *ssa.Index:
		return strictProjection(x.X, root, steps+1, depth+1)
	case *ssa.Lookup:
		return strictProjection(x.X, root, steps+1, depth+1)
	case *ssa.TypeAssert:
		return strictProjection(x.X, root, steps, depth+1)
	case *ssa.ChangeInterface:
		return strictProjection(x.X, root, steps, depth+1)
	case *ssa.MakeInterface:
		return strictProjection(x.X, root, steps, depth+1)
	case *ssa.ChangeType:
		return strictProjection(x.X, root, steps, depth+1)
	case *ssa.Extract:
		return strictProjection(x.Tuple, root, steps, depth+1)
	case *ssa.Call:
		// accessor on the structure: t.Elem(), v.Field(i), ...
		if x.Call.IsInvoke() {
			return strictProjection(x.Call.Value, root, steps+1, depth+1)
		}
		if len(x.Call.Args) > 0 && x.Call.Signature().Recv() != nil {
			return strictProjection(x.Call.Args[0], root, steps+1, depth+1)
		}
	case *ssa.Phi:
		for _, e := range x.Edges {
			if !strictProjection(e, root, steps, depth+1) {
				return false
			}
		}
		return len(x.Edges) > 0
	}
	return false
}

func c04Recursion(p *Program, r *Report, g *Guards, reach map[*ssa.Function]bool) {
	r.Floor("recursion-progress", 5)
	// SCCs of the call graph restricted to reachable module functions (Tarjan)
	index := map[*ssa.Function]int{}
	low := map[*ssa.Function]int{}
	on := map[*ssa.Function]bool{}
	var stack []*ssa.Function
	var sccs [][]*ssa.Function
	n := 0
	succ := func(f *ssa.Function) []*ssa.Function {
		var out []*ssa.Function
		if node := g.cg.Nodes[f]; node != nil {
			for _, e := range node.Out {
				if reach[e.Callee.Func] {
					out = append(out, e.Callee.Func)
				}
			}
		}
		return out
	}
	var strong func(f *ssa.Function)
	strong = func(f *ssa.Function) {
		index[f], low[f] = n, n
		n++
		stack = append(stack, f)
		on[f] = true
		for _, w := range succ(f) {
			if _, ok := index[w]; !ok {
				strong(w)
				if low[w] < low[f] {
					low[f] = low[w]
				}
			} else if on[w] && index[w] < low[f] {
				low[f] = index[w]
			}
		}
		if low[f] == index[f] {
			var comp []*ssa.Function
			for {
				w := stack[len(stack)-1]
				stack = stack[:len(stack)-1]
				on[w] = false
				comp = append(comp, w)
				if w == f {
					break
				}
			}
			sccs = append(sccs, comp)
		}
	}
	var fns []*ssa.Function
	for f := range reach {
		fns = append(fns, f)
	}
	sort.Slice(fns, func(i, j int) bool { return fns[i].String() < fns[j].String() })
	for _, f := range fns {
		if _, ok := index[f]; !ok {
			strong(f)
		}
	}
	for _, comp := range sccs {
		inComp := map[*ssa.Function]bool{}
		for _, f := range comp {
			inComp[f] = true
		}
		self := false
		if len(comp) == 1 {
			for _, w := range succ(comp[0]) {
				if w == comp[0] {
					self = true
				}
			}
			if !self {
				continue
			}
		}
		// Every cycle must pass through a call edge that is dominated by a consuming call. Remove such
		// "progress" edges; the rest of the component must be acyclic.
		type edge struct{ from, to *ssa.Function }
		free := map[edge]token.Pos{} // edges without guaranteed progress
		inputOnly := map[edge]ssa.CallInstruction{}
		unprot := map[*ssa.Function]map[*ssa.BasicBlock]bool{}
		for _, f := range comp {
			unprot[f] = unprotectedBlocks(f)
		}
		for _, f := range comp {
			for _, b := range f.Blocks {
				for i, ins := range b.Instrs {
					ci, ok := ins.(ssa.CallInstruction)
					if !ok {
						continue
					}
					var targets []*ssa.Function
					if node := g.cg.Nodes[f]; node != nil {
						for _, e := range node.Out {
							if e.Site == ci && inComp[e.Callee.Func] {
								targets = append(targets, e.Callee.Func)
							}
						}
					}
					if len(targets) == 0 {
						continue
					}
					// progress: every path from the entry to this call has consumed input, or the call
					// descends into a strict sub-structure of its own parameter
					structural := descends(ci.Common(), f) ||
						nilWhenUnconsumed(ci.Common(), f, unprot[f]) && targetsIgnoreNil(p, targets, inComp)
					progress := !unprot[f][b] || blockConsumesBefore(b, i) || structural
					if !progress {
						for _, t := range targets {
							if _, ok := free[edge{f, t}]; !ok {
								free[edge{f, t}] = ins.Pos()
							}
						}
					}
					if !structural && !descendsAny(ci.Common(), f) {
						// progress (if any) comes from consuming input only: the depth of this
						// recursion is chosen by the peer
						for _, t := range targets {
							if _, ok := inputOnly[edge{f, t}]; !ok {
								inputOnly[edge{f, t}] = ci
							}
						}
					}
				}
			}
		}
		// cycle detection on free edges
		color := map[*ssa.Function]int{}
		var cyc []string
		var dfs func(f *ssa.Function, path []string) bool
		dfs = func(f *ssa.Function, path []string) bool {
			color[f] = 1
			for e := range free {
				if e.from != f {
					continue
				}
				if color[e.to] == 1 {
					cyc = append(path, fnKey(f), fnKey(e.to))
					return true
				}
				if color[e.to] == 0 && dfs(e.to, append(path, fnKey(f))) {
					return true
				}
			}
			color[f] = 2
			return false
		}
		names := []string{}
		for _, f := range comp {
			names = append(names, fnKey(f))
		}
		sort.Strings(names)
		key := "cycle{" + names[0] + ",..}#" + fmt.Sprint(len(comp))
		bad := false
		sort.Slice(comp, func(i, j int) bool { return comp[i].String() < comp[j].String() })
		for _, f := range comp {
			if color[f] == 0 && dfs(f, nil) {
				bad = true
				break
			}
		}
		// ---- recursion-depth: a cycle made of input-only edges nests as deep as the peer wishes
		{
			col := map[*ssa.Function]int{}
			var icyc []string
			var dfs2 func(f *ssa.Function, path []string) bool
			dfs2 = func(f *ssa.Function, path []string) bool {
				col[f] = 1
				for e := range inputOnly {
					if e.from != f {
						continue
					}
					if col[e.to] == 1 {
						icyc = append(path, fnKey(f), fnKey(e.to))
						return true
					}
					if col[e.to] == 0 && dfs2(e.to, append(path, fnKey(f))) {
						return true
					}
				}
				col[f] = 2
				return false
			}
			inputDriven := false
			for _, f := range comp {
				if col[f] == 0 && dfs2(f, nil) {
					inputDriven = true
					break
				}
			}
			dkey := "cycle{" + names[0] + ",..}#" + fmt.Sprint(len(comp))
			if inputDriven {
				// a depth bound: some recursive call passes <int param> + 1 and that parameter is
				// compared with a limit
				bounded := false
				for e, ci := range inputOnly {
					for ai, a := range ci.Common().Args {
						bo, ok := a.(*ssa.BinOp)
						if !ok || bo.Op != token.ADD {
							continue
						}
						if pp, ok := bo.X.(*ssa.Parameter); ok && isIntType(pp.Type()) {
							for _, ref := range *pp.Referrers() {
								if cmp, ok := ref.(*ssa.BinOp); ok && (cmp.Op == token.GTR || cmp.Op == token.GEQ || cmp.Op == token.LSS || cmp.Op == token.LEQ) {
									bounded = true
								}
							}
						}
						_ = ai
					}
					_ = e
				}
				if bounded {
					r.OKf("recursion-depth", dkey, comp[0].Pos(), "input-driven recursion carries a depth counter that is compared with a limit")
				} else {
					r.Fail("recursion-depth", dkey, comp[0].Pos(), "the nesting depth of this decode recursion (%s) is bounded only by the length of the input: every level consumes as little as two bytes, a failing parse re-wraps the error at every level (quadratic time and memory in the input length) and the stack grows with the input - a few kilobytes of nested type descriptors stall the decoder for seconds, a megabyte for days", strings.Join(icyc, " -> "))
				}
			} else {
				r.OKf("recursion-depth", dkey, comp[0].Pos(), "the recursion descends a finite structure (codec / data type tree), its depth is not chosen by the input")
			}
		}
		if bad {
			r.Fail("recursion-progress", key, comp[0].Pos(), "decode recursion without input consumption along %s", strings.Join(cyc, " -> "))
		} else {
			r.OKf("recursion-progress", key, comp[0].Pos(), "every cycle through %d functions passes a call dominated by an input read", len(comp))
		}
	}
}

// nilWhenUnconsumed: the []byte argument of the call is, on every path that has not consumed input,
// the nil constant (an absent value handed down as NULL).
func nilWhenUnconsumed(call *ssa.CallCommon, f *ssa.Function, unprot map[*ssa.BasicBlock]bool) bool {
	found := false
	for _, a := range call.Args {
		if !isByteSlice(a.Type()) {
			continue
		}
		phi, ok := a.(*ssa.Phi)
		if !ok {
			return false
		}
		for i, e := range phi.Edges {
			if k, ok := e.(*ssa.Const); ok && k.Value == nil {
				continue
			}
			pred := phi.Block().Preds[i]
			if !unprot[pred] || blockConsumesBefore(pred, len(pred.Instrs)) {
				continue
			}
			return false
		}
		found = true
	}
	return found
}

var ignoreNilMemo = map[*ssa.Function]bool{}

// targetsIgnoreNil: called with a nil source, none of the target methods reaches a function of the
// recursive component (abstract interpretation with the source fixed to nil).
func targetsIgnoreNil(p *Program, targets []*ssa.Function, inComp map[*ssa.Function]bool) bool {
	compNames := map[string]bool{}
	for f := range inComp {
		if o, ok := f.Object().(*types.Func); ok {
			compNames[shortFuncName(o)] = true
		}
	}
	for _, t := range targets {
		if v, ok := ignoreNilMemo[t]; ok {
			if !v {
				return false
			}
			continue
		}
		m, ok := t.Object().(*types.Func)
		res := false
		if ok && len(t.Params) >= 2 && isByteSlice(t.Params[1].Type()) {
			in := newInterp(p, &effHooks{})
			in.SentinelErrors = true
			in.NoInline = func(f *types.Func) bool { return isModulePkg(f.Pkg()) && f != m && f.Name() != "createInjector" }
			recv, args := paramVals(m)
			args[0] = Val{K: KNil, T: args[0].T}
			outs := in.RunFunc(m, recv, args, nil)
			res = len(in.Undecided) == 0
			for _, o := range outs {
				for _, s := range o.St.trace {
					if s.Kind == "callatom" && compNames[s.Name] {
						res = false
					}
				}
			}
		}
		ignoreNilMemo[t] = res
		if !res {
			return false
		}
	}
	return len(targets) > 0
}

// c04ReflectKeys: reflect.MapOf panics when the key type is not comparable. For every call in a
// decode-reachable function the possible key types are resolved (through ensureNillable and the
// results of PreferredGoType: package-level reflect.Type values resolved to their static types,
// reflect.SliceOf/MapOf results) and must all be comparable, unless the call is dominated by a
// successful Comparable() test of that key.
func c04ReflectKeys(p *Program, r *Report, reach map[*ssa.Function]bool) {
	var fns []*ssa.Function
	for f := range reach {
		fns = append(fns, f)
	}
	sort.Slice(fns, func(i, j int) bool { return fns[i].String() < fns[j].String() })
	// static type behind a reflect.Type global
	typeOfGlobal := func(g *ssa.Global) types.Type {
		initFn := g.Pkg.Func("init")
		for _, b := range initFn.Blocks {
			for _, ins := range b.Instrs {
				st, ok := ins.(*ssa.Store)
				if !ok || st.Addr != g {
					continue
				}
				var resolve func(v ssa.Value) types.Type
				resolve = func(v ssa.Value) types.Type {
					call, ok := v.(*ssa.Call)
					if !ok {
						return nil
					}
					if f := call.Call.StaticCallee(); f != nil && f.String() == "reflect.TypeOf" {
						if mi, ok := call.Call.Args[0].(*ssa.MakeInterface); ok {
							return mi.X.Type()
						}
						return nil
					}
					if call.Call.IsInvoke() && call.Call.Method.Name() == "Elem" {
						if t := resolve(call.Call.Value); t != nil {
							if pt, ok := t.Underlying().(*types.Pointer); ok {
								return pt.Elem()
							}
						}
					}
					return nil
				}
				return resolve(st.Val)
			}
		}
		return nil
	}
	// possible kinds of a reflect.Type value: list of descriptions of non-comparable candidates,
	// plus a flag when the value could not be resolved
	var nonComparable func(v ssa.Value, seen map[ssa.Value]bool, depth int) (bad []string, unknown bool)
	nonComparable = func(v ssa.Value, seen map[ssa.Value]bool, depth int) ([]string, bool) {
		if seen[v] || depth > 8 {
			return nil, false
		}
		seen[v] = true
		switch x := v.(type) {
		case *ssa.Phi:
			var bad []string
			unk := false
			for _, e := range x.Edges {
				b, u := nonComparable(e, seen, depth+1)
				bad = append(bad, b...)
				unk = unk || u
			}
			return bad, unk
		case *ssa.Extract:
			return nonComparable(x.Tuple, seen, depth+1)
		case *ssa.UnOp:
			if g, ok := x.X.(*ssa.Global); ok {
				t := typeOfGlobal(g)
				if t == nil {
					return nil, true
				}
				if !types.Comparable(t) {
					return []string{types.TypeString(t, relQual) + " (" + g.Name() + ")"}, false
				}
				return nil, false
			}
			return nil, true
		case *ssa.Call:
			f := x.Call.StaticCallee()
			if f == nil {
				return nil, true
			}
			switch f.String() {
			case "reflect.SliceOf":
				return []string{"a slice type (reflect.SliceOf)"}, false
			case "reflect.MapOf":
				return []string{"a map type (reflect.MapOf)"}, false
			case "reflect.PtrTo", "reflect.PointerTo":
				return nil, false
			case "reflect.TypeOf":
				if mi, ok := x.Call.Args[0].(*ssa.MakeInterface); ok {
					if !types.Comparable(mi.X.Type()) {
						return []string{types.TypeString(mi.X.Type(), relQual)}, false
					}
					return nil, false
				}
				return nil, true
			}
			if f.Pkg != nil && isModulePkg(f.Pkg.Pkg) && f.Blocks != nil {
				if f.Name() == "ensureNillable" && len(x.Call.Args) == 1 {
					// returns its argument, or a pointer to it (comparable)
					return nonComparable(x.Call.Args[0], seen, depth+1)
				}
				var bad []string
				unk := false
				for _, b := range f.Blocks {
					if ret, ok := b.Instrs[len(b.Instrs)-1].(*ssa.Return); ok && len(ret.Results) > 0 {
						if k, ok := ret.Results[0].(*ssa.Const); ok && k.Value == nil {
							continue
						}
						bb, u := nonComparable(ret.Results[0], seen, depth+1)
						bad = append(bad, bb...)
						unk = unk || u
					}
				}
				return bad, unk
			}
			return nil, true
		}
		return nil, true
	}
	n := 0
	for _, fn := range fns {
		for _, b := range fn.Blocks {
			for _, ins := range b.Instrs {
				call, ok := ins.(*ssa.Call)
				if !ok {
					continue
				}
				f := call.Call.StaticCallee()
				if f == nil || f.String() != "reflect.MapOf" {
					continue
				}
				n++
				key := fmt.Sprintf("%s MapOf#%d", fnKey(fn), n)
				keyArg := call.Call.Args[0]
				// guarded by Comparable()?
				guarded := false
				for d := b; d.Idom() != nil && !guarded; d = d.Idom() {
					id := d.Idom()
					ifi, ok := id.Instrs[len(id.Instrs)-1].(*ssa.If)
					if !ok {
						continue
					}
					cond := ifi.Cond
					neg := false
					if u, ok := cond.(*ssa.UnOp); ok && u.Op == token.NOT {
						cond, neg = u.X, true
					}
					cc, ok := cond.(*ssa.Call)
					if !ok || !cc.Call.IsInvoke() || cc.Call.Method.Name() != "Comparable" {
						continue
					}
					same := cc.Call.Value == keyArg
					if kc, ok := keyArg.(*ssa.Call); ok && len(kc.Call.Args) == 1 && kc.Call.Args[0] == cc.Call.Value {
						same = true // tested before ensureNillable, which preserves comparability
					}
					if !same {
						continue
					}
					succ := id.Succs[0]
					if neg {
						succ = id.Succs[1]
					}
					if succ == d || succ.Dominates(d) {
						guarded = true
					}
				}
				bad, unk := nonComparable(keyArg, map[ssa.Value]bool{}, 0)
				switch {
				case guarded:
					r.OKf("reflect-key", key, call.Pos(), "dominated by a successful Comparable() test of the key type")
				case len(bad) > 0:
					r.Fail("reflect-key", key, call.Pos(), "reflect.MapOf is called with a key type that can be %s: not comparable, reflect.MapOf panics (a map whose CQL key type prefers that Go type, decoded into an untyped destination)", strings.Join(dedupStrings(bad), ", "))
				case unk:
					r.Fail("reflect-key", key, call.Pos(), "the key type passed to reflect.MapOf could not be resolved and no Comparable() test dominates the call")
				default:
					r.OKf("reflect-key", key, call.Pos(), "every possible key type is comparable")
				}
			}
		}
	}
}

// descendsAny: some argument (or the receiver) of the recursive call is a strict projection of
// any parameter of the caller: the recursion walks a finite structure handed in by the caller
// (a codec tree), whatever position it travels in.
func descendsAny(call *ssa.CallCommon, caller *ssa.Function) bool {
	args := call.Args
	if call.IsInvoke() {
		args = append([]ssa.Value{call.Value}, args...)
	}
	for _, a := range args {
		for _, pp := range caller.Params {
			if strictProjection(a, pp, 0, 0) {
				return true
			}
		}
	}
	return false
}
