package main

// absint: a path-sensitive abstract interpreter over type-checked function bodies (go/ast +
// go/types). It enumerates abstract paths with a finite store; conditions it cannot decide fork
// the path and are remembered as atoms so that a later test of the same atom is answered
// consistently. No solver, no concrete execution of /repo code: values are constants taken from
// the source, symbols for values produced by designated calls, canonical keys of pure
// expressions, or Unknown.

import (
	"fmt"
	"go/ast"
	"go/constant"
	"go/token"
	"go/types"
	"sort"
	"strings"

	"golang.org/x/tools/go/packages"
)

type VK int

const (
	KUnknown VK = iota
	KConst      // C
	KNil
	KNonNil
	KSym   // value produced by a trace symbol (e.g. read from the wire)
	KExpr  // canonical key of a side-effect-free expression rooted at a parameter
	KObj   // abstract struct object (heap id)
	KTuple // multiple results
	KFunc  // function literal / function value
	KSlice // slice/array literal with known elements
	KLin   // linear form over symbolic lengths (used for length calculators)
	KAlloc // make([]T, n): Elems[0] = n
)

type Val struct {
	K     VK
	C     constant.Value
	T     types.Type
	Key   string
	Sym   int
	Obj   int
	Elems []Val
	Fn    *Closure
	Lin   *Lin
	DynT  types.Type     // known dynamic type of an interface value
	OT    types.Type     // original named type of a converted constant (flag words)
	OC    constant.Value // value before the conversion truncated it
	Reint string         // a symbol reinterpreted by a non-value-preserving conversion ("int16"): ordering tests differ
}

type Closure struct {
	Lit  *ast.FuncLit
	Decl *types.Func
	Pkg  *packages.Package
	Recv *Val
}

// Lin is const + Σ coeff·term.
type Lin struct {
	C     int64
	Terms map[string]int64
	B     *Bits // set when the value is tracked in the bit-provenance domain
}

func linConst(c int64) *Lin { return &Lin{C: c, Terms: map[string]int64{}} }
func linTerm(t string) *Lin { return &Lin{Terms: map[string]int64{t: 1}} }
func (l *Lin) add(o *Lin, sign int64) *Lin {
	r := &Lin{C: l.C + sign*o.C, Terms: map[string]int64{}}
	for k, v := range l.Terms {
		r.Terms[k] = v
	}
	for k, v := range o.Terms {
		r.Terms[k] += sign * v
		if r.Terms[k] == 0 {
			delete(r.Terms, k)
		}
	}
	return r
}
func (l *Lin) scale(f int64) *Lin {
	r := &Lin{C: l.C * f, Terms: map[string]int64{}}
	if f != 0 {
		for k, v := range l.Terms {
			r.Terms[k] = v * f
		}
	}
	return r
}
func (l *Lin) String() string {
	var ks []string
	for k := range l.Terms {
		ks = append(ks, k)
	}
	sort.Strings(ks)
	var sb strings.Builder
	fmt.Fprintf(&sb, "%d", l.C)
	for _, k := range ks {
		if l.Terms[k] == 1 {
			fmt.Fprintf(&sb, " + %s", k)
		} else {
			fmt.Fprintf(&sb, " + %d*%s", l.Terms[k], k)
		}
	}
	return sb.String()
}

var unknown = Val{K: KUnknown}

func constVal(c constant.Value, t types.Type) Val { return Val{K: KConst, C: c, T: t} }
func boolVal(b bool) Val                          { return Val{K: KConst, C: constant.MakeBool(b)} }
func intVal(i int64) Val                          { return Val{K: KConst, C: constant.MakeInt64(i)} }

func (v Val) isBool() (bool, bool) {
	if v.K == KConst && v.C.Kind() == constant.Bool {
		return constant.BoolVal(v.C), true
	}
	return false, false
}

func (v Val) String() string {
	switch v.K {
	case KUnknown:
		return "?"
	case KConst:
		if v.C.Kind() == constant.Int {
			if i, ok := constant.Int64Val(v.C); ok && (i > 9 || i < -9) {
				return fmt.Sprintf("%#x", i)
			}
		}
		return v.C.ExactString()
	case KNil:
		return "nil"
	case KNonNil:
		return "nonnil"
	case KSym:
		return fmt.Sprintf("s%d", v.Sym)
	case KExpr:
		return v.Key
	case KObj:
		return fmt.Sprintf("obj%d", v.Obj)
	case KTuple:
		return fmt.Sprintf("tuple%v", v.Elems)
	case KFunc:
		return "func"
	case KSlice:
		return fmt.Sprintf("slice%v", v.Elems)
	case KLin:
		return "lin(" + v.Lin.String() + ")"
	case KAlloc:
		return fmt.Sprintf("alloc(%v)", v.Elems)
	}
	return "?"
}

// Sym is one element of a path's trace.
type Sym struct {
	Kind  string // op | guard | loop | rec | dyn | chk | ret | custom kinds
	Name  string
	Arg   Val
	Args  []Val
	Pos   token.Pos
	Body  []*PathOut // loop: outcomes of one abstract iteration
	Key   string     // loop: key of the ranged collection / bound
	ID    int        // symbol id of the value this op produced (reads)
	T     types.Type // static type of the value a read op produced (nil if unknown)
	Extra string
}

type symCons struct {
	Mask int64 // for bit tests: sym&Mask != 0 is Pol
	Eq   constant.Value
	Pol  bool
	Kind string // "bit" | "eq" | "rel"
	Rel  string
}

// State is one abstract path.
type State struct {
	env     map[types.Object]Val
	heap    map[int]map[string]Val
	objT    map[int]types.Type
	trace   []*Sym
	atoms   map[string]bool           // assumed data atoms
	atomLog []string                  // in order
	refine  map[string]constant.Value // ExprKey -> constant (discriminators)
	among   map[string][]constant.Value
	exclude map[string][]constant.Value
	symEq   map[int]constant.Value
	symCons map[int][]symCons
	symNe   map[int][]constant.Value
	depth   int
	stack   []*types.Func
	symSet  map[int][]constant.Value
	ubound  map[string]uint64 // name -> known upper bound (from path conditions)
	fieldOv map[string]Val    // stores to fields of parameter objects (key -> value)
	held    []string          // rule-specific (locks)
	notes   []string
}

func newState() *State {
	return &State{env: map[types.Object]Val{}, heap: map[int]map[string]Val{}, objT: map[int]types.Type{},
		atoms: map[string]bool{}, refine: map[string]constant.Value{}, among: map[string][]constant.Value{},
		exclude: map[string][]constant.Value{}, symEq: map[int]constant.Value{}, symCons: map[int][]symCons{}, symNe: map[int][]constant.Value{}}
}

func (s *State) clone() *State {
	n := &State{env: make(map[types.Object]Val, len(s.env)), heap: make(map[int]map[string]Val, len(s.heap)), objT: s.objT,
		atoms: make(map[string]bool, len(s.atoms)), refine: make(map[string]constant.Value, len(s.refine)),
		among: make(map[string][]constant.Value, len(s.among)), exclude: make(map[string][]constant.Value, len(s.exclude)),
		symEq: make(map[int]constant.Value, len(s.symEq)), symCons: make(map[int][]symCons, len(s.symCons)), symNe: make(map[int][]constant.Value, len(s.symNe)),
		depth: s.depth}
	for k, v := range s.env {
		n.env[k] = v
	}
	for k, v := range s.heap {
		m := make(map[string]Val, len(v))
		for fk, fv := range v {
			m[fk] = fv
		}
		n.heap[k] = m
	}
	n.trace = append([]*Sym(nil), s.trace...)
	for k, v := range s.atoms {
		n.atoms[k] = v
	}
	n.atomLog = append([]string(nil), s.atomLog...)
	for k, v := range s.refine {
		n.refine[k] = v
	}
	for k, v := range s.among {
		n.among[k] = v
	}
	for k, v := range s.exclude {
		n.exclude[k] = v
	}
	for k, v := range s.symEq {
		n.symEq[k] = v
	}
	for k, v := range s.symCons {
		n.symCons[k] = append([]symCons(nil), v...)
	}
	for k, v := range s.symNe {
		n.symNe[k] = v
	}
	if s.symSet != nil {
		n.symSet = make(map[int][]constant.Value, len(s.symSet))
		for k, v := range s.symSet {
			n.symSet[k] = v
		}
	}
	if s.ubound != nil {
		n.ubound = make(map[string]uint64, len(s.ubound))
		for k, v := range s.ubound {
			n.ubound[k] = v
		}
	}
	if s.fieldOv != nil {
		n.fieldOv = make(map[string]Val, len(s.fieldOv))
		for k, v := range s.fieldOv {
			n.fieldOv[k] = v
		}
	}
	n.stack = append([]*types.Func(nil), s.stack...)
	n.held = append([]string(nil), s.held...)
	n.notes = append([]string(nil), s.notes...)
	return n
}

func (s *State) emit(sym *Sym) { s.trace = append(s.trace, sym) }

// symAmong constrains a symbol to a set of constants.
func (s *State) symAmong(id int, set []constant.Value) {
	if s.symSet == nil {
		s.symSet = map[int][]constant.Value{}
	}
	if prev, ok := s.symSet[id]; ok {
		var out []constant.Value
		for _, x := range prev {
			for _, y := range set {
				if constant.Compare(x, token.EQL, y) {
					out = append(out, x)
				}
			}
		}
		set = out
	}
	s.symSet[id] = set
}

// PathOut is the outcome of one path through a function (or loop body).
type PathOut struct {
	St    *State
	Ret   []Val
	Ctl   string // "return" | "next" (loop body fell through / continue) | "break" | "panic"
	Pos   token.Pos
	IsErr int // for functions with an error result: 1 error, 0 success, -1 unknown
}

// Hooks customise the interpreter per rule family.
type Hooks interface {
	// Call is consulted for every resolved call before inlining. It returns true when it handled
	// the call (it must then have invoked k for every outcome).
	Call(in *Interp, c *CallCtx, k func(*State, []Val)) bool
}

type CallCtx struct {
	Site   *ast.CallExpr
	Callee *types.Func // nil for dynamic func values
	Recv   *Val
	RecvT  types.Type
	Args   []Val
	ArgEs  []ast.Expr
	St     *State
	Fr     *frame
	Iface  bool // dynamic dispatch through an interface
}

type Interp struct {
	P         *Program
	Hooks     Hooks
	MaxPaths  int
	MaxDepth  int
	paths     int
	symN      int
	objN      int
	Undecided []string // constructs the interpreter could not model in a function that matters
	// statistics for coverage rules
	FieldReads  map[*types.Var]bool
	FieldStores map[*types.Var]bool
	NoInline    func(f *types.Func) bool
	symOrigin   map[int]types.Type // static type a wire symbol was read as
	readFills   map[int]*Sym       // byte mode: the read that filled a make()d buffer
	// SentinelErrors: package-level error variables built by errors.New and never reassigned are non-nil
	SentinelErrors bool
	pureGetter     map[*types.Func]int
	purePred       map[*types.Func]bool
	getterMarked   map[*types.Func]bool
	Trace          bool
	Entry          string
	loopForms      []*LoopForm
	BitMode        bool           // track integers used in bit operations as provenance vectors
	symNames       map[int]string // names of symbols (reader inputs) in bit vectors
}

// Form is a byte-size expression: constant + symbolic terms + per-iteration sums of loops.
type Form struct {
	C     int64
	Terms map[string]int64
	Loops []*LoopForm
}

type LoopForm struct {
	Key  string
	Alts []*FormAlt
}

type FormAlt struct {
	St *State
	F  *Form
}

func (in *Interp) formFromLin(l *Lin) *Form {
	f := &Form{C: l.C, Terms: map[string]int64{}}
	for t, c := range l.Terms {
		var id int
		if n, _ := fmt.Sscanf(t, "Σ#%d", &id); n == 1 && id < len(in.loopForms) {
			for i := int64(0); i < c; i++ {
				f.Loops = append(f.Loops, in.loopForms[id])
			}
			continue
		}
		f.Terms[t] = c
	}
	return f
}

func (f *Form) String() string {
	l := &Lin{C: f.C, Terms: f.Terms}
	s := l.String()
	for _, lp := range f.Loops {
		var alts []string
		for _, a := range lp.Alts {
			alts = append(alts, a.F.String())
		}
		sort.Strings(alts)
		alts = dedupStrings(alts)
		s += " + Σ[" + lp.Key + "]{" + strings.Join(alts, " | ") + "}"
	}
	return s
}

func newInterp(p *Program, h Hooks) *Interp {
	return &Interp{P: p, Hooks: h, MaxPaths: 200000, MaxDepth: 14,
		FieldReads: map[*types.Var]bool{}, FieldStores: map[*types.Var]bool{}, pureGetter: map[*types.Func]int{}, purePred: map[*types.Func]bool{}}
}

type frame struct {
	fn      *types.Func
	pkg     *packages.Package
	info    *types.Info
	results []*types.Var
	ret     func(st *State, vals []Val, pos token.Pos)
	parent  *frame
}

type ctl struct {
	brk  func(*State)
	cnt  func(*State)
	fall func(*State)
}

func (in *Interp) newSym() int { in.symN++; return in.symN }

func (in *Interp) undecided(fr *frame, pos token.Pos, what string) {
	name := "?"
	if fr != nil && fr.fn != nil {
		name = fr.fn.FullName()
	}
	in.Undecided = append(in.Undecided, fmt.Sprintf("%s: %s at %s", name, what, in.P.pos(pos)))
}

// RunFunc interprets fn with the given receiver/arguments from a fresh or given state and returns
// every path outcome.
func (in *Interp) RunFunc(fn *types.Func, recv *Val, args []Val, st *State) []*PathOut {
	if st == nil {
		st = newState()
	}
	in.Entry = fn.FullName()
	var outs []*PathOut
	in.inline(fn, recv, args, st, nil, token.NoPos, func(s *State, vals []Val) {
		outs = append(outs, &PathOut{St: s, Ret: vals, Ctl: "return"})
	})
	for _, o := range outs {
		o.IsErr = classifyErr(fn, o.Ret)
	}
	return outs
}

func classifyErr(fn *types.Func, ret []Val) int {
	sig := fn.Type().(*types.Signature)
	n := sig.Results().Len()
	if n == 0 || !isErrorType(sig.Results().At(n-1).Type()) || len(ret) != n {
		return 0
	}
	switch ret[n-1].K {
	case KNil:
		return 0
	case KNonNil:
		return 1
	}
	return -1
}

func isErrorType(t types.Type) bool {
	return types.Identical(t, types.Universe.Lookup("error").Type())
}

func (in *Interp) countPath() {
	in.paths++
	if in.paths > in.MaxPaths {
		fatalf("absint: path bound %d exceeded in %s", in.MaxPaths, in.Entry)
	}
}

// inline interprets the body of a module function.
func (in *Interp) inline(fn *types.Func, recv *Val, args []Val, st *State, caller *frame, pos token.Pos, k func(*State, []Val)) {
	decl, pkg := in.P.Decl(fn)
	if decl == nil || decl.Body == nil {
		k(st, in.unknownResults(fn.Type().(*types.Signature)))
		return
	}
	for _, f := range st.stack {
		if f == fn.Origin() {
			st.emit(&Sym{Kind: "rec", Name: fn.FullName(), Pos: pos, Args: args})
			res := in.assumedResults(fn.Type().(*types.Signature))
			if len(res) > 0 && isIntType(fn.Type().(*types.Signature).Results().At(0).Type()) {
				res[0] = Val{K: KLin, Lin: linTerm("rec:" + recStem(fn.FullName()) + "(" + firstArg(args) + ")")}
			}
			k(st, res)
			return
		}
	}
	if len(st.stack) >= in.MaxDepth {
		fatalf("absint: inlining depth %d exceeded at %s", in.MaxDepth, fn.FullName())
	}
	fr := &frame{fn: fn, pkg: pkg, info: pkg.TypesInfo, parent: caller}
	sig := fn.Type().(*types.Signature)
	st.stack = append(st.stack, fn.Origin())
	// bind receiver and params
	if decl.Recv != nil && len(decl.Recv.List) == 1 && len(decl.Recv.List[0].Names) == 1 {
		if obj := pkg.TypesInfo.Defs[decl.Recv.List[0].Names[0]]; obj != nil && recv != nil {
			st.env[obj] = *recv
		}
	}
	i := 0
	for _, fld := range decl.Type.Params.List {
		if len(fld.Names) == 0 {
			i++
			continue
		}
		for _, nm := range fld.Names {
			obj := pkg.TypesInfo.Defs[nm]
			if obj != nil {
				if sig.Variadic() && i == sig.Params().Len()-1 {
					if len(args) > i && len(args) == sig.Params().Len() && args[i].K != KSlice && false {
						st.env[obj] = args[i]
					} else if len(args) >= i {
						st.env[obj] = Val{K: KSlice, Elems: append([]Val(nil), args[i:]...)}
					}
				} else if i < len(args) {
					st.env[obj] = args[i]
				} else {
					st.env[obj] = unknown
				}
			}
			i++
		}
	}
	if decl.Type.Results != nil {
		for _, fld := range decl.Type.Results.List {
			for _, nm := range fld.Names {
				if obj, ok := pkg.TypesInfo.Defs[nm].(*types.Var); ok && obj != nil {
					fr.results = append(fr.results, obj)
					st.env[obj] = in.zeroValue(obj.Type(), st)
				}
			}
		}
	}
	depth := len(st.stack)
	fr.ret = func(s *State, vals []Val, p token.Pos) {
		s.stack = s.stack[:depth-1]
		k(s, vals)
	}
	in.block(decl.Body.List, st, fr, ctl{}, func(s *State) {
		// fell off the end: only legal for functions without results
		var vals []Val
		for _, r := range fr.results {
			vals = append(vals, s.env[r])
		}
		fr.ret(s, vals, decl.Body.Rbrace)
	})
}

func (in *Interp) unknownResults(sig *types.Signature) []Val {
	var vals []Val
	for i := 0; i < sig.Results().Len(); i++ {
		vals = append(vals, unknown)
	}
	return vals
}

// assumedResults: results of a call whose body is summarised (recursion, atoms): success.
func (in *Interp) assumedResults(sig *types.Signature) []Val {
	var vals []Val
	for i := 0; i < sig.Results().Len(); i++ {
		if isErrorType(sig.Results().At(i).Type()) {
			vals = append(vals, Val{K: KNil})
		} else {
			vals = append(vals, unknown)
		}
	}
	return vals
}

func (in *Interp) zeroValue(t types.Type, st *State) Val {
	switch u := t.Underlying().(type) {
	case *types.Basic:
		switch {
		case u.Info()&types.IsBoolean != 0:
			return Val{K: KConst, C: constant.MakeBool(false), T: t}
		case u.Info()&types.IsInteger != 0:
			return Val{K: KConst, C: constant.MakeInt64(0), T: t}
		case u.Info()&types.IsString != 0:
			return Val{K: KConst, C: constant.MakeString(""), T: t}
		case u.Info()&types.IsFloat != 0:
			return Val{K: KConst, C: constant.MakeFloat64(0), T: t}
		}
	case *types.Pointer, *types.Slice, *types.Map, *types.Interface, *types.Signature, *types.Chan:
		return Val{K: KNil, T: t}
	case *types.Struct:
		return in.newObj(t, st)
	}
	return unknown
}

func (in *Interp) newObj(t types.Type, st *State) Val {
	in.objN++
	st.heap[in.objN] = map[string]Val{}
	if st.objT == nil {
		st.objT = map[int]types.Type{}
	}
	return Val{K: KObj, Obj: in.objN, T: t}
}

// ---------------------------------------------------------------------------------------
// statements

func (in *Interp) block(list []ast.Stmt, st *State, fr *frame, c ctl, next func(*State)) {
	if len(list) == 0 {
		next(st)
		return
	}
	in.stmt(list[0], st, fr, c, func(s *State) {
		in.block(list[1:], s, fr, c, next)
	})
}

func (in *Interp) stmt(s ast.Stmt, st *State, fr *frame, c ctl, next func(*State)) {
	switch s := s.(type) {
	case nil:
		next(st)
	case *ast.BlockStmt:
		in.block(s.List, st, fr, c, next)
	case *ast.ExprStmt:
		in.expr(s.X, st, fr, func(st *State, _ Val) { next(st) })
	case *ast.EmptyStmt:
		next(st)
	case *ast.DeclStmt:
		in.declStmt(s, st, fr, next)
	case *ast.AssignStmt:
		in.assign(s, st, fr, next)
	case *ast.IncDecStmt:
		in.expr(s.X, st, fr, func(st *State, v Val) {
			nv := unknown
			if v.K == KConst && v.C.Kind() == constant.Int {
				d := int64(1)
				if s.Tok == token.DEC {
					d = -1
				}
				nv = Val{K: KConst, C: constant.BinaryOp(v.C, token.ADD, constant.MakeInt64(d)), T: v.T}
			}
			in.store(s.X, nv, st, fr, next)
		})
	case *ast.ReturnStmt:
		in.returnStmt(s, st, fr)
	case *ast.IfStmt:
		in.stmt(s.Init, st, fr, c, func(st *State) {
			in.cond(s.Cond, st, fr, func(st *State, b bool) {
				if b {
					in.block(s.Body.List, st, fr, c, next)
				} else if s.Else != nil {
					in.stmt(s.Else, st, fr, c, next)
				} else {
					next(st)
				}
			})
		})
	case *ast.SwitchStmt:
		in.switchStmt(s, st, fr, c, next)
	case *ast.TypeSwitchStmt:
		in.typeSwitch(s, st, fr, c, next)
	case *ast.ForStmt:
		in.forStmt(s, st, fr, c, next)
	case *ast.RangeStmt:
		in.rangeStmt(s, st, fr, c, next)
	case *ast.BranchStmt:
		switch s.Tok {
		case token.BREAK:
			if s.Label != nil || c.brk == nil {
				in.undecided(fr, s.Pos(), "labelled or stray break")
				return
			}
			c.brk(st)
		case token.CONTINUE:
			if s.Label != nil || c.cnt == nil {
				in.undecided(fr, s.Pos(), "labelled or stray continue")
				return
			}
			c.cnt(st)
		case token.FALLTHROUGH:
			if c.fall == nil {
				in.undecided(fr, s.Pos(), "stray fallthrough")
				return
			}
			c.fall(st)
		default:
			in.undecided(fr, s.Pos(), "goto")
		}
	case *ast.DeferStmt:
		// deferred calls run at function exit; rule families that care handle them in hooks
		st.emit(&Sym{Kind: "defer", Pos: s.Pos(), Extra: exprString(s.Call)})
		if h, ok := in.Hooks.(interface {
			Defer(in *Interp, s *ast.DeferStmt, st *State, fr *frame)
		}); ok {
			h.Defer(in, s, st, fr)
		}
		next(st)
	case *ast.GoStmt:
		st.emit(&Sym{Kind: "go", Pos: s.Pos(), Extra: exprString(s.Call)})
		next(st)
	case *ast.SendStmt:
		in.expr(s.Value, st, fr, func(st *State, v Val) {
			st.emit(&Sym{Kind: "send", Pos: s.Pos(), Extra: exprString(s.Chan), Arg: v})
			next(st)
		})
	case *ast.SelectStmt:
		in.selectStmt(s, st, fr, c, next)
	case *ast.LabeledStmt:
		in.undecided(fr, s.Pos(), "label")
		in.stmt(s.Stmt, st, fr, c, next)
	default:
		in.undecided(fr, s.Pos(), fmt.Sprintf("statement %T", s))
		next(st)
	}
}

func (in *Interp) selectStmt(s *ast.SelectStmt, st *State, fr *frame, c ctl, next func(*State)) {
	hasDefault := false
	for _, cl := range s.Body.List {
		if cl.(*ast.CommClause).Comm == nil {
			hasDefault = true
		}
	}
	var all []string
	for _, cl := range s.Body.List {
		switch comm := cl.(*ast.CommClause).Comm.(type) {
		case nil:
			all = append(all, "default")
		case *ast.SendStmt:
			all = append(all, "send "+exprString(comm.Chan))
		case *ast.ExprStmt:
			all = append(all, "recv "+exprString(comm.X))
		case *ast.AssignStmt:
			if len(comm.Rhs) == 1 {
				all = append(all, "recv "+exprString(comm.Rhs[0]))
			}
		}
	}
	for _, cl := range s.Body.List {
		cc := cl.(*ast.CommClause)
		ns := st.clone()
		in.countPath()
		sym := &Sym{Kind: "select", Pos: cc.Pos()}
		if hasDefault {
			sym.Extra = " nonblocking"
		}
		sym.Extra += " of[" + strings.Join(all, "|") + "]"
		switch comm := cc.Comm.(type) {
		case nil:
			sym.Name = "default"
		case *ast.SendStmt:
			sym.Name = "send"
			sym.Key = exprString(comm.Chan)
		case *ast.ExprStmt:
			sym.Name = "recv"
			sym.Key = exprString(comm.X)
		case *ast.AssignStmt:
			sym.Name = "recv"
			if len(comm.Rhs) == 1 {
				sym.Key = exprString(comm.Rhs[0])
			}
			for _, l := range comm.Lhs {
				if id, ok := l.(*ast.Ident); ok && id.Name != "_" {
					if obj := fr.info.ObjectOf(id); obj != nil {
						ns.env[obj] = unknown
					}
				}
			}
		}
		ns.emit(sym)
		brk := c
		brk.brk = next
		in.block(cc.Body, ns, fr, brk, next)
	}
}

func (in *Interp) declStmt(s *ast.DeclStmt, st *State, fr *frame, next func(*State)) {
	gd, ok := s.Decl.(*ast.GenDecl)
	if !ok || gd.Tok != token.VAR {
		next(st)
		return
	}
	var specs []*ast.ValueSpec
	for _, sp := range gd.Specs {
		specs = append(specs, sp.(*ast.ValueSpec))
	}
	var do func(i int, st *State)
	do = func(i int, st *State) {
		if i == len(specs) {
			next(st)
			return
		}
		vs := specs[i]
		if len(vs.Values) == 0 {
			for _, nm := range vs.Names {
				if obj := fr.info.Defs[nm]; obj != nil {
					st.env[obj] = in.zeroValue(obj.Type(), st)
				}
			}
			do(i+1, st)
			return
		}
		if len(vs.Values) == 1 && len(vs.Names) > 1 {
			in.expr(vs.Values[0], st, fr, func(st *State, v Val) {
				for j, nm := range vs.Names {
					if obj := fr.info.Defs[nm]; obj != nil {
						if v.K == KTuple && j < len(v.Elems) {
							st.env[obj] = v.Elems[j]
						} else {
							st.env[obj] = unknown
						}
					}
				}
				do(i+1, st)
			})
			return
		}
		in.exprs(vs.Values, st, fr, func(st *State, vals []Val) {
			for j, nm := range vs.Names {
				if obj := fr.info.Defs[nm]; obj != nil && j < len(vals) {
					st.env[obj] = vals[j]
				}
			}
			do(i+1, st)
		})
	}
	do(0, st)
}

func (in *Interp) exprs(es []ast.Expr, st *State, fr *frame, k func(*State, []Val)) {
	var do func(i int, st *State, acc []Val)
	do = func(i int, st *State, acc []Val) {
		if i == len(es) {
			k(st, acc)
			return
		}
		in.expr(es[i], st, fr, func(st *State, v Val) {
			do(i+1, st, append(append([]Val(nil), acc...), v))
		})
	}
	do(0, st, nil)
}

func (in *Interp) assign(s *ast.AssignStmt, st *State, fr *frame, next func(*State)) {
	if s.Tok != token.ASSIGN && s.Tok != token.DEFINE {
		// op-assign
		var op token.Token
		switch s.Tok {
		case token.ADD_ASSIGN:
			op = token.ADD
		case token.SUB_ASSIGN:
			op = token.SUB
		case token.MUL_ASSIGN:
			op = token.MUL
		case token.OR_ASSIGN:
			op = token.OR
		case token.AND_ASSIGN:
			op = token.AND
		case token.AND_NOT_ASSIGN:
			op = token.AND_NOT
		case token.SHL_ASSIGN:
			op = token.SHL
		case token.SHR_ASSIGN:
			op = token.SHR
		case token.XOR_ASSIGN:
			op = token.XOR
		case token.QUO_ASSIGN:
			op = token.QUO
		case token.REM_ASSIGN:
			op = token.REM
		default:
			in.store(s.Lhs[0], unknown, st, fr, next)
			return
		}
		in.expr(s.Lhs[0], st, fr, func(st *State, l Val) {
			in.expr(s.Rhs[0], st, fr, func(st *State, r Val) {
				in.store(s.Lhs[0], in.binop(op, l, r, fr.info.TypeOf(s.Lhs[0]), st), st, fr, next)
			})
		})
		return
	}
	if len(s.Rhs) == 1 && len(s.Lhs) > 1 {
		in.expr(s.Rhs[0], st, fr, func(st *State, v Val) {
			in.storeMulti(s.Lhs, v, st, fr, next)
		})
		return
	}
	in.exprs(s.Rhs, st, fr, func(st *State, vals []Val) {
		var do func(i int, st *State)
		do = func(i int, st *State) {
			if i == len(s.Lhs) {
				next(st)
				return
			}
			in.store(s.Lhs[i], vals[i], st, fr, func(st *State) { do(i+1, st) })
		}
		do(0, st)
	})
}

func (in *Interp) storeMulti(lhs []ast.Expr, v Val, st *State, fr *frame, next func(*State)) {
	var do func(i int, st *State)
	do = func(i int, st *State) {
		if i == len(lhs) {
			next(st)
			return
		}
		e := unknown
		if v.K == KTuple && i < len(v.Elems) {
			e = v.Elems[i]
		}
		in.store(lhs[i], e, st, fr, func(st *State) { do(i+1, st) })
	}
	do(0, st)
}

// store assigns v to the location denoted by lhs.
func (in *Interp) store(lhs ast.Expr, v Val, st *State, fr *frame, next func(*State)) {
	switch l := lhs.(type) {
	case *ast.Ident:
		if l.Name == "_" {
			next(st)
			return
		}
		if obj := fr.info.ObjectOf(l); obj != nil {
			if _, isVar := obj.(*types.Var); isVar && obj.Parent() != nil && obj.Parent() == obj.Pkg().Scope() {
				st.emit(&Sym{Kind: "gstore", Name: obj.Name(), Pos: l.Pos(), Arg: v})
			}
			st.env[obj] = v
		}
		next(st)
	case *ast.ParenExpr:
		in.store(l.X, v, st, fr, next)
	case *ast.SelectorExpr:
		sel := fr.info.Selections[l]
		if sel == nil || sel.Kind() != types.FieldVal {
			next(st)
			return
		}
		fv := sel.Obj().(*types.Var)
		in.FieldStores[fv] = true
		in.expr(l.X, st, fr, func(st *State, base Val) {
			if h, ok := in.Hooks.(interface {
				FieldStore(in *Interp, l *ast.SelectorExpr, fv *types.Var, base, v Val, st *State, fr *frame)
			}); ok {
				h.FieldStore(in, l, fv, base, v, st, fr)
			}
			if base.K == KObj {
				st.heap[base.Obj][fv.Name()] = v
			}
			if base.K == KExpr && in.BitMode {
				if st.fieldOv == nil {
					st.fieldOv = map[string]Val{}
				}
				st.fieldOv[base.Key+"."+fv.Name()] = v
			}
			next(st)
		})
	case *ast.StarExpr:
		in.expr(l.X, st, fr, func(st *State, base Val) {
			if h, ok := in.Hooks.(interface {
				DerefStore(in *Interp, l *ast.StarExpr, base, v Val, st *State, fr *frame)
			}); ok {
				h.DerefStore(in, l, base, v, st, fr)
			}
			next(st)
		})
	case *ast.IndexExpr:
		in.expr(l.X, st, fr, func(st *State, base Val) {
			in.expr(l.Index, st, fr, func(st *State, idx Val) {
				if h, ok := in.Hooks.(interface {
					IndexStore(in *Interp, l *ast.IndexExpr, base, idx, v Val, st *State, fr *frame)
				}); ok {
					h.IndexStore(in, l, base, idx, v, st, fr)
				}
				next(st)
			})
		})
	default:
		next(st)
	}
}

func (in *Interp) returnStmt(s *ast.ReturnStmt, st *State, fr *frame) {
	if len(s.Results) == 0 {
		var vals []Val
		for _, r := range fr.results {
			vals = append(vals, st.env[r])
		}
		fr.ret(st, vals, s.Pos())
		return
	}
	if len(s.Results) == 1 {
		in.expr(s.Results[0], st, fr, func(st *State, v Val) {
			if v.K == KTuple {
				fr.ret(st, v.Elems, s.Pos())
			} else {
				fr.ret(st, []Val{v}, s.Pos())
			}
		})
		return
	}
	in.exprs(s.Results, st, fr, func(st *State, vals []Val) { fr.ret(st, vals, s.Pos()) })
}

func (in *Interp) switchStmt(s *ast.SwitchStmt, st *State, fr *frame, c ctl, next func(*State)) {
	in.stmt(s.Init, st, fr, c, func(st *State) {
		run := func(st *State, tag *Val) {
			clauses := s.Body.List
			var tryClause func(i int, st *State)
			execBody := func(i int, st *State) {
				var exec func(i int, st *State)
				exec = func(i int, st *State) {
					cc := clauses[i].(*ast.CaseClause)
					bc := c
					bc.brk = next
					bc.fall = nil
					if i+1 < len(clauses) {
						bc.fall = func(st *State) { exec(i+1, st) }
					}
					in.block(cc.Body, st, fr, bc, next)
				}
				exec(i, st)
			}
			defaultIdx := -1
			for i, cl := range clauses {
				if cl.(*ast.CaseClause).List == nil {
					defaultIdx = i
				}
			}
			tryClause = func(i int, st *State) {
				if i == len(clauses) {
					if defaultIdx >= 0 {
						execBody(defaultIdx, st)
					} else {
						next(st)
					}
					return
				}
				cc := clauses[i].(*ast.CaseClause)
				if cc.List == nil {
					tryClause(i+1, st)
					return
				}
				var tryExpr func(j int, st *State)
				tryExpr = func(j int, st *State) {
					if j == len(cc.List) {
						tryClause(i+1, st)
						return
					}
					if tag == nil {
						in.cond(cc.List[j], st, fr, func(st *State, b bool) {
							if b {
								execBody(i, st)
							} else {
								tryExpr(j+1, st)
							}
						})
						return
					}
					in.expr(cc.List[j], st, fr, func(st *State, cv Val) {
						in.decide(in.compare(token.EQL, *tag, cv, st), st, func(st *State, b bool) {
							if b {
								execBody(i, st)
							} else {
								tryExpr(j+1, st)
							}
						})
					})
				}
				tryExpr(0, st)
			}
			tryClause(0, st)
		}
		if s.Tag == nil {
			run(st, nil)
			return
		}
		in.expr(s.Tag, st, fr, func(st *State, tag Val) {
			if h, ok := in.Hooks.(interface {
				SwitchTag(in *Interp, s *ast.SwitchStmt, tag Val, st *State, fr *frame)
			}); ok {
				h.SwitchTag(in, s, tag, st, fr)
			}
			run(st, &tag)
		})
	})
}

func (in *Interp) typeSwitch(s *ast.TypeSwitchStmt, st *State, fr *frame, c ctl, next func(*State)) {
	in.stmt(s.Init, st, fr, c, func(st *State) {
		var x ast.Expr
		var bind *ast.Ident
		switch a := s.Assign.(type) {
		case *ast.ExprStmt:
			x = a.X.(*ast.TypeAssertExpr).X
		case *ast.AssignStmt:
			x = a.Rhs[0].(*ast.TypeAssertExpr).X
			bind = a.Lhs[0].(*ast.Ident)
		}
		in.expr(x, st, fr, func(st *State, v Val) {
			if h, ok := in.Hooks.(interface {
				TypeSwitch(in *Interp, s *ast.TypeSwitchStmt, v Val, st *State, fr *frame, c ctl, next func(*State)) bool
			}); ok {
				if h.TypeSwitch(in, s, v, st, fr, c, next) {
					return
				}
			}
			if v.DynT != nil {
				// the dynamic type is known: take the first matching clause
				var chosen *ast.CaseClause
				var deflt *ast.CaseClause
				for _, cl := range s.Body.List {
					cc := cl.(*ast.CaseClause)
					if cc.List == nil {
						deflt = cc
						continue
					}
					for _, te := range cc.List {
						t := fr.info.TypeOf(te)
						if t == nil {
							continue
						}
						if types.Identical(t, v.DynT) {
							chosen = cc
						} else if it, ok := t.Underlying().(*types.Interface); ok && types.Implements(v.DynT, it) {
							chosen = cc
						}
						if chosen != nil {
							break
						}
					}
					if chosen != nil {
						break
					}
				}
				if chosen == nil {
					chosen = deflt
				}
				if chosen == nil {
					next(st)
					return
				}
				if bind != nil {
					if obj := fr.info.Implicits[chosen]; obj != nil {
						st.env[obj] = v
					}
				}
				bc := c
				bc.brk = next
				in.block(chosen.Body, st, fr, bc, next)
				return
			}
			for _, cl := range s.Body.List {
				cc := cl.(*ast.CaseClause)
				ns := st.clone()
				in.countPath()
				bv := v
				desc := "default"
				if len(cc.List) == 1 {
					t := fr.info.TypeOf(cc.List[0])
					if id, ok := cc.List[0].(*ast.Ident); ok && id.Name == "nil" {
						bv = Val{K: KNil}
						desc = "nil"
					} else if t != nil {
						bv = in.assertTo(v, t)
						desc = types.TypeString(t, relQual)
					}
				} else if len(cc.List) > 1 {
					desc = "multi"
				}
				if v.K == KExpr {
					ns.atomLog = append(ns.atomLog, "type("+v.Key+")="+desc)
				}
				if bind != nil {
					if obj := fr.info.Implicits[cc]; obj != nil {
						ns.env[obj] = bv
					}
				}
				bc := c
				bc.brk = next
				in.block(cc.Body, ns, fr, bc, next)
			}
		})
	})
}

func relQual(p *types.Package) string { return shortPkg(p) }

// assertTo computes the key of x.(T).
func (in *Interp) assertTo(v Val, t types.Type) Val {
	if v.K != KExpr {
		if v.K == KObj || v.K == KNonNil || v.K == KConst {
			return v
		}
		return Val{K: KUnknown, T: t}
	}
	if _, isIface := t.Underlying().(*types.Interface); isIface {
		return Val{K: KExpr, Key: v.Key, T: t}
	}
	base := v.Key
	if i := strings.LastIndex(base, ".("); i >= 0 && strings.HasSuffix(base, ")") && !strings.Contains(base[i:], ").") {
		base = base[:i]
	}
	return Val{K: KExpr, Key: base + ".(" + types.TypeString(t, relQual) + ")", T: t}
}

func (in *Interp) forStmt(s *ast.ForStmt, st *State, fr *frame, c ctl, next func(*State)) {
	in.stmt(s.Init, st, fr, c, func(st *State) {
		// try to unroll loops with a decidable condition
		in.tryUnrollFor(s, st, fr, c, next, 0)
	})
}

const maxUnroll = 64

func (in *Interp) tryUnrollFor(s *ast.ForStmt, st *State, fr *frame, c ctl, next func(*State), iter int) {
	if s.Cond != nil && iter <= maxUnroll && in.constCond(s.Cond, st, fr) {
		if v, ok := in.pureEval(s.Cond, st, fr); ok {
			if b, isb := v.isBool(); isb {
				if !b {
					next(st)
					return
				}
				bc := ctl{brk: next, cnt: func(st *State) {
					in.stmt(s.Post, st, fr, c, func(st *State) { in.tryUnrollFor(s, st, fr, c, next, iter+1) })
				}}
				in.block(s.Body.List, st, fr, bc, bc.cnt)
				return
			}
		}
	}
	if iter > 0 && iter <= maxUnroll && s.Cond != nil {
		// the condition was decidable before and no longer is: treat the rest abstractly
	}
	in.summarizeLoop(s, s.Body, s.Post, nil, Val{}, in.loopKey(s, st, fr), st, fr, c, next)
}

// constCond: the loop condition compares constants only (so that unrolling is exact, never a
// partial unrolling driven by an assumed atom).
func (in *Interp) constCond(e ast.Expr, st *State, fr *frame) bool {
	be, ok := ast.Unparen(e).(*ast.BinaryExpr)
	if !ok {
		return false
	}
	for _, side := range []ast.Expr{be.X, be.Y} {
		v, ok := in.pureEval(side, st, fr)
		if !ok || v.K != KConst {
			return false
		}
	}
	return true
}

// loopKey derives a canonical key for the iteration count of a for loop (i < bound).
func (in *Interp) loopKey(s *ast.ForStmt, st *State, fr *frame) string {
	if be, ok := s.Cond.(*ast.BinaryExpr); ok && (be.Op == token.LSS || be.Op == token.LEQ) {
		if v, ok := in.pureEval(be.Y, st, fr); ok {
			return v.String()
		}
	}
	return "?"
}

// pureEval evaluates an expression without forking; ok=false if it would need to fork or call.
func (in *Interp) pureEval(e ast.Expr, st *State, fr *frame) (Val, bool) {
	count := 0
	var out Val
	saved := in.paths
	probe := st.clone()
	n0 := len(probe.trace)
	forked := false
	func() {
		defer func() {
			if r := recover(); r != nil {
				if _, ok := r.(pureAbort); ok {
					forked = true
					return
				}
				panic(r)
			}
		}()
		probe.notes = append(probe.notes, "pure")
		in.expr(e, probe, fr, func(s *State, v Val) {
			count++
			out = v
			if len(s.trace) != n0 {
				forked = true
			}
		})
	}()
	in.paths = saved
	if forked || count != 1 {
		return unknown, false
	}
	return out, true
}

type pureAbort struct{}

func (in *Interp) rangeStmt(s *ast.RangeStmt, st *State, fr *frame, c ctl, next func(*State)) {
	in.expr(s.X, st, fr, func(st *State, coll Val) {
		if coll.K == KSlice && len(coll.Elems) <= maxUnroll {
			var iter func(i int, st *State)
			iter = func(i int, st *State) {
				if i == len(coll.Elems) {
					next(st)
					return
				}
				if s.Key != nil {
					in.bindRangeVar(s.Key, intVal(int64(i)), st, fr, s.Tok)
				}
				if s.Value != nil {
					in.bindRangeVar(s.Value, coll.Elems[i], st, fr, s.Tok)
				}
				bc := ctl{brk: next, cnt: func(st *State) { iter(i+1, st) }}
				in.block(s.Body.List, st, fr, bc, bc.cnt)
			}
			iter(0, st)
			return
		}
		if coll.K == KConst && coll.C.Kind() == constant.Int {
			// range over int
			in.summarizeLoop(s, s.Body, nil, s, coll, coll.String(), st, fr, c, next)
			return
		}
		key := "?"
		switch coll.K {
		case KExpr:
			key = coll.Key
		case KNil:
			// ranging over nil: zero iterations
			next(st)
			return
		}
		in.summarizeLoop(s, s.Body, nil, s, coll, key, st, fr, c, next)
	})
}

func (in *Interp) bindRangeVar(e ast.Expr, v Val, st *State, fr *frame, tok token.Token) {
	if id, ok := e.(*ast.Ident); ok && id.Name != "_" {
		if obj := fr.info.ObjectOf(id); obj != nil {
			st.env[obj] = v
		}
	}
}

// assignedVars collects the local variables assigned in a statement list (syntactically).
func assignedVars(n ast.Node, info *types.Info) map[types.Object]bool {
	out := map[types.Object]bool{}
	ast.Inspect(n, func(n ast.Node) bool {
		switch a := n.(type) {
		case *ast.AssignStmt:
			for _, l := range a.Lhs {
				if id, ok := l.(*ast.Ident); ok {
					if obj := info.ObjectOf(id); obj != nil {
						out[obj] = true
					}
				}
			}
		case *ast.IncDecStmt:
			if id, ok := a.X.(*ast.Ident); ok {
				if obj := info.ObjectOf(id); obj != nil {
					out[obj] = true
				}
			}
		case *ast.RangeStmt:
			for _, l := range []ast.Expr{a.Key, a.Value} {
				if id, ok := l.(*ast.Ident); ok {
					if obj := info.ObjectOf(id); obj != nil {
						out[obj] = true
					}
				}
			}
		case *ast.UnaryExpr:
			if a.Op == token.AND {
				if id, ok := a.X.(*ast.Ident); ok {
					if obj := info.ObjectOf(id); obj != nil {
						out[obj] = true
					}
				}
			}
		case *ast.FuncLit:
			return true
		}
		return true
	})
	return out
}

// summarizeLoop interprets one abstract iteration of a loop body from a havocked state and
// continues after the loop with a Loop symbol holding the body outcomes.
func (in *Interp) summarizeLoop(node ast.Node, body *ast.BlockStmt, post ast.Stmt, rs *ast.RangeStmt, coll Val, key string, st *State, fr *frame, c ctl, next func(*State)) {
	assigned := assignedVars(body, fr.info)
	if post != nil {
		for o := range assignedVars(post, fr.info) {
			assigned[o] = true
		}
	}
	pre := st.clone()
	for o := range assigned {
		if _, ok := pre.env[o]; ok {
			pre.env[o] = unknown
		}
	}
	// numeric accumulators (length += ...): track the per-iteration delta symbolically
	accVars := map[types.Object]string{}
	for o := range assigned {
		if v, ok := st.env[o]; ok {
			if _, isLin := asLin(in.resolve(v, st)); isLin {
				accVars[o] = fmt.Sprintf("@acc:%p", o)
			}
		}
	}
	bodySt := pre.clone()
	bodySt.trace = nil
	for o, marker := range accVars {
		bodySt.env[o] = Val{K: KLin, Lin: linTerm(marker)}
	}
	if rs != nil {
		if rs.Key != nil {
			kv := unknown
			if coll.K == KExpr {
				if _, isMap := typeOf(fr, rs.X).Underlying().(*types.Map); isMap {
					kv = Val{K: KExpr, Key: coll.Key + "[k]"}
				}
			}
			in.bindRangeVar(rs.Key, kv, bodySt, fr, rs.Tok)
		}
		if rs.Value != nil {
			ev := unknown
			if coll.K == KExpr {
				ev = Val{K: KExpr, Key: coll.Key + "[]"}
			}
			in.bindRangeVar(rs.Value, ev, bodySt, fr, rs.Tok)
		}
	}
	loop := &Sym{Kind: "loop", Pos: node.Pos(), Key: key}
	heapBefore := snapshotHeap(pre)
	var exits []*State // states leaving the loop through break
	saveRet := fr.ret
	_ = saveRet
	bc := ctl{
		brk: func(s *State) {
			loop.Body = append(loop.Body, &PathOut{St: s, Ctl: "break"})
			exits = append(exits, s)
		},
		cnt: func(s *State) {
			loop.Body = append(loop.Body, &PathOut{St: s, Ctl: "next"})
		},
	}
	// returns from inside the body: the path leaves the function with trace = pre.trace + loop-partial + body trace
	origRet := fr.ret
	fr.ret = func(s *State, vals []Val, p token.Pos) {
		full := s.clone()
		partial := &Sym{Kind: "loop", Pos: node.Pos(), Key: key, Extra: "exit-by-return"}
		partial.Body = []*PathOut{{St: s, Ctl: "return", Ret: vals}}
		full.trace = append(append(append([]*Sym(nil), pre.trace...), partial), s.trace...)
		fr.ret = origRet
		origRet(full, vals, p)
		fr.ret = nil // restored below
	}
	restore := func() { fr.ret = origRet }
	func() {
		defer restore()
		// wrap: every invocation of fr.ret inside the body must see the wrapper
		wrapper := fr.ret
		var run func()
		run = func() {
			fr.ret = wrapper
			in.block(body.List, bodySt, fr, bc, func(s *State) {
				fr.ret = wrapper
				bc.cnt(s)
			})
		}
		// the wrapper unsets fr.ret while the continuation runs; re-arm it on each use
		wrapper = func(s *State, vals []Val, p token.Pos) {
			full := s.clone()
			partial := &Sym{Kind: "loop", Pos: node.Pos(), Key: key, Extra: "exit-by-return"}
			partial.Body = []*PathOut{{St: s, Ctl: "return", Ret: vals}}
			full.trace = append(append(append([]*Sym(nil), pre.trace...), partial), s.trace...)
			fr.ret = origRet
			origRet(full, vals, p)
			fr.ret = wrapper
		}
		run()
	}()
	// continue after the loop: havoc heap fields changed by the body
	after := pre
	changed := map[[2]interface{}]bool{}
	for _, b := range loop.Body {
		for id, flds := range b.St.heap {
			for f, v := range flds {
				if bv, ok := heapBefore[id][f]; !ok || !sameVal(bv, v) {
					changed[[2]interface{}{id, f}] = true
				}
			}
		}
	}
	for k := range changed {
		id := k[0].(int)
		if after.heap[id] == nil {
			after.heap[id] = map[string]Val{}
		}
		after.heap[id][k[1].(string)] = unknown
	}
	// accumulators: pre + Σ[key]{delta}
	for o, marker := range accVars {
		lf := &LoopForm{Key: key}
		okAll := true
		nonZero := false
		for _, b := range loop.Body {
			if b.Ctl != "next" {
				continue
			}
			v, isLin := asLin(in.resolve(b.St.env[o], b.St))
			if !isLin || v.Terms[marker] != 1 {
				okAll = false
				break
			}
			d := v.add(linTerm(marker), -1)
			if d.C != 0 || len(d.Terms) > 0 {
				nonZero = true
			}
			lf.Alts = append(lf.Alts, &FormAlt{St: b.St, F: in.formFromLin(d)})
		}
		preLin, _ := asLin(in.resolve(st.env[o], st))
		if okAll && preLin != nil {
			if !nonZero {
				after.env[o] = Val{K: KLin, Lin: preLin}
			} else {
				in.loopForms = append(in.loopForms, lf)
				after.env[o] = Val{K: KLin, Lin: preLin.add(linTerm(fmt.Sprintf("Σ#%d", len(in.loopForms)-1)), 1)}
			}
		} else {
			after.env[o] = unknown
		}
	}
	after.emit(loop)
	next(after)
}

// pathCondKey renders the atoms a loop-body path assumed beyond the loop entry (so that
// alternatives inside a loop are distinguishable).
func pathCondKey(st *State, from int) string {
	if from >= len(st.atomLog) {
		return ""
	}
	return "(" + strings.Join(st.atomLog[from:], ",") + ")"
}

func dedupStrings(a []string) []string {
	var out []string
	for i, s := range a {
		if i == 0 || s != a[i-1] {
			out = append(out, s)
		}
	}
	return out
}

func snapshotHeap(st *State) map[int]map[string]Val {
	out := map[int]map[string]Val{}
	for k, v := range st.heap {
		m := map[string]Val{}
		for fk, fv := range v {
			m[fk] = fv
		}
		out[k] = m
	}
	return out
}

func sameVal(a, b Val) bool {
	if a.K != b.K {
		return false
	}
	switch a.K {
	case KConst:
		return constant.Compare(a.C, token.EQL, b.C)
	case KSym:
		return a.Sym == b.Sym
	case KExpr:
		return a.Key == b.Key
	case KObj:
		return a.Obj == b.Obj
	case KNil, KNonNil:
		return true
	}
	return false
}

func typeOf(fr *frame, e ast.Expr) types.Type {
	t := fr.info.TypeOf(e)
	if t == nil {
		return types.Typ[types.Invalid]
	}
	return t
}

// ---------------------------------------------------------------------------------------
// conditions

// Tri is a three-valued truth value with an optional atom describing the undecided test.
type Tri struct {
	Known bool
	Val   bool
	Atom  string // canonical atom: truth of the atom == truth of the condition
	Neg   bool   // condition == !atom
	// effects applied when the condition is assumed true / false
	OnTrue, OnFalse func(*State)
}

func (in *Interp) cond(e ast.Expr, st *State, fr *frame, k func(*State, bool)) {
	e = ast.Unparen(e)
	switch x := e.(type) {
	case *ast.UnaryExpr:
		if x.Op == token.NOT {
			in.cond(x.X, st, fr, func(st *State, b bool) { k(st, !b) })
			return
		}
	case *ast.BinaryExpr:
		switch x.Op {
		case token.LAND:
			in.cond(x.X, st, fr, func(st *State, b bool) {
				if !b {
					k(st, false)
				} else {
					in.cond(x.Y, st, fr, k)
				}
			})
			return
		case token.LOR:
			in.cond(x.X, st, fr, func(st *State, b bool) {
				if b {
					k(st, true)
				} else {
					in.cond(x.Y, st, fr, k)
				}
			})
			return
		case token.EQL, token.NEQ, token.LSS, token.LEQ, token.GTR, token.GEQ:
			in.expr(x.X, st, fr, func(st *State, l Val) {
				in.expr(x.Y, st, fr, func(st *State, r Val) {
					in.decide(in.compare(x.Op, l, r, st), st, k)
				})
			})
			return
		}
	}
	in.expr(e, st, fr, func(st *State, v Val) {
		in.decide(in.truth(v, st), st, k)
	})
}

func (in *Interp) truth(v Val, st *State) Tri {
	if b, ok := v.isBool(); ok {
		return Tri{Known: true, Val: b}
	}
	switch v.K {
	case KExpr:
		return Tri{Atom: v.Key}
	case KSym:
		return Tri{Atom: fmt.Sprintf("s%d", v.Sym)}
	}
	return Tri{}
}

// decide continues with the known truth value, or forks on both.
func (in *Interp) decide(t Tri, st *State, k func(*State, bool)) {
	if t.Known {
		k(st, t.Val)
		return
	}
	if t.Atom != "" {
		if pol, ok := st.atoms[t.Atom]; ok {
			k(st, pol != t.Neg)
			return
		}
	}
	for _, n := range st.notes {
		if n == "pure" {
			panic(pureAbort{})
		}
	}
	in.countPath()
	s2 := st.clone()
	if t.Atom != "" {
		// condition true  => atom == !Neg
		st.atoms[t.Atom] = !t.Neg
		st.atomLog = append(st.atomLog, polStr(!t.Neg)+t.Atom)
		s2.atoms[t.Atom] = t.Neg
		s2.atomLog = append(s2.atomLog, polStr(t.Neg)+t.Atom)
		in.implied(t.Atom, !t.Neg, st)
		in.implied(t.Atom, t.Neg, s2)
	}
	if t.OnTrue != nil {
		t.OnTrue(st)
	}
	if t.OnFalse != nil {
		t.OnFalse(s2)
	}
	k(st, true)
	k(s2, false)
}

func polStr(b bool) string {
	if b {
		return "+"
	}
	return "-"
}

// implied records atoms implied by an assumption: nil(k) => len0(k); !len0(k) => !nil(k).
func (in *Interp) implied(atom string, pol bool, st *State) {
	if strings.HasPrefix(atom, "nil(") && pol {
		k := "len0(" + strings.TrimPrefix(atom, "nil(")
		if _, ok := st.atoms[k]; !ok {
			st.atoms[k] = true
		}
	}
	if strings.HasPrefix(atom, "len0(") && !pol {
		k := "nil(" + strings.TrimPrefix(atom, "len0(")
		if _, ok := st.atoms[k]; !ok {
			st.atoms[k] = false
		}
	}
}

func (in *Interp) resolve(v Val, st *State) Val {
	switch v.K {
	case KSym:
		if c, ok := st.symEq[v.Sym]; ok {
			return Val{K: KConst, C: c, T: v.T}
		}
	case KExpr:
		if c, ok := st.refine[v.Key]; ok {
			return Val{K: KConst, C: c, T: v.T, Key: v.Key}
		}
	}
	return v
}

// nameOf: the canonical name of a value for symbolic terms: the expression key when the value
// came from one (even if a later test pinned it to a constant).
func nameOf(v Val) string {
	if v.Key != "" && v.Key != "&mask" && v.Key != "|mask" && v.Key != "&^mask" {
		return v.Key
	}
	return v.String()
}

func isZeroConst(v Val) bool {
	return v.K == KConst && v.C.Kind() == constant.Int && constant.Sign(v.C) == 0
}

// compare evaluates l op r.
func (in *Interp) compare(op token.Token, l, r Val, st *State) Tri {
	l, r = in.resolve(l, st), in.resolve(r, st)
	if compareHook != nil {
		if t, ok := compareHook(in, op, l, r, st); ok {
			return t
		}
	}
	if l.K == KConst && r.K == KConst {
		if l.C.Kind() == constant.Bool || r.C.Kind() == constant.Bool {
			if op == token.EQL || op == token.NEQ {
				eq := constant.BoolVal(l.C) == constant.BoolVal(r.C)
				return Tri{Known: true, Val: eq == (op == token.EQL)}
			}
		}
		return Tri{Known: true, Val: constant.Compare(l.C, op, r.C)}
	}
	// nil tests
	if r.K == KNil || l.K == KNil {
		o := l
		if l.K == KNil {
			o = r
		}
		if op == token.EQL || op == token.NEQ {
			switch o.K {
			case KNil:
				return Tri{Known: true, Val: op == token.EQL}
			case KNonNil, KObj, KFunc, KSlice, KAlloc:
				return Tri{Known: true, Val: op == token.NEQ}
			case KExpr:
				return Tri{Atom: "nil(" + o.Key + ")", Neg: op == token.NEQ}
			case KSym:
				return Tri{Atom: fmt.Sprintf("nil(s%d)", o.Sym), Neg: op == token.NEQ}
			}
			return Tri{}
		}
	}
	// make constant the right operand
	if l.K == KConst && r.K != KConst {
		l, r = r, l
		switch op {
		case token.LSS:
			op = token.GTR
		case token.LEQ:
			op = token.GEQ
		case token.GTR:
			op = token.LSS
		case token.GEQ:
			op = token.LEQ
		}
	}
	if r.K == KConst {
		switch l.K {
		case KLin:
			if l.Lin.B != nil && (op == token.EQL || op == token.NEQ) {
				// a value with a single possibly-set bit compared with 0 / that bit
				idx, cnt := -1, 0
				for i, tg := range l.Lin.B.B {
					if tg != "0" {
						idx = i
						cnt++
					}
				}
				if cnt == 1 && l.Lin.B.B[idx] != "1" && l.Lin.B.B[idx] != "?" {
					if u, ok := constant.Uint64Val(r.C); ok && (u == 0 || u == 1<<uint(idx)) {
						neg := (u == 0) != (op == token.NEQ)
						return Tri{Atom: "bitis(" + l.Lin.B.B[idx] + ")", Neg: neg}
					}
				}
				if cnt == 0 {
					return Tri{Known: true, Val: constant.Compare(constant.MakeInt64(0), op, r.C)}
				}
			}
			// len(k) vs 0
			if len(l.Lin.Terms) == 1 && l.Lin.C == 0 && isZeroConst(r) {
				for t, co := range l.Lin.Terms {
					if co == 1 && strings.HasPrefix(t, "len(") {
						atom := "len0(" + strings.TrimPrefix(t, "len(")
						switch op {
						case token.EQL, token.LEQ:
							return Tri{Atom: atom}
						case token.NEQ, token.GTR:
							return Tri{Atom: atom, Neg: true}
						case token.GEQ:
							return Tri{Known: true, Val: true}
						case token.LSS:
							return Tri{Known: true, Val: false}
						}
					}
				}
			}
			if len(l.Lin.Terms) == 0 {
				return Tri{Known: true, Val: constant.Compare(constant.MakeInt64(l.Lin.C), op, r.C)}
			}
			name := l.Lin.String()
			if c, ok := constant.Uint64Val(r.C); ok && (op == token.GTR || op == token.LEQ || op == token.LSS || op == token.GEQ) {
				// remember the upper bound on the branch where it holds
				bound := c
				if op == token.LSS || op == token.GEQ {
					if c == 0 {
						bound = 0
					} else {
						bound = c - 1
					}
				}
				set := func(s *State) {
					if s.ubound == nil {
						s.ubound = map[string]uint64{}
					}
					s.ubound[name] = bound
				}
				t := Tri{Atom: fmt.Sprintf("%s %s %s", name, op, r.String())}
				if op == token.GTR || op == token.GEQ {
					t.OnFalse = set
				} else {
					t.OnTrue = set
				}
				return t
			}
			return Tri{Atom: fmt.Sprintf("%s %s %s", name, op, r.String())}
		case KExpr:
			key := l.Key
			if op == token.EQL || op == token.NEQ {
				if r.C.Kind() == constant.String && constant.StringVal(r.C) == "" {
					return Tri{Atom: "empty(" + key + ")", Neg: op == token.NEQ}
				}
				// discriminator test
				if am, ok := st.among[key]; ok {
					found := false
					for _, a := range am {
						if constant.Compare(a, token.EQL, r.C) {
							found = true
						}
					}
					if !found {
						return Tri{Known: true, Val: op == token.NEQ}
					}
					if len(am) == 1 {
						return Tri{Known: true, Val: op == token.EQL}
					}
				}
				for _, x := range st.exclude[key] {
					if constant.Compare(x, token.EQL, r.C) {
						return Tri{Known: true, Val: op == token.NEQ}
					}
				}
				c := r.C
				eqT := func(s *State) { s.refine[key] = c }
				neT := func(s *State) {
					s.exclude[key] = append(append([]constant.Value(nil), s.exclude[key]...), c)
					if am, ok := s.among[key]; ok {
						var rest []constant.Value
						for _, a := range am {
							if !constant.Compare(a, token.EQL, c) {
								rest = append(rest, a)
							}
						}
						s.among[key] = rest
						if len(rest) == 1 {
							s.refine[key] = rest[0]
						}
					}
				}
				if op == token.EQL {
					return Tri{OnTrue: eqT, OnFalse: neT}
				}
				return Tri{OnTrue: neT, OnFalse: eqT}
			}
			if isZeroConst(r) {
				switch op {
				case token.GTR:
					return Tri{Atom: "pos(" + key + ")"}
				case token.LEQ:
					return Tri{Atom: "pos(" + key + ")", Neg: true}
				case token.LSS:
					return Tri{Atom: "neg(" + key + ")"}
				case token.GEQ:
					return Tri{Atom: "neg(" + key + ")", Neg: true}
				}
			}
			return Tri{Atom: fmt.Sprintf("%s %s %s", key, op, r.String())}
		case KSym:
			id := l.Sym
			if op == token.EQL || op == token.NEQ {
				for _, x := range st.symNe[id] {
					if constant.Compare(x, token.EQL, r.C) {
						return Tri{Known: true, Val: op == token.NEQ}
					}
				}
				if set, ok := st.symSet[id]; ok {
					// remaining candidates
					var rest []constant.Value
					for _, x := range set {
						excluded := false
						for _, y := range st.symNe[id] {
							if constant.Compare(x, token.EQL, y) {
								excluded = true
							}
						}
						if !excluded {
							rest = append(rest, x)
						}
					}
					in_ := false
					for _, x := range rest {
						if constant.Compare(x, token.EQL, r.C) {
							in_ = true
						}
					}
					if !in_ {
						return Tri{Known: true, Val: op == token.NEQ}
					}
					if len(rest) == 1 {
						c1 := r.C
						st.symEq[id] = c1
						return Tri{Known: true, Val: op == token.EQL}
					}
				}
				c := r.C
				eqT := func(s *State) { s.symEq[id] = c }
				neT := func(s *State) { s.symNe[id] = append(append([]constant.Value(nil), s.symNe[id]...), c) }
				if op == token.EQL {
					return Tri{OnTrue: eqT, OnFalse: neT}
				}
				return Tri{OnTrue: neT, OnFalse: eqT}
			}
			sname := fmt.Sprintf("s%d", id)
			if l.Reint != "" {
				// the ordering of a reinterpreted value is not the ordering of the value read
				sname = fmt.Sprintf("%s(s%d)", l.Reint, id)
			}
			atom := fmt.Sprintf("%s %s %s", sname, op, r.String())
			// normalise > / <= and < / >= pairs on the same constant
			switch op {
			case token.LEQ:
				return Tri{Atom: fmt.Sprintf("%s > %s", sname, r.String()), Neg: true}
			case token.GEQ:
				return Tri{Atom: fmt.Sprintf("%s < %s", sname, r.String()), Neg: true}
			}
			return Tri{Atom: atom}
		}
	}
	if l.K == KExpr && r.K == KExpr {
		a, b := l.Key, r.Key
		if a == b && (op == token.EQL || op == token.LEQ || op == token.GEQ) {
			return Tri{Known: true, Val: true}
		}
		if a == b && (op == token.NEQ || op == token.LSS || op == token.GTR) {
			return Tri{Known: true, Val: false}
		}
		if op == token.NEQ {
			if a > b {
				a, b = b, a
			}
			return Tri{Atom: a + " == " + b, Neg: true}
		}
		if op == token.EQL {
			if a > b {
				a, b = b, a
			}
			return Tri{Atom: a + " == " + b}
		}
		return Tri{Atom: fmt.Sprintf("%s %s %s", a, op, b)}
	}
	if l.K != KUnknown && r.K != KUnknown {
		t := Tri{Atom: fmt.Sprintf("%s %s %s", l.String(), op, r.String())}
		ln, rn := boundName(l), boundName(r)
		if ln != "" && rn != "" {
			// a <= b (or a < b) with b bounded bounds a; propagate on the branch where it holds
			prop := func(small, big string, strict bool) func(*State) {
				return func(s *State) {
					if ub, ok := s.ubound[big]; ok {
						if strict && ub > 0 {
							ub--
						}
						if s.ubound == nil {
							s.ubound = map[string]uint64{}
						}
						if old, ok := s.ubound[small]; !ok || ub < old {
							s.ubound[small] = ub
						}
					}
				}
			}
			switch op {
			case token.LEQ:
				t.OnTrue, t.OnFalse = prop(ln, rn, false), prop(rn, ln, true)
			case token.LSS:
				t.OnTrue, t.OnFalse = prop(ln, rn, true), prop(rn, ln, false)
			case token.GEQ:
				t.OnTrue, t.OnFalse = prop(rn, ln, false), prop(ln, rn, true)
			case token.GTR:
				t.OnTrue, t.OnFalse = prop(rn, ln, true), prop(ln, rn, false)
			}
		}
		return t
	}
	return Tri{}
}

func boundName(v Val) string {
	switch v.K {
	case KSym:
		return fmt.Sprintf("s%d", v.Sym)
	case KExpr:
		return v.Key
	case KLin:
		if v.Lin.B == nil {
			return v.Lin.String()
		}
	}
	return ""
}

// ---------------------------------------------------------------------------------------
// expressions

func exprString(e ast.Expr) string { return types.ExprString(e) }

func (in *Interp) expr(e ast.Expr, st *State, fr *frame, k func(*State, Val)) {
	// constants known to the type checker
	if tv, ok := fr.info.Types[e]; ok && tv.Value != nil {
		k(st, Val{K: KConst, C: tv.Value, T: tv.Type})
		return
	}
	switch x := e.(type) {
	case *ast.ParenExpr:
		in.expr(x.X, st, fr, k)
	case *ast.BasicLit:
		k(st, unknown)
	case *ast.Ident:
		in.ident(x, st, fr, k)
	case *ast.SelectorExpr:
		in.selector(x, st, fr, k)
	case *ast.StarExpr:
		in.expr(x.X, st, fr, func(st *State, v Val) {
			if h, ok := in.Hooks.(interface {
				Deref(in *Interp, x *ast.StarExpr, base Val, st *State)
			}); ok {
				h.Deref(in, x, v, st)
			}
			switch v.K {
			case KExpr:
				k(st, Val{K: KExpr, Key: "*" + v.Key, T: typeOf(fr, e)})
			case KObj:
				k(st, v)
			case KSym:
				k(st, v)
			default:
				k(st, unknown)
			}
		})
	case *ast.UnaryExpr:
		in.unary(x, st, fr, k)
	case *ast.BinaryExpr:
		switch x.Op {
		case token.LAND, token.LOR, token.EQL, token.NEQ, token.LSS, token.LEQ, token.GTR, token.GEQ:
			in.cond(x, st, fr, func(st *State, b bool) { k(st, boolVal(b)) })
		default:
			in.expr(x.X, st, fr, func(st *State, l Val) {
				in.expr(x.Y, st, fr, func(st *State, r Val) {
					k(st, in.binop(x.Op, l, r, typeOf(fr, e), st))
				})
			})
		}
	case *ast.CallExpr:
		in.call(x, st, fr, k)
	case *ast.CompositeLit:
		in.composite(x, st, fr, k)
	case *ast.FuncLit:
		k(st, Val{K: KFunc, Fn: &Closure{Lit: x, Pkg: fr.pkg}})
	case *ast.TypeAssertExpr:
		in.expr(x.X, st, fr, func(st *State, v Val) {
			t := typeOf(fr, x.Type)
			if tv, ok := fr.info.Types[e]; ok && isTupleType(tv.Type) {
				// comma-ok form
				in.typeAssertOk(v, t, st, k)
				return
			}
			k(st, in.assertTo(v, t))
		})
	case *ast.IndexExpr:
		in.expr(x.X, st, fr, func(st *State, base Val) {
			in.expr(x.Index, st, fr, func(st *State, idx Val) {
				if tv, ok := fr.info.Types[e]; ok && isTupleType(tv.Type) {
					// map lookup, comma-ok
					key := "?"
					if base.K == KExpr {
						key = base.Key + "[" + idx.String() + "]"
					}
					found := Val{K: KExpr, Key: "has(" + key + ")"}
					k(st, Val{K: KTuple, Elems: []Val{{K: KExpr, Key: key}, found}})
					return
				}
				if base.K == KSlice && idx.K == KConst {
					if i, ok := constant.Int64Val(idx.C); ok && i >= 0 && int(i) < len(base.Elems) {
						k(st, base.Elems[i])
						return
					}
				}
				if base.K == KExpr {
					if idx.K == KConst {
						k(st, Val{K: KExpr, Key: base.Key + "[" + idx.String() + "]", T: typeOf(fr, e)})
					} else {
						k(st, Val{K: KExpr, Key: base.Key + "[]", T: typeOf(fr, e)})
					}
					return
				}
				k(st, unknown)
			})
		})
	case *ast.SliceExpr:
		in.expr(x.X, st, fr, func(st *State, base Val) {
			var parts []ast.Expr
			for _, p := range []ast.Expr{x.Low, x.High, x.Max} {
				if p != nil {
					parts = append(parts, p)
				}
			}
			in.exprs(parts, st, fr, func(st *State, vals []Val) {
				if base.K == KExpr {
					k(st, Val{K: KExpr, Key: base.Key + "[:]", T: typeOf(fr, e)})
					return
				}
				k(st, Val{K: KNonNil})
			})
		})
	case *ast.KeyValueExpr:
		in.expr(x.Value, st, fr, k)
	default:
		k(st, unknown)
	}
}

func isTupleType(t types.Type) bool {
	_, ok := t.(*types.Tuple)
	return ok
}

func (in *Interp) typeAssertOk(v Val, t types.Type, st *State, k func(*State, Val)) {
	res := in.assertTo(v, t)
	switch v.K {
	case KNil:
		k(st, Val{K: KTuple, Elems: []Val{in.zeroValue(t, st), boolVal(false)}})
		return
	}
	if v.DynT != nil {
		// the dynamic type is known: the assertion is decided
		holds := types.Identical(v.DynT, t)
		if it, ok := t.Underlying().(*types.Interface); ok && types.Implements(v.DynT, it) {
			holds = true
		}
		if holds {
			k(st, Val{K: KTuple, Elems: []Val{res, boolVal(true)}})
		} else {
			k(st, Val{K: KTuple, Elems: []Val{in.zeroValue(t, st), boolVal(false)}})
		}
		return
	}
	atom := "is(" + v.String() + "," + types.TypeString(t, relQual) + ")"
	if v.K != KExpr {
		atom = ""
	}
	in.decide(Tri{Atom: atom}, st, func(st *State, b bool) {
		if b {
			k(st, Val{K: KTuple, Elems: []Val{res, boolVal(true)}})
		} else {
			k(st, Val{K: KTuple, Elems: []Val{{K: KNil}, boolVal(false)}})
		}
	})
}

func (in *Interp) ident(x *ast.Ident, st *State, fr *frame, k func(*State, Val)) {
	obj := fr.info.ObjectOf(x)
	switch o := obj.(type) {
	case *types.Nil:
		k(st, Val{K: KNil})
	case *types.Const:
		k(st, Val{K: KConst, C: o.Val(), T: o.Type()})
	case *types.Var:
		if v, ok := st.env[o]; ok {
			k(st, in.resolve(v, st))
			return
		}
		if o.Parent() != nil && o.Pkg() != nil && o.Parent() == o.Pkg().Scope() {
			// package-level variable
			k(st, in.globalVal(o))
			return
		}
		k(st, unknown)
	case *types.Func:
		k(st, Val{K: KFunc, Fn: &Closure{Decl: o}})
	default:
		if x.Name == "true" || x.Name == "false" {
			k(st, boolVal(x.Name == "true"))
			return
		}
		k(st, unknown)
	}
}

func (in *Interp) selector(x *ast.SelectorExpr, st *State, fr *frame, k func(*State, Val)) {
	if sel := fr.info.Selections[x]; sel != nil {
		switch sel.Kind() {
		case types.FieldVal:
			fv := sel.Obj().(*types.Var)
			in.FieldReads[fv] = true
			in.expr(x.X, st, fr, func(st *State, base Val) {
				k(st, in.resolve(in.fieldOf(base, sel, fv, st), st))
			})
			return
		case types.MethodVal:
			in.expr(x.X, st, fr, func(st *State, base Val) {
				b := base
				k(st, Val{K: KFunc, Fn: &Closure{Decl: sel.Obj().(*types.Func), Recv: &b}})
			})
			return
		}
		k(st, unknown)
		return
	}
	// qualified identifier
	switch o := fr.info.ObjectOf(x.Sel).(type) {
	case *types.Const:
		k(st, Val{K: KConst, C: o.Val(), T: o.Type()})
	case *types.Var:
		k(st, in.globalVal(o))
	case *types.Func:
		k(st, Val{K: KFunc, Fn: &Closure{Decl: o}})
	default:
		k(st, unknown)
	}
}

func (in *Interp) fieldOf(base Val, sel *types.Selection, fv *types.Var, st *State) Val {
	switch base.K {
	case KObj:
		// walk embedded path
		if v, ok := st.heap[base.Obj][fv.Name()]; ok {
			return v
		}
		z := in.zeroValue(fv.Type(), st)
		st.heap[base.Obj][fv.Name()] = z
		return z
	case KExpr:
		if v, ok := st.fieldOv[base.Key+"."+fv.Name()]; ok {
			return v
		}
		return Val{K: KExpr, Key: base.Key + "." + fv.Name(), T: fv.Type()}
	case KNil:
		return unknown
	}
	return unknown
}

func (in *Interp) unary(x *ast.UnaryExpr, st *State, fr *frame, k func(*State, Val)) {
	switch x.Op {
	case token.AND:
		// &T{} or &v
		if cl, ok := ast.Unparen(x.X).(*ast.CompositeLit); ok {
			in.composite(cl, st, fr, k)
			return
		}
		in.expr(x.X, st, fr, func(st *State, v Val) {
			switch v.K {
			case KObj:
				k(st, v)
			case KExpr:
				k(st, Val{K: KExpr, Key: "&" + v.Key})
			default:
				// pointer to a local: keep the value (aliasing of locals through pointers is not modelled)
				if v.K == KConst || v.K == KSym {
					k(st, Val{K: KNonNil})
				} else {
					k(st, Val{K: KNonNil})
				}
			}
		})
	case token.NOT:
		in.cond(x, st, fr, func(st *State, b bool) { k(st, boolVal(b)) })
	case token.SUB, token.ADD, token.XOR:
		in.expr(x.X, st, fr, func(st *State, v Val) {
			if v.K == KConst {
				k(st, Val{K: KConst, C: constant.UnaryOp(x.Op, v.C, 0), T: v.T})
				return
			}
			k(st, unknown)
		})
	case token.ARROW:
		in.expr(x.X, st, fr, func(st *State, v Val) {
			st.emit(&Sym{Kind: "recv", Pos: x.Pos(), Extra: exprString(x.X)})
			if tv, ok := fr.info.Types[x]; ok && isTupleType(tv.Type) {
				k(st, Val{K: KTuple, Elems: []Val{unknown, unknown}})
				return
			}
			k(st, unknown)
		})
	default:
		k(st, unknown)
	}
}

func (in *Interp) composite(x *ast.CompositeLit, st *State, fr *frame, k func(*State, Val)) {
	t := typeOf(fr, x)
	switch u := t.Underlying().(type) {
	case *types.Struct:
		obj := in.newObj(t, st)
		var do func(i int, st *State)
		do = func(i int, st *State) {
			if i == len(x.Elts) {
				k(st, obj)
				return
			}
			el := x.Elts[i]
			name := ""
			var ve ast.Expr = el
			if kv, ok := el.(*ast.KeyValueExpr); ok {
				name = kv.Key.(*ast.Ident).Name
				ve = kv.Value
			} else if i < u.NumFields() {
				name = u.Field(i).Name()
			}
			for j := 0; j < u.NumFields(); j++ {
				if u.Field(j).Name() == name {
					in.FieldStores[u.Field(j)] = true
				}
			}
			in.expr(ve, st, fr, func(st *State, v Val) {
				st.heap[obj.Obj][name] = v
				do(i+1, st)
			})
		}
		do(0, st)
	case *types.Slice, *types.Array:
		var es []ast.Expr
		for _, el := range x.Elts {
			if kv, ok := el.(*ast.KeyValueExpr); ok {
				es = append(es, kv.Value)
			} else {
				es = append(es, el)
			}
		}
		in.exprs(es, st, fr, func(st *State, vals []Val) {
			k(st, Val{K: KSlice, Elems: vals, T: t})
		})
	default:
		k(st, Val{K: KNonNil, T: t})
	}
}

func intBits(t types.Type) (bits int, signed bool, ok bool) {
	b, isb := t.Underlying().(*types.Basic)
	if !isb || b.Info()&types.IsInteger == 0 {
		return 0, false, false
	}
	switch b.Kind() {
	case types.Int8:
		return 8, true, true
	case types.Int16:
		return 16, true, true
	case types.Int32:
		return 32, true, true
	case types.Int64, types.Int:
		return 64, true, true
	case types.Uint8:
		return 8, false, true
	case types.Uint16:
		return 16, false, true
	case types.Uint32:
		return 32, false, true
	case types.Uint64, types.Uint, types.Uintptr:
		return 64, false, true
	}
	return 0, false, false
}

// wrapInt truncates a constant to the given integer type (two's complement).
func wrapInt(c constant.Value, t types.Type) constant.Value {
	bits, signed, ok := intBits(t)
	if !ok || c.Kind() != constant.Int {
		return c
	}
	mod := constant.Shift(constant.MakeInt64(1), token.SHL, uint(bits))
	// r = c mod 2^bits (non-negative)
	q := constant.BinaryOp(c, token.QUO_ASSIGN, mod) // truncated integer division
	r := constant.BinaryOp(c, token.SUB, constant.BinaryOp(q, token.MUL, mod))
	if constant.Sign(r) < 0 {
		r = constant.BinaryOp(r, token.ADD, mod)
	}
	if signed {
		half := constant.Shift(constant.MakeInt64(1), token.SHL, uint(bits-1))
		if constant.Compare(r, token.GEQ, half) {
			r = constant.BinaryOp(r, token.SUB, mod)
		}
	}
	return r
}

func (in *Interp) binop(op token.Token, l, r Val, t types.Type, st *State) Val {
	l, r = in.resolve(l, st), in.resolve(r, st)
	if l.K == KConst && r.K == KConst && l.C.Kind() != constant.Bool {
		defer func() { recover() }()
		var c constant.Value
		switch op {
		case token.SHL, token.SHR:
			if s, ok := constant.Uint64Val(r.C); ok && s < 128 {
				c = constant.Shift(l.C, op, uint(s))
			} else {
				return unknown
			}
		case token.QUO:
			if l.C.Kind() == constant.Int && r.C.Kind() == constant.Int {
				if constant.Sign(r.C) == 0 {
					return unknown
				}
				c = constant.BinaryOp(l.C, token.QUO_ASSIGN, r.C)
			} else {
				c = constant.BinaryOp(l.C, op, r.C)
			}
		default:
			c = constant.BinaryOp(l.C, op, r.C)
		}
		if t != nil {
			c = wrapInt(c, t)
		}
		return Val{K: KConst, C: c, T: t}
	}
	if in.BitMode {
		switch op {
		case token.AND, token.OR, token.SHL, token.SHR, token.AND_NOT:
			if v, ok := in.bitOp(op, l, r, t, st); ok {
				return v
			}
		}
	}
	// linear forms
	ll, lok := asLin(l)
	rl, rok := asLin(r)
	if lok && rok {
		switch op {
		case token.ADD:
			return Val{K: KLin, Lin: ll.add(rl, 1)}
		case token.SUB:
			return Val{K: KLin, Lin: ll.add(rl, -1)}
		case token.MUL:
			if len(ll.Terms) == 0 {
				return Val{K: KLin, Lin: rl.scale(ll.C)}
			}
			if len(rl.Terms) == 0 {
				return Val{K: KLin, Lin: ll.scale(rl.C)}
			}
		}
	}
	// bit tests on symbols / keys are handled in compare via the mask form
	if op == token.AND && (l.K == KSym || l.K == KExpr) && r.K == KConst {
		return Val{K: KExpr, Key: "&mask", Elems: []Val{l, r}}
	}
	if op == token.AND && (r.K == KSym || r.K == KExpr) && l.K == KConst {
		return Val{K: KExpr, Key: "&mask", Elems: []Val{r, l}}
	}
	if (op == token.OR || op == token.AND_NOT) && (l.K == KSym || l.K == KExpr) && r.K == KConst {
		// flag arithmetic on an unknown word: remember operation and constant
		name := "|mask"
		if op == token.AND_NOT {
			name = "&^mask"
		}
		return Val{K: KExpr, Key: name, Elems: []Val{l, r}}
	}
	return unknown
}

func asLin(v Val) (*Lin, bool) {
	switch v.K {
	case KLin:
		return v.Lin, true
	case KConst:
		if v.C.Kind() == constant.Int {
			if i, ok := constant.Int64Val(v.C); ok {
				return linConst(i), true
			}
		}
	}
	return nil, false
}

// globalVal is the value of a package-level variable. With SentinelErrors set, a variable of type
// error that is initialised by errors.New / fmt.Errorf and never assigned anywhere in the module is
// known to be non-nil.
func (in *Interp) globalVal(o *types.Var) Val {
	if in.SentinelErrors && isErrorType(o.Type()) && in.P.sentinelError(o) {
		return Val{K: KNonNil, T: o.Type()}
	}
	return Val{K: KExpr, Key: "global:" + shortPkg(o.Pkg()) + "." + o.Name(), T: o.Type()}
}

func (p *Program) sentinelError(o *types.Var) bool {
	if p.sentinels == nil {
		p.sentinels = map[*types.Var]bool{}
		assigned := map[*types.Var]bool{}
		for _, pkg := range p.Pkgs {
			for _, f := range pkg.Syntax {
				ast.Inspect(f, func(n ast.Node) bool {
					switch n := n.(type) {
					case *ast.AssignStmt:
						for _, l := range n.Lhs {
							if id, ok := l.(*ast.Ident); ok {
								if v, ok := pkg.TypesInfo.Uses[id].(*types.Var); ok {
									assigned[v] = true
								}
							}
							if se, ok := l.(*ast.SelectorExpr); ok {
								if v, ok := pkg.TypesInfo.Uses[se.Sel].(*types.Var); ok {
									assigned[v] = true
								}
							}
						}
					case *ast.UnaryExpr:
						if n.Op == token.AND {
							if id, ok := n.X.(*ast.Ident); ok {
								if v, ok := pkg.TypesInfo.Uses[id].(*types.Var); ok {
									assigned[v] = true
								}
							}
						}
					case *ast.ValueSpec:
						for i, id := range n.Names {
							v, ok := pkg.TypesInfo.Defs[id].(*types.Var)
							if !ok || v.Parent() != pkg.Types.Scope() || i >= len(n.Values) {
								continue
							}
							if c, ok := n.Values[i].(*ast.CallExpr); ok {
								if se, ok := c.Fun.(*ast.SelectorExpr); ok {
									if f, ok := pkg.TypesInfo.Uses[se.Sel].(*types.Func); ok {
										if fn := f.FullName(); fn == "errors.New" || fn == "fmt.Errorf" {
											p.sentinels[v] = true
										}
									}
								}
							}
						}
					}
					return true
				})
			}
		}
		for v := range assigned {
			delete(p.sentinels, v)
		}
	}
	return p.sentinels[o]
}
