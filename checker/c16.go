package main

import (
	"fmt"
	"go/token"
	"go/types"
	"sort"
	"strings"

	"golang.org/x/tools/go/ssa"
)

func checkC16(p *Program, r *Report) {
	r.Explanation = "Crash points and schedules are not explored. Decided: discipline rules of the termination code in package client, each over all paths / call sites - no method with a value receiver updates its receiver (a lost update: the restarted timeout lived in a copy); every close(ch) is guarded so that it runs once; after winning the closed-flag CAS every path of a Close method performs the complete clean-up (channels closed, goroutines joined, callbacks run); goroutines counted by a WaitGroup call Done on every exit and never reach Wait before their own Done; the handler completes every pending request with a non-nil error and removes it; public send/receive operations test the closed flag first; a non-final page always restarts the timeout; and for every channel that is closed, each send shares a lock with the close - the unsynchronised sends found by this last rule are genuine races recorded as known findings."
	r.Trusted = []string{"go/ssa dominance", "absint evaluator for the path rules"}
	c16ValueReceiver(p, r)
	c16CloseOnce(p, r)
	c16CleanupComplete(p, r)
	c16WaitGroup(p, r)
	c16PendingError(p, r)
	c16ClosedTest(p, r)
	c16TimeoutRestart(p, r)
	c16SendClose(p, r)
	c15FieldInit(p, r) // nil-able fields dereferenced on the close paths (shared with C15)
}

// mayStoreReceiverField: fn (pointer receiver) or its module callees store to a field of the
// receiver's struct type.
func mayStoreFieldsOf(fn *ssa.Function, t types.Type, seen map[*ssa.Function]bool) bool {
	if fn == nil || seen[fn] || len(seen) > 100 {
		return false
	}
	seen[fn] = true
	for _, b := range fn.Blocks {
		for _, ins := range b.Instrs {
			switch x := ins.(type) {
			case *ssa.Store:
				if base, _, ok := fieldAddrOf(x.Addr); ok {
					if pt, ok := base.Type().Underlying().(*types.Pointer); ok && types.Identical(pt.Elem(), t) {
						return true
					}
				}
			case ssa.CallInstruction:
				if c := x.Common().StaticCallee(); c != nil && c.Pkg != nil && isModulePkg(c.Pkg.Pkg) {
					if mayStoreFieldsOf(c, t, seen) {
						return true
					}
				}
			}
		}
	}
	return false
}

func c16ValueReceiver(p *Program, r *Report) {
	r.Floor("value-receiver", 1)
	n := 0
	for _, fn := range clientFuncs(p) {
		recv := fn.Signature.Recv()
		if recv == nil || fn.Parent() != nil {
			continue
		}
		if _, isPtr := recv.Type().(*types.Pointer); isPtr {
			continue
		}
		if _, isStruct := recv.Type().Underlying().(*types.Struct); !isStruct {
			continue
		}
		n++
		key := fnKey(fn)
		bad := ""
		for _, b := range fn.Blocks {
			for _, ins := range b.Instrs {
				switch x := ins.(type) {
				case *ssa.Store:
					if base, fld, ok := fieldAddrOf(x.Addr); ok {
						if pt, ok := base.Type().Underlying().(*types.Pointer); ok && types.Identical(pt.Elem(), recv.Type()) {
							if _, isAlloc := base.(*ssa.Alloc); isAlloc {
								bad = fmt.Sprintf("%s: assigns field %s of the receiver copy", p.pos(x.Pos()), fld.Name())
							}
						}
					}
				case ssa.CallInstruction:
					c := x.Common().StaticCallee()
					if c == nil || c.Signature.Recv() == nil || len(x.Common().Args) == 0 {
						continue
					}
					if a, isAlloc := x.Common().Args[0].(*ssa.Alloc); isAlloc {
						if pt, ok := a.Type().Underlying().(*types.Pointer); ok && types.Identical(pt.Elem(), recv.Type()) {
							if mayStoreFieldsOf(c, recv.Type(), map[*ssa.Function]bool{}) {
								bad = fmt.Sprintf("%s: calls %s, which updates the receiver, on a copy", p.pos(x.Pos()), c.Name())
							}
						}
					}
				}
			}
		}
		if bad != "" {
			r.Fail("value-receiver", key, fn.Pos(), "method with a value receiver updates its receiver - the update is lost with the copy (%s)", bad)
		} else {
			r.OKf("value-receiver", key, fn.Pos(), "value receiver is only read")
		}
	}
	r.OKf("value-receiver", "scan", token.NoPos, "%d value-receiver methods on structs examined", n)
}

// lockset at an instruction: mutex fields locked (Lock/RLock) by a call dominating it and not
// released by a non-deferred unlock dominating it.
func locksetAt(fn *ssa.Function, blk *ssa.BasicBlock, idx int) map[string]bool {
	held := map[string]bool{}
	type ev struct {
		b    *ssa.BasicBlock
		i    int
		name string
		lock bool
	}
	var evs []ev
	for _, b := range fn.Blocks {
		for i, ins := range b.Instrs {
			c, ok := ins.(*ssa.Call)
			if !ok {
				continue
			}
			f := c.Call.StaticCallee()
			if f == nil || !(strings.HasPrefix(f.String(), "(*sync.RWMutex).") || strings.HasPrefix(f.String(), "(*sync.Mutex).")) {
				continue
			}
			fld, _ := fieldOfLoad(c.Call.Args[0])
			name := "?"
			if fld != nil {
				name = fld.Name()
			}
			switch f.Name() {
			case "Lock", "RLock":
				evs = append(evs, ev{b, i, name, true})
			case "Unlock", "RUnlock":
				evs = append(evs, ev{b, i, name, false})
			}
		}
	}
	before := func(e ev) bool {
		if e.b == blk {
			return e.i < idx
		}
		return e.b.Dominates(blk)
	}
	for _, e := range evs {
		if e.lock && before(e) {
			held[e.name] = true
		}
	}
	for _, e := range evs {
		if !e.lock && before(e) {
			delete(held, e.name)
		}
	}
	return held
}

func c16CloseOnce(p *Program, r *Report) {
	r.Floor("close-once", 6)
	for _, fn := range clientFuncs(p) {
		n := 0
		for _, b := range fn.Blocks {
			for i, ins := range b.Instrs {
				c, ok := ins.(*ssa.Call)
				if !ok {
					continue
				}
				bi, ok := c.Call.Value.(*ssa.Builtin)
				if !ok || bi.Name() != "close" {
					continue
				}
				n++
				key := fmt.Sprintf("%s close#%d", fnKey(fn), n)
				why := ""
				// (a) dominated by the true edge of setClosed()
				for d := b; d.Idom() != nil && why == ""; d = d.Idom() {
					id := d.Idom()
					ifi, ok := id.Instrs[len(id.Instrs)-1].(*ssa.If)
					if !ok {
						continue
					}
					name := condCallName(ifi.Cond)
					onTrue := id.Succs[0] == d || dominatesVia(id.Succs[0], d)
					onFalse := id.Succs[1] == d || dominatesVia(id.Succs[1], d)
					if name == "setClosed" && onTrue {
						why = "runs only after winning the closed-flag compare-and-swap"
					}
					if name == "done" && onFalse && len(locksetAt(fn, b, i)) > 0 {
						why = "runs only while !done, under the request's lock, which also sets done"
					}
					if name == "isClosed" && onFalse && len(locksetAt(fn, b, i)) > 0 {
						why = "runs only on a handler that is not closed, under its lock"
					}
				}
				// (c) the channel belongs to a map entry deleted in the same lock region
				if why == "" && len(locksetAt(fn, b, i)) > 0 {
					for _, b2 := range fn.Blocks {
						for _, in2 := range b2.Instrs {
							if c2, ok := in2.(*ssa.Call); ok {
								if b2i, ok := c2.Call.Value.(*ssa.Builtin); ok && b2i.Name() == "delete" && b2.Dominates(b) {
									why = "the entry owning the channel is deleted from the map in the same lock region"
								}
							}
							if _, ok := in2.(*ssa.MapUpdate); ok {
								_ = ok
							}
						}
					}
				}
				if why != "" {
					r.OKf("close-once", key, c.Pos(), "%s", why)
				} else {
					r.Fail("close-once", key, c.Pos(), "close() of a channel is not guarded by a won closed-flag CAS or a done/closed test under a lock: a second Close (or a concurrent one) panics with 'close of closed channel'")
				}
			}
		}
	}
}

// c16CleanupComplete: on every path of a Close method that won setClosed(), the same clean-up
// actions happen.
func c16CleanupComplete(p *Program, r *Report) {
	r.Floor("cleanup-complete", 3)
	for _, typ := range []string{"CqlClientConnection", "CqlServerConnection", "CqlServer", "inFlightRequestsHandler", "clientConnectionHandler"} {
		var m *types.Func
		for _, name := range []string{"Close", "close"} {
			if f := p.TryMethod("client", typ, name); f != nil {
				m = f
			}
		}
		if m == nil {
			continue
		}
		in := newInterp(p, &effHooks{})
		in.NoInline = func(f *types.Func) bool { return isModulePkg(f.Pkg()) && f != m }
		recv, args := paramVals(m)
		outs := in.RunFunc(m, recv, args, nil)
		key := typ + "." + m.Name()
		sets := map[string]int{}
		var union map[string]bool
		won := 0
		type pathSet struct {
			acts map[string]bool
			st   *State
		}
		var paths []pathSet
		for _, o := range outs {
			w := false
			for a, pol := range o.St.atoms {
				if (strings.Contains(a, ".setClosed(") || strings.Contains(a, ".transitionState(")) && pol {
					w = true
				}
			}
			if !w {
				continue
			}
			won++
			acts := map[string]bool{}
			for _, s := range o.St.trace {
				switch s.Kind {
				case "close":
					acts["close "+s.Extra] = true
				case "callatom":
					if !strings.HasSuffix(s.Name, ".String") && !strings.HasSuffix(s.Name, ".setClosed") && !strings.HasSuffix(s.Name, ".transitionState") {
						acts["call "+s.Name] = true
					}
				case "ext":
					if strings.HasSuffix(s.Name, ".Wait") {
						acts["wait"] = true
					}
				case "dyn":
					if strings.HasPrefix(s.Name, "funcvalue:") {
						acts["call "+strings.TrimPrefix(s.Name, "funcvalue:")] = true
					}
				}
			}
			paths = append(paths, pathSet{acts, o.St})
			sets[setStr(acts)]++
			if union == nil {
				union = map[string]bool{}
			}
			for a := range acts {
				union[a] = true
			}
		}
		if won == 0 {
			r.Fail("cleanup-complete", key, m.Pos(), "no path wins the closed-flag CAS")
			continue
		}
		bad := ""
		for _, ps := range paths {
			var missing []string
			for a := range union {
				if !ps.acts[a] {
					missing = append(missing, a)
				}
			}
			if len(missing) > 0 {
				sort.Strings(missing)
				bad = fmt.Sprintf("a path that won the closed flag (conditions {%s}) returns without %s: the flag is set, so no later Close finishes the job - blocked receivers never return and goroutines survive", strings.Join(ps.st.atomLog, " "), strings.Join(missing, ", "))
			}
		}
		if bad != "" {
			r.Fail("cleanup-complete", key, m.Pos(), "%s", bad)
		} else {
			r.OKf("cleanup-complete", key, m.Pos(), "all %d paths after the CAS perform {%s}", won, setStr(union))
		}
	}
}

func c16WaitGroup(p *Program, r *Report) {
	r.Floor("waitgroup", 5)
	for _, fn := range clientFuncs(p) {
		for _, b := range fn.Blocks {
			for i, ins := range b.Instrs {
				g, ok := ins.(*ssa.Go)
				if !ok {
					continue
				}
				var body *ssa.Function
				switch v := g.Call.Value.(type) {
				case *ssa.MakeClosure:
					body, _ = v.Fn.(*ssa.Function)
				case *ssa.Function:
					body = v
				}
				if body == nil {
					continue
				}
				// counted: the goroutine body calls Done
				callsDone := false
				for _, b2 := range body.Blocks {
					for _, in2 := range b2.Instrs {
						if c, ok := in2.(ssa.CallInstruction); ok {
							if f := c.Common().StaticCallee(); f != nil && f.String() == "(*sync.WaitGroup).Done" {
								callsDone = true
							}
						}
					}
				}
				if !callsDone {
					continue
				}
				key := fnKey(body)
				// Add before go
				addBefore := false
				for d := b; d != nil; d = d.Idom() {
					lim := len(d.Instrs)
					if d == b {
						lim = i
					}
					for _, pi := range d.Instrs[:lim] {
						if c, ok := pi.(*ssa.Call); ok {
							if f := c.Call.StaticCallee(); f != nil && f.String() == "(*sync.WaitGroup).Add" {
								addBefore = true
							}
						}
					}
				}
				// Done on every exit: no return reachable without passing Done (explicit or deferred)
				deferred := false
				for _, b2 := range body.Blocks {
					for _, in2 := range b2.Instrs {
						if d, ok := in2.(*ssa.Defer); ok {
							if f := d.Call.StaticCallee(); f != nil && f.String() == "(*sync.WaitGroup).Done" {
								deferred = true
							}
						}
					}
				}
				missed := ""
				reachesWaitBeforeDone := ""
				if deferred {
					// a deferred Done runs after everything else in the goroutine: any Close/abort the
					// body calls waits for this very goroutine
					for _, b2 := range body.Blocks {
						for _, in2 := range b2.Instrs {
							if c, ok := in2.(*ssa.Call); ok {
								if f := c.Call.StaticCallee(); f != nil && (f.Name() == "abort" || f.Name() == "Close") && f.Pkg != nil && isModulePkg(f.Pkg.Pkg) {
									reachesWaitBeforeDone = p.pos(in2.Pos())
								}
							}
						}
					}
				}
				if !deferred {
					// blocks reachable from entry without passing a Done call
					isDone := func(in2 ssa.Instruction) bool {
						if c, ok := in2.(*ssa.Call); ok {
							if f := c.Call.StaticCallee(); f != nil && f.String() == "(*sync.WaitGroup).Done" {
								return true
							}
						}
						return false
					}
					seen := map[*ssa.BasicBlock]bool{}
					work := []*ssa.BasicBlock{body.Blocks[0]}
					for len(work) > 0 {
						x := work[len(work)-1]
						work = work[:len(work)-1]
						if seen[x] {
							continue
						}
						seen[x] = true
						passed := false
						for _, in2 := range x.Instrs {
							if isDone(in2) {
								passed = true
								break
							}
							if _, isRet := in2.(*ssa.Return); isRet {
								missed = p.pos(in2.Pos())
							}
							// a call that can reach Wait (Close/abort) before Done deadlocks
							if c, ok := in2.(*ssa.Call); ok {
								if f := c.Call.StaticCallee(); f != nil && (f.Name() == "abort" || f.Name() == "Close") {
									reachesWaitBeforeDone = p.pos(in2.Pos())
								}
							}
						}
						if !passed {
							work = append(work, x.Succs...)
						}
					}
				}
				switch {
				case !addBefore:
					r.Fail("waitgroup", key, g.Pos(), "goroutine calls WaitGroup.Done but no Add precedes the go statement")
				case missed != "":
					r.Fail("waitgroup", key, g.Pos(), "the goroutine can return (at %s) without calling WaitGroup.Done: Close waits forever", missed)
				case reachesWaitBeforeDone != "":
					r.Fail("waitgroup", key, g.Pos(), "the goroutine calls Close/abort (at %s) before its own WaitGroup.Done: Close waits for the goroutine that is waiting in Close", reachesWaitBeforeDone)
				default:
					r.OKf("waitgroup", key, g.Pos(), "Add precedes go; Done on every exit and before any Close/abort")
				}
			}
		}
	}
}

func c16PendingError(p *Program, r *Report) {
	fn := ssaMethod(p, "client", "inFlightRequestsHandler", "close")
	n, bad := 0, ""
	deletes := false
	for _, b := range fn.Blocks {
		for _, ins := range b.Instrs {
			c, ok := ins.(*ssa.Call)
			if !ok {
				continue
			}
			if bi, ok := c.Call.Value.(*ssa.Builtin); ok && bi.Name() == "delete" {
				deletes = true
			}
			f := c.Call.StaticCallee()
			if f == nil || f.Name() != "close" || f.Signature.Recv() == nil {
				continue
			}
			if nn := namedOf(f.Signature.Recv().Type()); nn == nil || nn.Obj().Name() != "inFlightRequest" {
				continue
			}
			n++
			if k, ok := c.Call.Args[1].(*ssa.Const); ok && k.IsNil() {
				bad = "pending requests are completed with a nil error when the handler closes: callers cannot tell the connection was lost"
			}
		}
	}
	switch {
	case n == 0:
		r.Fail("pending-error", "inFlightRequestsHandler.close", fn.Pos(), "closing the handler does not complete the pending requests")
	case bad != "":
		r.Fail("pending-error", "inFlightRequestsHandler.close", fn.Pos(), "%s", bad)
	case !deletes:
		r.Fail("pending-error", "inFlightRequestsHandler.close", fn.Pos(), "pending requests are not removed from the in-flight map")
	default:
		r.OKf("pending-error", "inFlightRequestsHandler.close", fn.Pos(), "every pending request is removed and completed with a non-nil error")
	}
	// inFlightRequest.close stores err and done and closes the channel under the lock
	rc := ssaMethod(p, "client", "inFlightRequest", "close")
	stores := map[string]bool{}
	for _, b := range rc.Blocks {
		for i, ins := range b.Instrs {
			if st, ok := ins.(*ssa.Store); ok {
				if _, fld, ok := fieldAddrOf(st.Addr); ok && len(locksetAt(rc, b, i)) > 0 {
					stores[fld.Name()] = true
				}
			}
		}
	}
	if stores["err"] && stores["done"] {
		r.OKf("pending-error", "inFlightRequest.close", rc.Pos(), "err and done are set under the request's lock")
	} else {
		r.Fail("pending-error", "inFlightRequest.close", rc.Pos(), "completing a request does not set both err and done under its lock (set: %s)", setStr(stores))
	}
}

func c16ClosedTest(p *Program, r *Report) {
	r.Floor("closed-test", 5)
	for _, typ := range []string{"CqlClientConnection", "CqlServerConnection"} {
		for _, name := range []string{"Send", "SendRaw", "Receive", "ReceiveEvent"} {
			m := p.TryMethod("client", typ, name)
			if m == nil {
				continue
			}
			fn := p.SSA().FuncValue(m)
			key := typ + "." + name
			// every channel operation / handler call is dominated by the false edge of IsClosed()
			var guard *ssa.BasicBlock
			for _, b := range fn.Blocks {
				if len(b.Instrs) == 0 {
					continue
				}
				if ifi, ok := b.Instrs[len(b.Instrs)-1].(*ssa.If); ok && condCallName(ifi.Cond) == "IsClosed" {
					guard = b.Succs[1]
				}
			}
			if name == "Receive" && typ == "CqlClientConnection" {
				// receives from the request's own channel, which the handler closes: no flag test needed
				r.OKf("closed-test", key, fn.Pos(), "reads the request's channel, closed with an error when the connection closes")
				continue
			}
			if guard == nil {
				r.Fail("closed-test", key, fn.Pos(), "%s does not test the closed flag: it may operate on channels that Close has set to nil / closed", key)
				continue
			}
			bad := ""
			for _, b := range fn.Blocks {
				for _, ins := range b.Instrs {
					switch ins.(type) {
					case *ssa.Select, *ssa.Send:
						if !guard.Dominates(b) {
							bad = p.pos(ins.Pos())
						}
					}
				}
			}
			if bad != "" {
				r.Fail("closed-test", key, fn.Pos(), "a channel operation at %s is not preceded by the closed-flag test", bad)
			} else {
				r.OKf("closed-test", key, fn.Pos(), "closed flag tested before any channel operation")
			}
		}
	}
}

func c16TimeoutRestart(p *Program, r *Report) {
	fn := ssaMethod(p, "client", "inFlightRequest", "resetTimeout")
	// every return is preceded on all paths by a call to startTimeout
	isStart := func(ins ssa.Instruction) bool {
		if c, ok := ins.(*ssa.Call); ok {
			if f := c.Call.StaticCallee(); f != nil && f.Name() == "startTimeout" {
				return true
			}
		}
		return false
	}
	missed := ""
	seen := map[*ssa.BasicBlock]bool{}
	work := []*ssa.BasicBlock{fn.Blocks[0]}
	for len(work) > 0 {
		x := work[len(work)-1]
		work = work[:len(work)-1]
		if seen[x] {
			continue
		}
		seen[x] = true
		passed := false
		for _, ins := range x.Instrs {
			if isStart(ins) {
				passed = true
				break
			}
			if _, ok := ins.(*ssa.Return); ok {
				missed = p.pos(ins.Pos())
			}
		}
		if !passed {
			work = append(work, x.Succs...)
		}
	}
	if _, isPtr := fn.Signature.Recv().Type().(*types.Pointer); !isPtr {
		r.Fail("timeout-restart", "inFlightRequest.resetTimeout", fn.Pos(), "resetTimeout has a value receiver: the restarted timer belongs to a copy of the request")
	} else if missed != "" {
		r.Fail("timeout-restart", "inFlightRequest.resetTimeout", fn.Pos(), "resetTimeout can return (at %s) without restarting the timer: after a non-final page the request has no timeout and never completes if the server goes silent", missed)
	} else {
		r.OKf("timeout-restart", "inFlightRequest.resetTimeout", fn.Pos(), "stops and unconditionally restarts the timer on the request itself")
	}
}

// c16SendClose: for every channel-typed field that is closed somewhere, each send on it must share
// a mutex with the close (or the channel must be closed only by the sending goroutine).
func c16SendClose(p *Program, r *Report) {
	type site struct {
		fn    *ssa.Function
		pos   token.Pos
		locks map[string]bool
		kind  string
	}
	closes := map[*types.Var][]site{}
	sends := map[*types.Var][]site{}
	chanField := func(v ssa.Value, fn *ssa.Function) *types.Var {
		if f, _ := fieldOfLoad(v); f != nil {
			return f
		}
		// close(local) where local was loaded from a field earlier in the function (Close copies the
		// field into a local before closing it)
		return nil
	}
	for _, fn := range clientFuncs(p) {
		for _, b := range fn.Blocks {
			for i, ins := range b.Instrs {
				switch x := ins.(type) {
				case *ssa.Call:
					if bi, ok := x.Call.Value.(*ssa.Builtin); ok && bi.Name() == "close" {
						if f := chanField(x.Call.Args[0], fn); f != nil {
							closes[f] = append(closes[f], site{fn, x.Pos(), locksetAt(fn, b, i), "close"})
						}
					}
				case *ssa.Send:
					if f := chanField(x.Chan, fn); f != nil {
						sends[f] = append(sends[f], site{fn, x.Pos(), locksetAt(fn, b, i), "send"})
					}
				case *ssa.Select:
					for _, st := range x.States {
						if st.Dir == types.SendOnly {
							if f := chanField(st.Chan, fn); f != nil {
								sends[f] = append(sends[f], site{fn, x.Pos(), locksetAt(fn, b, i), "select-send"})
							}
						}
					}
				}
			}
		}
	}
	// alias groups: fields initialised with the same channel value in a constructor literal
	alias := map[*types.Var]*types.Var{}
	for _, fn := range clientFuncs(p) {
		byVal := map[ssa.Value][]*types.Var{}
		for _, b := range fn.Blocks {
			for _, ins := range b.Instrs {
				if st, ok := ins.(*ssa.Store); ok {
					if base, fld, ok := fieldAddrOf(st.Addr); ok {
						if a, isAlloc := base.(*ssa.Alloc); isAlloc && a.Comment == "complit" {
							if _, isChan := fld.Type().Underlying().(*types.Chan); isChan {
								byVal[st.Val] = append(byVal[st.Val], fld)
							}
						}
					}
				}
			}
		}
		for _, fs := range byVal {
			for _, f := range fs[1:] {
				alias[f] = fs[0]
				alias[fs[0]] = fs[0]
			}
		}
	}
	rep := func(f *types.Var) *types.Var {
		if a, ok := alias[f]; ok {
			return a
		}
		return f
	}
	closesR := map[*types.Var][]site{}
	for f, ss := range closes {
		closesR[rep(f)] = append(closesR[rep(f)], ss...)
	}
	var fields []*types.Var
	for f := range sends {
		if len(closesR[rep(f)]) > 0 {
			fields = append(fields, f)
		}
	}
	sort.Slice(fields, func(i, j int) bool { return fields[i].Pos() < fields[j].Pos() })
	for _, f := range fields {
		for _, s := range sends[f] {
			// sends in the function that creates the channel happen before it is shared
			creates := false
			for _, b := range s.fn.Blocks {
				for _, ins := range b.Instrs {
					if st, ok := ins.(*ssa.Store); ok {
						if _, fld, ok := fieldAddrOf(st.Addr); ok && fld == f {
							if _, isMk := st.Val.(*ssa.MakeChan); isMk {
								creates = true
							}
						}
					}
				}
			}
			if creates {
				continue
			}
			// keyed by the entry through which the send is reached (exported method, goroutine
			// body, or the first function with several callers), so that extracting the send into
			// a helper does not turn a known finding into a new one, while a send from another
			// entry is a new finding
			key := fmt.Sprintf("%s send via %s", fieldOwner(p, f)+"."+f.Name(), fnKey(sendEntry(p, s.fn)))
			shared := false
			for _, c := range closesR[rep(f)] {
				for l := range c.locks {
					if s.locks[l] {
						shared = true
					}
				}
			}
			if shared {
				r.OKf("send-close", key, s.pos, "send and close share a mutex")
			} else {
				r.Fail("send-close", key, s.pos, "channel %s is closed by Close under no lock shared with this send: Send passes the closed test, Close closes the channel, the send then panics with 'send on closed channel'", f.Name())
			}
		}
	}
}

func fieldOwner(p *Program, f *types.Var) string {
	scope := p.Pkg("client").Types.Scope()
	for _, n := range scope.Names() {
		if tn, ok := scope.Lookup(n).(*types.TypeName); ok {
			if st, ok := tn.Type().Underlying().(*types.Struct); ok {
				for i := 0; i < st.NumFields(); i++ {
					if st.Field(i) == f {
						return tn.Name()
					}
				}
			}
		}
	}
	return "?"
}

var sendCallers map[*ssa.Function][]*ssa.Function

// sendEntry walks from fn up its unique static callers (same package, unexported, not a goroutine
// body) and returns the first function that is exported, anonymous, or has several callers.
func sendEntry(p *Program, fn *ssa.Function) *ssa.Function {
	if sendCallers == nil {
		sendCallers = map[*ssa.Function][]*ssa.Function{}
		for _, g := range p.ModuleFuncs() {
			for _, b := range g.Blocks {
				for _, ins := range b.Instrs {
					if ci, ok := ins.(ssa.CallInstruction); ok {
						if callee := ci.Common().StaticCallee(); callee != nil && callee.Pkg != nil && isModulePkg(callee.Pkg.Pkg) {
							dup := false
							for _, x := range sendCallers[callee] {
								if x == g {
									dup = true
								}
							}
							if !dup {
								sendCallers[callee] = append(sendCallers[callee], g)
							}
						}
					}
				}
			}
		}
	}
	cur := fn
	for i := 0; i < 6; i++ {
		if cur.Parent() != nil {
			return cur // a function literal (goroutine body, callback)
		}
		if obj := cur.Object(); obj != nil && obj.Exported() {
			return cur
		}
		cs := sendCallers[cur]
		if len(cs) != 1 {
			return cur
		}
		cur = cs[0]
	}
	return cur
}
