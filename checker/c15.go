package main

// C15: client and server exchange frames intact - structural conditions of the framing switch and
//      the segment paths.
// C16: connections terminate cleanly - discipline rules of the close / timeout / goroutine code.
//
//  C15 flag-clear        every function that wraps an encoded envelope into a segment assigns
//                        Header.Flags the result of Remove(COMPRESSED) before encoding it
//      discarded-result  no result of a side-effect-free Add/Remove/Contains flag method is discarded
//      field-init        every pointer/map/chan/func field of a client struct that some method
//                        dereferences is assigned by every constructor of that struct
//      modern-switch     modernLayout is set only under SupportsModernFramingLayout() and
//                        (READY | AUTHENTICATE), on both sides; the predicate's table equals the spec
//      accumulator       the multi-segment accumulator's reset() restores every field the reassembly
//                        mutates; the target length is header length + BodyLength of the first header;
//                        the self-contained path loops until the payload is exhausted
//  C16 value-receiver, close-once, cleanup-complete, waitgroup, pending-error, closed-test,
//      timeout-restart, send-close (known findings)

import (
	"fmt"
	"go/ast"
	"go/constant"
	"go/token"
	"go/types"
	"path/filepath"
	"sort"
	"strings"

	"golang.org/x/tools/go/ssa"
)

func init() {
	register("C15", "other", checkC15)
	register("C16", "other", checkC16)
}

func checkC15(p *Program, r *Report) {
	r.Explanation = "End-to-end exchange over sockets is not decidable statically. Decided: the structural conditions that the segment paths of client and server depend on - envelopes placed in segments have their per-envelope compression flag cleared by an assignment (a discarded result of a pure flag method is reported anywhere in the module), every pointer-like field a connection method dereferences is initialised by every constructor, the switch to segment framing happens only after READY/AUTHENTICATE for versions whose specification has the modern framing (predicate table checked against spec/capabilities.tsv), the reassembly accumulator is fully reset, its target is header length plus declared body length, and self-contained segments are drained completely."
	r.Trusted = []string{"go/ssa", "absint evaluator", "spec/capabilities.tsv row SupportsModernFramingLayout"}
	// segments and envelopes arrive in pieces on a socket: every read on the receive paths is exact
	fullReads(p, r, "full-reads", "client", "segment", "frame", "primitive")
	// v5 with LZ4 negotiated: every compressible payload must be decompressible (shared with C08)
	c08Rules(p, r)
	c15AccumulatorRefusal(p, r)

	// ---- flag-clear -------------------------------------------------------------------------------------
	r.Floor("flag-clear", 2)
	compressed := p.Pkg("primitive").Types.Scope().Lookup("HeaderFlagCompressed").(*types.Const)
	for _, fn := range clientFuncs(p) {
		// a function that calls EncodeSegment wraps envelopes into segments
		wraps := false
		var writeFrameCall ssa.CallInstruction
		for _, b := range fn.Blocks {
			for _, ins := range b.Instrs {
				if c, ok := ins.(ssa.CallInstruction); ok {
					if c.Common().IsInvoke() && c.Common().Method.Name() == "EncodeSegment" {
						wraps = true
					}
					if f := c.Common().StaticCallee(); f != nil && (f.Name() == "writeFrame") && writeFrameCall == nil {
						writeFrameCall = c
					}
					if c.Common().IsInvoke() && c.Common().Method.Name() == "EncodeFrame" && writeFrameCall == nil {
						writeFrameCall = c
					}
				}
			}
		}
		if !wraps {
			continue
		}
		key := fnKey(fn)
		if writeFrameCall == nil {
			r.Fail("flag-clear", key, fn.Pos(), "a segment is produced without encoding an envelope in this function")
			continue
		}
		ok := false
		for _, b := range fn.Blocks {
			for _, ins := range b.Instrs {
				st, isSt := ins.(*ssa.Store)
				if !isSt {
					continue
				}
				_, fld, isF := fieldAddrOf(st.Addr)
				if !isF || fld.Name() != "Flags" {
					continue
				}
				c, isCall := st.Val.(*ssa.Call)
				if !isCall {
					continue
				}
				f := c.Call.StaticCallee()
				if f == nil || f.Name() != "Remove" || len(c.Call.Args) != 2 {
					continue
				}
				if k, isK := c.Call.Args[1].(*ssa.Const); isK && k.Value != nil && constant.Compare(k.Value, token.EQL, compressed.Val()) {
					if b.Dominates(writeFrameCall.Block()) {
						ok = true
					}
				}
			}
		}
		if ok {
			r.OKf("flag-clear", key, fn.Pos(), "Header.Flags is assigned Remove(COMPRESSED) before the envelope is encoded into the segment")
		} else {
			r.Fail("flag-clear", key, fn.Pos(), "the envelope's Header.Flags is not assigned the result of Remove(HeaderFlagCompressed) before it is encoded into a segment: with compression negotiated, envelopes inside v5 segments are individually compressed")
		}
	}

	// ---- discarded results of pure flag methods ----------------------------------------------------
	nDisc := 0
	for _, fn := range p.ModuleFuncs() {
		for _, b := range fn.Blocks {
			for _, ins := range b.Instrs {
				c, ok := ins.(*ssa.Call)
				if !ok {
					continue
				}
				f := c.Call.StaticCallee()
				if f == nil || f.Pkg == nil || shortPkg(f.Pkg.Pkg) != "primitive" || f.Signature.Recv() == nil {
					continue
				}
				if f.Name() != "Add" && f.Name() != "Remove" {
					continue
				}
				if _, isPtr := f.Signature.Recv().Type().(*types.Pointer); isPtr {
					continue
				}
				nDisc++
				if refs := c.Referrers(); refs == nil || len(*refs) == 0 {
					r.Fail("discarded-result", fmt.Sprintf("%s %s#%d", fnKey(fn), f.Name(), nDisc), c.Pos(), "the result of the value-receiver method %s is discarded: the flag word is unchanged", f.String())
				}
			}
		}
	}
	r.OKf("discarded-result", "all Add/Remove calls", token.NoPos, "%d call sites use their result", nDisc)

	c15FieldInit(p, r)
	c15ModernSwitch(p, r)
	c15Accumulator(p, r)
}

// c15FieldInit: nil-able fields that methods dereference must be set by every constructor literal.
func c15FieldInit(p *Program, r *Report) {
	r.Floor("field-init", 20)
	pk := p.Pkg("client")
	// dereferenced fields: x.F used as call receiver / field base / channel / map
	deref := map[*types.Var]token.Pos{}
	for _, fn := range clientFuncs(p) {
		for _, b := range fn.Blocks {
			for _, ins := range b.Instrs {
				var used []ssa.Value
				switch x := ins.(type) {
				case *ssa.FieldAddr:
					used = append(used, x.X)
				case ssa.CallInstruction:
					if x.Common().IsInvoke() {
						used = append(used, x.Common().Value)
					} else if f := x.Common().StaticCallee(); f != nil && f.Signature.Recv() != nil && len(x.Common().Args) > 0 {
						used = append(used, x.Common().Args[0])
					} else if x.Common().StaticCallee() == nil {
						used = append(used, x.Common().Value) // func value call
					}
				case *ssa.Send:
					used = append(used, x.Chan)
				case *ssa.MapUpdate:
					used = append(used, x.Map)
				}
				for _, u := range used {
					if f, _ := fieldOfLoad(u); f != nil && f.Pkg() == pk.Types {
						if _, ok := deref[f]; !ok {
							deref[f] = ins.Pos()
						}
					}
				}
			}
		}
	}
	// constructor literals: Alloc of struct type with stores to fields in the same function
	type lit struct {
		fn     *ssa.Function
		alloc  *ssa.Alloc
		fields map[string]bool
	}
	lits := map[*types.Named][]*lit{}
	for _, fn := range clientFuncs(p) {
		for _, b := range fn.Blocks {
			for _, ins := range b.Instrs {
				a, ok := ins.(*ssa.Alloc)
				if !ok || a.Comment != "complit" {
					continue
				}
				n := namedOf(a.Type())
				if n == nil || n.Obj().Pkg() != pk.Types {
					continue
				}
				l := &lit{fn: fn, alloc: a, fields: map[string]bool{}}
				for _, b2 := range fn.Blocks {
					for _, in2 := range b2.Instrs {
						if st, ok := in2.(*ssa.Store); ok {
							if base, fld, ok := fieldAddrOf(st.Addr); ok && base == ssa.Value(a) {
								l.fields[fld.Name()] = true
							}
						}
					}
				}
				lits[n] = append(lits[n], l)
			}
		}
	}
	var fields []*types.Var
	for f := range deref {
		fields = append(fields, f)
	}
	sort.Slice(fields, func(i, j int) bool { return fields[i].Pos() < fields[j].Pos() })
	for _, f := range fields {
		switch f.Type().Underlying().(type) {
		case *types.Pointer, *types.Map, *types.Chan, *types.Signature, *types.Interface:
		default:
			continue
		}
		// owning struct
		var owner *types.Named
		for n := range lits {
			st := n.Underlying().(*types.Struct)
			for i := 0; i < st.NumFields(); i++ {
				if st.Field(i) == f {
					owner = n
				}
			}
		}
		if owner == nil {
			continue
		}
		key := owner.Obj().Name() + "." + f.Name()
		var missing []string
		for _, l := range lits[owner] {
			if !l.fields[f.Name()] {
				missing = append(missing, fnKey(l.fn))
			}
		}
		// fields legitimately assigned later (after construction) are listed with a reason
		if why, ok := lateInit[key]; ok {
			if strings.Contains(why, "tested against nil before use") {
				if site := unguardedDeref(p, f); site != "" {
					r.Fail("field-init", key, f.Pos(), "field %s may be nil (it is not set by every constructor) and is dereferenced at %s without a preceding nil test", key, site)
					continue
				}
			}
			r.OKf("field-init", key, f.Pos(), "assigned after construction: %s", why)
			continue
		}
		if len(missing) > 0 {
			r.Fail("field-init", key, f.Pos(), "field %s is dereferenced (e.g. at %s) but the constructor literal in %s never assigns it: the first use dereferences nil", key, p.pos(deref[f]), strings.Join(missing, ", "))
		} else {
			r.OKf("field-init", key, f.Pos(), "assigned by all %d constructor literals", len(lits[owner]))
		}
	}
}

// lateInit: fields set right after the literal in the constructor (confirmed by reading).
var lateInit = map[string]string{
	"CqlClientConnection.ctx":             "connection.ctx, connection.cancel = context.WithCancel(ctx) in newCqlClientConnection",
	"CqlClientConnection.cancel":          "see ctx",
	"CqlClientConnection.inFlightHandler": "assigned in newCqlClientConnection before the loops start",
	"CqlServerConnection.ctx":             "connection.ctx, connection.cancel = context.WithCancel(ctx) in newCqlServerConnection",
	"CqlServerConnection.cancel":          "see ctx",
	"CqlServer.ctx":                       "set in Start",
	"CqlServer.cancel":                    "set in Start",
	"CqlServer.listener":                  "set in Start",
	"CqlServer.connectionsHandler":        "set in Start",
	"CqlServer.waitGroup":                 "set in Start",
	"inFlightRequest.timeoutCtx":          "set by startTimeout",
	"inFlightRequest.timeoutCancel":       "set by startTimeout, tested against nil before use",
	"connectionHolder.conn":               "tested against nil before use",
	"response.responseFrame":              "variant struct: used only when rawResponse == nil (tested in outgoingLoop)",
	"response.rawResponse":                "variant struct: tested against nil before use",
}

func c15ModernSwitch(p *Program, r *Report) {
	r.Floor("modern-switch", 2)
	for _, typ := range []string{"CqlClientConnection", "CqlServerConnection"} {
		fn := ssaMethod(p, "client", typ, "maybeSwitchToModernLayout")
		key := typ + ".maybeSwitchToModernLayout"
		var store *ssa.Store
		for _, b := range fn.Blocks {
			for _, ins := range b.Instrs {
				if st, ok := ins.(*ssa.Store); ok {
					if _, fld, ok := fieldAddrOf(st.Addr); ok && fld.Name() == "modernLayout" {
						store = st
					}
				}
			}
		}
		if store == nil {
			r.Fail("modern-switch", key, fn.Pos(), "no store to modernLayout")
			continue
		}
		// conditions dominating the store: walk the dominator chain collecting calls whose true edge leads here
		var conds []string
		for d := store.Block(); d.Idom() != nil; d = d.Idom() {
			id := d.Idom()
			ifi, ok := id.Instrs[len(id.Instrs)-1].(*ssa.If)
			if !ok {
				continue
			}
			pol := id.Succs[0] == d || dominatesVia(id.Succs[0], d)
			desc := condCallName(ifi.Cond)
			if desc != "" {
				if !pol {
					desc = "!" + desc
				}
				conds = append(conds, desc)
			}
		}
		has := func(s string) bool {
			for _, c := range conds {
				if c == s {
					return true
				}
			}
			return false
		}
		switch {
		case !has("SupportsModernFramingLayout"):
			r.Fail("modern-switch", key, store.Pos(), "modernLayout is set without SupportsModernFramingLayout() holding (conditions %v)", conds)
		case !has("isReady") && !has("!isReady") || !(has("isReady") || has("isAuthenticate")):
			r.Fail("modern-switch", key, store.Pos(), "modernLayout is set without the frame being READY or AUTHENTICATE (conditions %v)", conds)
		default:
			r.OKf("modern-switch", key, store.Pos(), "set only under %v", conds)
		}
	}
	// the predicate's table (shared with C19)
	rows := readTSV(filepath.Join(verifDir(), "spec", "capabilities.tsv"))
	pe := newPenum(p)
	pvT := p.LookupType("primitive", "ProtocolVersion")
	m := methodOf(pvT, "SupportsModernFramingLayout")
	if m == nil {
		fatalf("anchor: SupportsModernFramingLayout")
	}
	for _, row := range rows {
		if row.cols[0] != "SupportsModernFramingLayout" {
			continue
		}
		for i, vc := range versionCols {
			want := strings.TrimSuffix(strings.TrimSpace(row.cols[2+i]), "~") == "T"
			rv := constVal(constant.MakeInt64(vc.val), pvT.Type())
			got, ok, why := pe.evalBool(m, &rv)
			key := "SupportsModernFramingLayout@" + vc.name
			if !ok {
				r.Fail("modern-switch", key, m.Pos(), "undecided: %s", why)
			} else if got != want {
				r.Fail("modern-switch", key, m.Pos(), "segment framing is %v for %s in the code but %v in the specification (%s): client and server of this library would both switch framing where a real peer does not", got, vc.name, want, row.cols[8])
			} else {
				r.OKf("modern-switch", key, m.Pos(), "%v", got)
			}
		}
	}
}

func dominatesVia(from, to *ssa.BasicBlock) bool {
	return len(from.Preds) == 1 && from.Dominates(to)
}

func condCallName(v ssa.Value) string {
	switch x := v.(type) {
	case *ssa.Call:
		if f := x.Call.StaticCallee(); f != nil {
			return f.Name()
		}
	case *ssa.UnOp:
		if x.Op == token.NOT {
			if s := condCallName(x.X); s != "" {
				return "!" + s
			}
		}
		if x.Op == token.MUL {
			if _, f, ok := fieldAddrOf(x.X); ok {
				return f.Name()
			}
		}
	}
	return ""
}

func c15Accumulator(p *Program, r *Report) {
	pk := p.Pkg("client")
	accT := p.LookupType("client", "payloadAccumulator")
	// fields mutated by the reassembly functions
	mutated := map[string]bool{}
	for _, fn := range clientFuncs(p) {
		if fn.Name() != "addMultiSegmentPayload" {
			continue
		}
		for _, b := range fn.Blocks {
			for _, ins := range b.Instrs {
				if st, ok := ins.(*ssa.Store); ok {
					if base, fld, ok := fieldAddrOf(st.Addr); ok {
						if n := namedOf(base.Type()); n != nil && n.Obj() == accT {
							mutated[fld.Name()] = true
						}
					}
				}
			}
		}
	}
	if len(mutated) == 0 {
		fatalf("anchor: addMultiSegmentPayload mutates no accumulator field")
	}
	reset := ssaMethod(p, "client", "payloadAccumulator", "reset")
	zeroed := map[string]bool{}
	for _, b := range reset.Blocks {
		for _, ins := range b.Instrs {
			if st, ok := ins.(*ssa.Store); ok {
				if _, fld, ok := fieldAddrOf(st.Addr); ok {
					if c, ok := st.Val.(*ssa.Const); ok && (c.IsNil() || (c.Value != nil && c.Value.Kind() == constant.Int && constant.Sign(c.Value) == 0)) {
						zeroed[fld.Name()] = true
					}
				}
			}
		}
	}
	for f := range mutated {
		key := "payloadAccumulator.reset clears " + f
		if zeroed[f] {
			r.OKf("accumulator", key, reset.Pos(), "restored to its zero value")
		} else {
			r.Fail("accumulator", key, reset.Pos(), "addMultiSegmentPayload mutates payloadAccumulator.%s but reset() does not restore it to its zero value: the second multi-segment envelope on a connection is reassembled against stale state", f)
		}
	}
	// target length = FrameHeaderLengthV3AndHigher + header.BodyLength, on both sides; reset before readFrame; loop until empty
	hdrLen := p.Pkg("primitive").Types.Scope().Lookup("FrameHeaderLengthV3AndHigher").(*types.Const)
	for _, fn := range clientFuncs(p) {
		switch fn.Name() {
		case "addMultiSegmentPayload":
			key := fnKey(fn) + " target"
			ok := false
			for _, b := range fn.Blocks {
				for _, ins := range b.Instrs {
					st, isSt := ins.(*ssa.Store)
					if !isSt {
						continue
					}
					if _, fld, isF := fieldAddrOf(st.Addr); !isF || fld.Name() != "targetLength" {
						continue
					}
					v := st.Val
					if cv, isCv := v.(*ssa.Convert); isCv {
						v = cv.X
					}
					if bo, isBo := v.(*ssa.BinOp); isBo && bo.Op == token.ADD {
						hasConst, hasLen := false, false
						for _, o := range []ssa.Value{bo.X, bo.Y} {
							if c, isC := o.(*ssa.Const); isC && c.Value != nil && constant.Compare(c.Value, token.EQL, hdrLen.Val()) {
								hasConst = true
							}
							if f, _ := fieldOfLoad(o); f != nil && f.Name() == "BodyLength" {
								hasLen = true
							}
						}
						if hasConst && hasLen {
							ok = true
						}
					}
				}
			}
			if ok {
				r.OKf("accumulator", key, fn.Pos(), "target = frame header length + BodyLength of the first header")
			} else {
				r.Fail("accumulator", key, fn.Pos(), "the reassembly target length is not FrameHeaderLengthV3AndHigher + header.BodyLength")
			}
		}
	}
	segmentDrainFor(p, r, "accumulator", "CqlClientConnection")
	segmentDrainFor(p, r, "accumulator", "CqlServerConnection")
	_ = pk
	_ = ast.IsExported
}

// unguardedDeref: a use of field f as a call receiver that is not dominated by a nil test of a
// load of the same field; returns the position or "".
func unguardedDeref(p *Program, f *types.Var) string {
	for _, fn := range clientFuncs(p) {
		for _, b := range fn.Blocks {
			for _, ins := range b.Instrs {
				var used ssa.Value
				switch x := ins.(type) {
				case ssa.CallInstruction:
					if x.Common().IsInvoke() {
						used = x.Common().Value
					} else if c := x.Common().StaticCallee(); c != nil && c.Signature.Recv() != nil && len(x.Common().Args) > 0 {
						used = x.Common().Args[0]
					} else if x.Common().StaticCallee() == nil {
						used = x.Common().Value
					}
				case *ssa.FieldAddr:
					used = x.X
				}
				if used == nil {
					continue
				}
				fld, base := fieldOfLoad(used)
				if fld != f {
					continue
				}
				// methods with a nil-safe pointer receiver test are out of reach; require a dominating test
				guarded := false
				for d := b; d.Idom() != nil && !guarded; d = d.Idom() {
					id := d.Idom()
					ifi, ok := id.Instrs[len(id.Instrs)-1].(*ssa.If)
					if !ok {
						continue
					}
					guarded = nilTestOf(ifi.Cond, f, base, id.Succs[0] == d || dominatesVia(id.Succs[0], d), 0)
				}
				if !guarded {
					return p.pos(ins.Pos())
				}
			}
		}
	}
	return ""
}

// nilTestOf: cond (taken with polarity onTrue) implies field f of base is non-nil.
func nilTestOf(cond ssa.Value, f *types.Var, base ssa.Value, onTrue bool, depth int) bool {
	if depth > 3 {
		return false
	}
	bo, ok := cond.(*ssa.BinOp)
	if !ok {
		return false
	}
	if bo.Op != token.NEQ && bo.Op != token.EQL {
		return false
	}
	for _, pair := range [][2]ssa.Value{{bo.X, bo.Y}, {bo.Y, bo.X}} {
		c, ok := pair[1].(*ssa.Const)
		if !ok || !c.IsNil() {
			continue
		}
		if fld, _ := fieldOfLoad(pair[0]); fld == f {
			return (bo.Op == token.NEQ) == onTrue
		}
	}
	return false
}

// segmentDrain: envelopes are read from a self-contained segment in a loop that runs while the
// payload reader is not empty (Len() > 0, Len() != 0 or Len() >= 1) - not once, and not while more
// than some number of bytes remain (an envelope with an empty body is only a header long).
func segmentDrain(r *Report, rule string, fn *ssa.Function) {
	key := fnKey(fn) + " drain"
	ok := false
	why := "a self-contained segment is not drained in a loop until payloadReader.Len() == 0: only its first envelope(s) are delivered"
	for _, b := range fn.Blocks {
		if len(b.Instrs) == 0 {
			continue
		}
		ifi, isIf := b.Instrs[len(b.Instrs)-1].(*ssa.If)
		if !isIf {
			continue
		}
		bo, isBo := ifi.Cond.(*ssa.BinOp)
		if !isBo {
			continue
		}
		c, isC := bo.X.(*ssa.Call)
		if !isC {
			continue
		}
		if f := c.Call.StaticCallee(); f == nil || f.String() != "(*bytes.Reader).Len" {
			continue
		}
		k, isK := bo.Y.(*ssa.Const)
		if !isK || k.Value == nil {
			continue
		}
		// the test sits on a cycle: its true branch leads back to it
		isLoop := false
		seen := map[*ssa.BasicBlock]bool{}
		work := []*ssa.BasicBlock{b.Succs[0]}
		for len(work) > 0 && !isLoop {
			x := work[len(work)-1]
			work = work[:len(work)-1]
			if x == b {
				isLoop = true
				break
			}
			if seen[x] {
				continue
			}
			seen[x] = true
			work = append(work, x.Succs...)
		}
		if !isLoop {
			continue
		}
		kv := k.Value.ExactString()
		if (bo.Op == token.GTR || bo.Op == token.NEQ) && kv == "0" || bo.Op == token.GEQ && kv == "1" {
			ok = true
		} else {
			why = fmt.Sprintf("the drain loop runs while payloadReader.Len() %s %s: envelopes that fit in the remaining bytes (an empty-body envelope is only a header long) are silently dropped", bo.Op, kv)
		}
	}
	if ok {
		r.OKf(rule, key, fn.Pos(), "envelopes are read from a self-contained segment until its payload is exhausted")
	} else {
		r.Fail(rule, key, fn.Pos(), "%s", why)
	}
}

// segmentDrainFor: the method(s) of the connection type that wrap a segment's uncompressed payload
// in a bytes.Reader (wherever that code lives after refactoring) drain it in a loop.
func segmentDrainFor(p *Program, r *Report, rule, typeName string) {
	named := p.LookupType("client", typeName).Type().(*types.Named)
	n := 0
	for _, fn := range p.ModuleFuncs() {
		recv := fn.Signature.Recv()
		if recv == nil || namedOf(recv.Type()) != named {
			continue
		}
		wraps := false
		for _, b := range fn.Blocks {
			for _, ins := range b.Instrs {
				if c, ok := ins.(*ssa.Call); ok {
					if f := c.Call.StaticCallee(); f != nil && f.String() == "bytes.NewReader" && len(c.Call.Args) == 1 {
						if u, ok := c.Call.Args[0].(*ssa.UnOp); ok {
							if _, fld, ok := fieldAddrOf(u.X); ok && fld.Name() == "UncompressedData" {
								wraps = true
							}
						}
					}
				}
			}
		}
		if !wraps {
			continue
		}
		// only the self-contained path reads envelopes straight from the payload
		hasLenLoop := false
		for _, b := range fn.Blocks {
			for _, ins := range b.Instrs {
				if c, ok := ins.(*ssa.Call); ok {
					if f := c.Call.StaticCallee(); f != nil && f.String() == "(*bytes.Reader).Len" {
						hasLenLoop = true
					}
				}
			}
		}
		if !hasLenLoop && !strings.Contains(strings.ToLower(fn.Name()), "selfcontained") {
			// e.g. the multi-segment accumulator peeks at the first header only
			continue
		}
		n++
		segmentDrain(r, rule, fn)
	}
	if n == 0 {
		r.Fail(rule, typeName+" drain", named.Obj().Pos(), "no method of %s reads envelopes from a self-contained segment's payload (bytes.NewReader over Payload.UncompressedData with a Len() test)", typeName)
	}
}

// c15AccumulatorRefusal: the reassembly of a frame from several segments gives up (returns abort =
// true itself, rather than passing on what the frame reader says) only because a callee reported an
// error. A condition on the declared body length or on the amount accumulated that aborts is a
// refusal of a legitimate large frame - the very frames that need several segments.
func c15AccumulatorRefusal(p *Program, r *Report) {
	n := 0
	for _, fn := range clientFuncs(p) {
		res := fn.Signature.Results()
		if res.Len() != 1 || !types.Identical(res.At(0).Type(), types.Typ[types.Bool]) {
			continue
		}
		decodes := false
		for _, b := range fn.Blocks {
			for _, ins := range b.Instrs {
				if c, ok := ins.(ssa.CallInstruction); ok && c.Common().IsInvoke() && c.Common().Method.Name() == "DecodeHeader" {
					decodes = true
				}
			}
		}
		if !decodes {
			continue
		}
		// blocks from which the constant true is returned
		var sites []*ssa.BasicBlock
		for _, b := range fn.Blocks {
			ret, ok := b.Instrs[len(b.Instrs)-1].(*ssa.Return)
			if !ok || len(ret.Results) != 1 {
				continue
			}
			switch v := ret.Results[0].(type) {
			case *ssa.Const:
				if v.Value != nil && v.Value.ExactString() == "true" {
					sites = append(sites, b)
				}
			case *ssa.Phi:
				for i, e := range v.Edges {
					if k, ok := e.(*ssa.Const); ok && k.Value != nil && k.Value.ExactString() == "true" {
						sites = append(sites, v.Block().Preds[i])
					}
				}
			}
		}
		for i, b := range sites {
			n++
			key := fmt.Sprintf("%s abort#%d", fnKey(fn), i+1)
			justified, cond := false, "no condition"
			for d := b; d.Idom() != nil; d = d.Idom() {
				id := d.Idom()
				ifi, isIf := id.Instrs[len(id.Instrs)-1].(*ssa.If)
				if !isIf {
					continue
				}
				onTrue := id.Succs[0] == d || (id.Succs[0].Dominates(d) && len(id.Succs[0].Preds) == 1)
				onFalse := id.Succs[1] == d || (id.Succs[1].Dominates(d) && len(id.Succs[1].Preds) == 1)
				if !onTrue && !onFalse {
					continue // b is reached on both branches: not the deciding test
				}
				cond = describeVal(ifi.Cond)
				if bo, isBo := ifi.Cond.(*ssa.BinOp); isBo && isErrorType(bo.X.Type()) {
					if k, isK := bo.Y.(*ssa.Const); isK && k.IsNil() {
						if (bo.Op == token.NEQ && onTrue) || (bo.Op == token.EQL && onFalse) {
							justified = true
						}
					}
				}
				break
			}
			if justified {
				r.OKf("accumulator-refusal", key, b.Instrs[len(b.Instrs)-1].Pos(), "gives up only on a callee's error")
			} else {
				r.Fail("accumulator-refusal", key, b.Instrs[len(b.Instrs)-1].Pos(), "%s gives up on a multi-segment frame on a condition of its own (%s) and not because a callee reported an error: a legitimate large frame - the kind that needs several segments - is refused and the connection closed", fn.Name(), cond)
			}
		}
	}
	if n == 0 {
		r.OKf("accumulator-refusal", "none", token.NoPos, "no accumulator returns abort on its own")
	}
}
