package main

// C11: structural necessary conditions of the value round trip (see DESIGN.md §3 C11).
//
//   type-symmetry     every Go type a codec accepts as a source (T or *T) is accepted as a
//                     destination (*T)
//   ...

import (
	"fmt"
	"go/ast"
	"go/token"
	"go/types"
	"os"
	"regexp"
	"sort"
	"strings"

	"golang.org/x/tools/go/ssa"
)

func init() { register("C11", "other", checkC11) }

// switchClauses lists the clause types of the (first) type switch in fn's body.
func switchClauses(p *Program, fn *types.Func) (out []types.Type, hasNil bool) {
	decl, pkg := p.Decl(fn)
	if decl == nil {
		return
	}
	ast.Inspect(decl.Body, func(n ast.Node) bool {
		ts, ok := n.(*ast.TypeSwitchStmt)
		if !ok || out != nil {
			return true
		}
		for _, c := range ts.Body.List {
			cc := c.(*ast.CaseClause)
			for _, e := range cc.List {
				tv := pkg.TypesInfo.Types[e]
				if tv.IsNil() {
					hasNil = true
					continue
				}
				if tv.Type != nil {
					out = append(out, tv.Type)
				}
			}
		}
		return false
	})
	return
}

// codecConversions: the convertTo*/convertFrom* functions a codec's Encode/Decode call.
func codecConversions(p *Program, T *types.Named) (to, from *types.Func) {
	find := func(m *types.Func, prefix string) *types.Func {
		fn := p.SSA().FuncValue(m)
		if fn == nil {
			return nil
		}
		for _, b := range fn.Blocks {
			for _, ins := range b.Instrs {
				if c, ok := ins.(*ssa.Call); ok {
					if f := c.Call.StaticCallee(); f != nil && strings.HasPrefix(f.Name(), prefix) {
						if o, ok := f.Object().(*types.Func); ok {
							return o
						}
					}
				}
			}
		}
		return nil
	}
	if m := methodOfNamed(T, "Encode"); m != nil {
		to = find(m, "convertTo")
	}
	if m := methodOfNamed(T, "Decode"); m != nil {
		from = find(m, "convertFrom")
	}
	return
}

func checkC11(p *Program, r *Report) {
	r.Explanation = "Structural necessary conditions of the value round trip, each decided for every codec, accepted Go type and container kind from the type-checked source: (type-symmetry) every Go type a codec accepts as a source is accepted as a destination; (conversion-purity) every clause of every convertTo*/convertFrom* yields a pure re-representation of its input - a chain of the module's conversion helpers (whose exactness C13 decides) and listed standard-library changes of representation, with no arithmetic, constant or unrelated value - and every destination type receives the decoded value; (element-pairing) container writers and readers agree on which codec handles the k-th [bytes] of an element, on its position, and on extractor/injector roles and null flags; (kind-symmetry) reflection kinds accepted as sources are accepted as destinations; (preferred-type) an untyped destination receives a value whose static type is the one PreferredGoType documents; (text-base) textual integer conversions use base 10 in both directions; (fresh-result) encoder results are never backed by pooled or package-level storage. Together with C12 (both directions match one layout), C13 (conversions exact or error) and C14 (NULL) these are the statically visible part of the round trip. The equality of values itself - in particular the arithmetic of the varint/vint coders - is not decided."
	r.Trusted = []string{"go/ssa", "provenance printer (checker/prov.go)", "listed standard-library representation changes (checker/c11.go pureStdlib)"}
	r.Floor("type-symmetry", 150)
	if os.Getenv("C11_DUMP") != "" {
		c11DumpContainers(p)
	}
	r.Floor("conversion-purity", 250)
	c11Pairing(p, r)
	c11Kinds(p, r)
	c11TextBase(p, r)
	c11Fresh(p, r)
	c11HelperTight(p, r)
	c11FreshElement(p, r)
	c14NullElement(p, r) // NULL elements survive the round trip (shared with C14)
	c11Preferred(p, r, c12CodecMap(p, newScratchReport(), loadValueSpec()))
	for _, tn := range codecImpls(p) {
		T := tn.Type().(*types.Named)
		to, from := codecConversions(p, T)
		if to == nil || from == nil {
			continue
		}
		if os.Getenv("C11_DUMP") != "" {
			c11Dump(p, to, from)
		}
		c11Purity(p, r, tn, to, from)
		src, _ := switchClauses(p, to)
		dst, _ := switchClauses(p, from)
		dset := map[string]bool{}
		for _, d := range dst {
			dset[types.TypeString(d, relQual)] = true
		}
		sort.Slice(src, func(i, j int) bool { return types.TypeString(src[i], relQual) < types.TypeString(src[j], relQual) })
		for _, s := range src {
			want := s
			if _, isPtr := s.Underlying().(*types.Pointer); !isPtr {
				want = types.NewPointer(s)
			}
			ws := types.TypeString(want, relQual)
			key := fmt.Sprintf("%s source %s", tn.Name(), types.TypeString(s, relQual))
			if dset[ws] {
				r.OKf("type-symmetry", key, to.Pos(), "%s accepts the destination %s", from.Name(), ws)
			} else {
				r.Fail("type-symmetry", key, from.Pos(), "%s accepts a source of type %s but %s has no clause for the destination %s: a value encoded from this representation cannot be decoded back into it", to.Name(), types.TypeString(s, relQual), from.Name(), ws)
			}
		}
	}
}

func c11DumpContainers(p *Program) {
	for _, name := range []string{"writeCollection", "readCollection", "writeMap", "readMap", "writeTuple", "readTuple", "writeUdt", "readUdt"} {
		fn := p.SSA().FuncValue(p.LookupFunc("datacodec", name))
		ctx := &provCtx{p: p, env: map[*ssa.Parameter]string{}, seen: map[ssa.Value]bool{}, noInline: true}
		for _, b := range fn.Blocks {
			for _, ins := range b.Instrs {
				call, ok := ins.(*ssa.Call)
				if !ok {
					continue
				}
				if f := call.Call.StaticCallee(); f != nil && f.Pkg != nil && shortPkg(f.Pkg.Pkg) == "primitive" && strings.HasSuffix(f.Name(), "Bytes") && strings.HasPrefix(f.Name(), "Write") {
					fmt.Fprintf(os.Stderr, "%s: %s <- %s\n", name, f.Name(), ctx.val(call.Call.Args[0]))
				}
				if call.Call.IsInvoke() && (call.Call.Method.Name() == "Decode" || call.Call.Method.Name() == "setElem") {
					fmt.Fprintf(os.Stderr, "%s: %s\n", name, ctx.call(call, 0))
				}
			}
		}
	}
}

func c11Dump(p *Program, to, from *types.Func) {
	fn := p.SSA().FuncValue(to)
	ctx := &provCtx{p: p, env: map[*ssa.Parameter]string{}, seen: map[ssa.Value]bool{}, noInline: true}
	for _, b := range fn.Blocks {
		if ret, ok := b.Instrs[len(b.Instrs)-1].(*ssa.Return); ok {
			for _, a := range splitAlts(ctx.val(ret.Results[0])) {
				fmt.Fprintf(os.Stderr, "%s: %s\n", to.Name(), a)
			}
		}
	}
	fn = p.SSA().FuncValue(from)
	for _, b := range fn.Blocks {
		for _, ins := range b.Instrs {
			if st, ok := ins.(*ssa.Store); ok {
				if ta := assertOf(st.Addr); ta != nil {
					fmt.Fprintf(os.Stderr, "%s: *%s = %s\n", from.Name(), types.TypeString(ta.AssertedType, relQual), ctx.val(st.Val))
				}
			}
		}
	}
}

func assertOf(v ssa.Value) *ssa.TypeAssert {
	switch x := v.(type) {
	case *ssa.TypeAssert:
		return x
	case *ssa.Extract:
		if ta, ok := x.Tuple.(*ssa.TypeAssert); ok && x.Index == 0 {
			return ta
		}
	}
	return nil
}

// ---------------------------------------------------------------------------------------------

var opRe = regexp.MustCompile(` (\+|-|\*|/|%|&|\||\^|<<|>>|&\^|==|!=|<|<=|>|>=) `)

// pureStdlib: standard-library functions a conversion clause may apply to its input; each maps
// its argument to another representation of the same value.
var pureStdlib = map[string]string{
	"math/big.NewInt": "int64 -> *big.Int, exact", "(*math/big.Int).SetUint64": "uint64 -> *big.Int, exact", "(*math/big.Int).SetInt64": "exact",
	"(*math/big.Int).Text": "decimal text of the integer", "(*math/big.Int).Set": "copy", "strconv.FormatInt": "decimal text",
	"net.ParseIP": "textual address", "(net.IP).To4": "same address, compact form", "(net.IP).String": "textual address",
	"(time.Time).Format": "textual time in the codec's layout", "(time.Time).In": "same instant", "(time.Time).UTC": "same instant",
	"github.com/datastax/go-cassandra-native-protocol/primitive.ParseUuid": "textual uuid", "(*github.com/datastax/go-cassandra-native-protocol/primitive.UUID).Bytes": "same 16 bytes", "(*github.com/datastax/go-cassandra-native-protocol/primitive.UUID).String": "textual uuid",
	"(*math/big.Int).SetString": "decimal text", "(*math/big.Float).SetFloat64": "exact", "time.Duration": "",
}

// c11Purity: every clause of convertTo*/convertFrom* yields a pure re-representation of its input.
func c11Purity(p *Program, r *Report, tn *types.TypeName, to, from *types.Func) {
	boolCodec := to.Name() == "convertToBoolean"
	check := func(expr, root string) string {
		e := strings.ReplaceAll(expr, root, "x")
		if strings.Contains(e, "?") {
			return "the expression could not be resolved (" + e + ")"
		}
		if !strings.Contains(e, "x") {
			return "the result does not depend on the input (" + e + ")"
		}
		if strings.Contains(e, "signcast<") {
			return "the value passes through a cast that changes its signedness without a range check (" + e + "): values above the signed maximum (or below zero) come out as different numbers"
		}
		if m := opRe.FindString(e); m != "" {
			return fmt.Sprintf("the value is computed with the operator%sinstead of being converted (%s)", m, e)
		}
		return ""
	}
	checkCalls := func(calls map[string]bool) string {
		var names []string
		for n := range calls {
			names = append(names, n)
		}
		sort.Strings(names)
		for _, name := range names {
			if _, ok := pureStdlib[name]; ok {
				continue
			}
			if strings.HasPrefix(name, "github.com/datastax/go-cassandra-native-protocol/datacodec.") {
				continue
			}
			// functions of side-effect-free value packages change representation only; what they
			// compute is outside the static claim (listed in the evidence)
			pure := false
			for _, pk := range []string{"strconv.", "math/big.", "(*math/big.", "(math/big.", "net.", "(net.", "(*net.", "time.", "(time.", "(*time.", "strings.", "unicode/utf8.", "math.", "encoding/hex.", "(*github.com/datastax/go-cassandra-native-protocol/primitive.", "(github.com/datastax/go-cassandra-native-protocol/primitive.", "github.com/datastax/go-cassandra-native-protocol/primitive."} {
				if strings.HasPrefix(name, pk) {
					pure = true
				}
			}
			if pure {
				continue
			}
			return fmt.Sprintf("applies %s, which is neither a conversion helper of package datacodec nor a listed change of representation", name)
		}
		return ""
	}
	// convertTo: alternatives of result 0
	fn := p.SSA().FuncValue(to)
	toCalls := map[string]bool{}
	ctx := &provCtx{p: p, env: map[*ssa.Parameter]string{}, seen: map[ssa.Value]bool{}, noInline: true, calls: toCalls, signCasts: true}
	srcParam := "$" + fn.Params[0].Name()
	rootRe := regexp.MustCompile(`\*?` + regexp.QuoteMeta(srcParam) + `\.\(([^()]|\([^()]*\))*\)`)
	seen := map[string]bool{}
	for _, b := range fn.Blocks {
		ret, ok := b.Instrs[len(b.Instrs)-1].(*ssa.Return)
		if !ok {
			continue
		}
		for _, a := range splitAlts(ctx.val(ret.Results[0])) {
			a = guardRe.ReplaceAllString(a, "")
			a = regexp.MustCompile(`\{len\([^{}]*\}`).ReplaceAllString(a, "")
			root := rootRe.FindString(a)
			cl := strings.TrimPrefix(root, "*")
			if i := strings.Index(cl, ".("); i >= 0 {
				cl = strings.TrimSuffix(cl[i+2:], ")")
			}
			key := fmt.Sprintf("%s case %s: %s", to.Name(), cl, strings.ReplaceAll(a, root, "x"))
			if len(key) > 150 {
				key = key[:150]
			}
			if seen[key] {
				continue
			}
			seen[key] = true
			if root == "" {
				if strings.HasPrefix(a, "convertTo") && strings.Contains(a, srcParam) {
					r.OKf("conversion-purity", key, to.Pos(), "delegates to %s", a)
					continue
				}
				if strings.HasPrefix(a, "u8(k:0)") {
					continue // zero value of an array result
				}
				r.Fail("conversion-purity", key, to.Pos(), "%s returns %s, which is not derived from the source value", to.Name(), a)
				continue
			}
			if boolCodec && strings.HasSuffix(strings.ReplaceAll(a, root, "x"), " != k:0)") {
				r.OKf("conversion-purity", key, to.Pos(), "documented numeric-to-boolean mapping (non-zero is true); not a round trip by design")
				continue
			}
			if why := check(a, root); why != "" {
				r.Fail("conversion-purity", key, to.Pos(), "%s: %s", to.Name(), why)
			} else {
				r.OKf("conversion-purity", key, to.Pos(), "pure conversion of the source")
			}
		}
	}
	if why := checkCalls(toCalls); why != "" {
		r.Fail("conversion-purity", to.Name()+" functions", to.Pos(), "%s %s", to.Name(), why)
	} else {
		r.OKf("conversion-purity", to.Name()+" functions", to.Pos(), "%d applied functions are conversion helpers or listed changes of representation", len(toCalls))
	}
	// convertFrom: stores through the asserted destination
	fn = p.SSA().FuncValue(from)
	fromCalls := map[string]bool{}
	ctx = &provCtx{p: p, env: map[*ssa.Parameter]string{}, seen: map[ssa.Value]bool{}, noInline: true, calls: fromCalls, signCasts: true}
	valParam := "$" + fn.Params[0].Name()
	perDest := map[string][]string{}
	for _, b := range fn.Blocks {
		for _, ins := range b.Instrs {
			if call, ok := ins.(*ssa.Call); ok {
				// the destination filled through a call: d.SetInt64(val), copy((*d)[:], val), helper(val, d)
				var dest *ssa.TypeAssert
				for _, a := range call.Call.Args {
					if sl, ok := a.(*ssa.Slice); ok {
						a = sl.X
					}
					if ta := assertOf(a); ta != nil {
						dest = ta
					}
				}
				if dest != nil && len(call.Call.Args) >= 2 {
					d := types.TypeString(dest.AssertedType, relQual)
					var others []string
					for _, a := range call.Call.Args {
						if sl, ok := a.(*ssa.Slice); ok && assertOf(sl.X) != nil || assertOf(a) != nil {
							continue
						}
						others = append(others, ctx.val(a))
					}
					if f := call.Call.StaticCallee(); f != nil {
						fromCalls[f.String()] = true
					}
					perDest[d] = append(perDest[d], strings.Join(others, ", "))
				}
				continue
			}
			st, ok := ins.(*ssa.Store)
			if !ok {
				continue
			}
			ta := assertOf(st.Addr)
			if ta == nil {
				continue
			}
			d := types.TypeString(ta.AssertedType, relQual)
			perDest[d] = append(perDest[d], guardRe.ReplaceAllString(ctx.val(st.Val), ""))
		}
	}
	if why := checkCalls(fromCalls); why != "" {
		r.Fail("conversion-purity", from.Name()+" functions", from.Pos(), "%s %s", from.Name(), why)
	} else {
		r.OKf("conversion-purity", from.Name()+" functions", from.Pos(), "%d applied functions are conversion helpers or listed changes of representation", len(fromCalls))
	}
	var ds []string
	for d := range perDest {
		ds = append(ds, d)
	}
	sort.Strings(ds)
	for _, d := range ds {
		key := fmt.Sprintf("%s case %s", from.Name(), d)
		bad, nVal := "", 0
		for _, e := range perDest[d] {
			if e == "nil" || e == "k:0" || e == `k:""` || e == "k:false" || e == "zero" || strings.HasPrefix(e, "{") && !strings.Contains(e, valParam) || strings.HasPrefix(e, "u8(k:0)") {
				continue // the zero value stored for NULL (C14 decides when)
			}
			if boolCodec && e == "k:1" {
				nVal++
				continue
			}
			nVal++
			if why := check(e, "*"+valParam); why != "" {
				if why2 := check(e, valParam); why2 != "" {
					bad = why2
				}
			}
		}
		if nVal == 0 {
			bad = "no store of the decoded value: a present value never reaches this destination type"
		}
		if bad != "" {
			r.Fail("conversion-purity", key, from.Pos(), "%s: %s", from.Name(), bad)
		} else {
			r.OKf("conversion-purity", key, from.Pos(), "stores a pure conversion of the decoded value")
		}
	}
}

// c11Pairing: writer and reader of a container agree on which codec handles the k-th [bytes] of an
// element and on the roles of what is extracted/injected.
func c11Pairing(p *Program, r *Report) {
	r.Floor("element-pairing", 4)
	pairs := [][2]string{{"writeCollection", "readCollection"}, {"writeMap", "readMap"}, {"writeTuple", "readTuple"}, {"writeUdt", "readUdt"}}
	norm := func(s string) string {
		// the injector may be obtained through the factory: $injectorFactory(<balanced>) -> $inj
		for {
			i := strings.Index(s, "$injectorFactory(")
			if i < 0 {
				break
			}
			depth, j := 0, i+len("$injectorFactory")
			for ; j < len(s); j++ {
				if s[j] == '(' {
					depth++
				} else if s[j] == ')' {
					depth--
					if depth == 0 {
						break
					}
				}
			}
			if j >= len(s) {
				break
			}
			s = s[:i] + "$inj" + s[j+1:]
		}
		// reads through a local reader over the source
		s = strings.ReplaceAll(s, "($reader)", "($source)")
		return s
	}
	for _, pr := range pairs {
		wf := p.SSA().FuncValue(p.LookupFunc("datacodec", pr[0]))
		rf := p.SSA().FuncValue(p.LookupFunc("datacodec", pr[1]))
		key := pr[0] + "/" + pr[1]
		type stage struct{ codec, item, src string }
		// writer stages per primitive writer kind
		wctx := &provCtx{p: p, env: map[*ssa.Parameter]string{}, seen: map[ssa.Value]bool{}, noInline: true}
		wst := map[string][]stage{}
		encRe := regexp.MustCompile(`^(.*)\.Encode\((.*), \$version\)$`)
		bad := ""
		for _, b := range wf.Blocks {
			for _, ins := range b.Instrs {
				call, ok := ins.(*ssa.Call)
				if !ok {
					continue
				}
				f := call.Call.StaticCallee()
				if f == nil || f.Pkg == nil {
					continue
				}
				record := func(name, e string) {
					m := encRe.FindStringSubmatch(e)
					if m == nil {
						bad = fmt.Sprintf("%s writes %s, which is not the encoding of an extracted element", pr[0], e)
						return
					}
					wst[name] = append(wst[name], stage{codec: m[1], item: m[2]})
				}
				if shortPkg(f.Pkg.Pkg) == "datacodec" && f.Blocks != nil && f.Signature.Recv() == nil {
					// a helper that does the writing: its Write*Bytes calls with parameters
					// replaced by the caller's arguments
					env := map[*ssa.Parameter]string{}
					for i, pp := range f.Params {
						if i < len(call.Call.Args) {
							env[pp] = wctx.val(call.Call.Args[i])
						}
					}
					hctx := wctx.child(env)
					for _, hb := range f.Blocks {
						for _, hi := range hb.Instrs {
							hc, ok := hi.(*ssa.Call)
							if !ok {
								continue
							}
							if hf := hc.Call.StaticCallee(); hf != nil && hf.Pkg != nil && shortPkg(hf.Pkg.Pkg) == "primitive" && strings.HasPrefix(hf.Name(), "Write") && strings.HasSuffix(hf.Name(), "Bytes") {
								record(hf.Name(), hctx.val(hc.Call.Args[0]))
							}
						}
					}
					continue
				}
				if shortPkg(f.Pkg.Pkg) != "primitive" || !strings.HasPrefix(f.Name(), "Write") || !strings.HasSuffix(f.Name(), "Bytes") {
					continue
				}
				record(f.Name(), wctx.val(call.Call.Args[0]))
			}
		}
		var ref []stage
		for _, k := range []string{"WriteBytes", "WriteShortBytes"} {
			if s, ok := wst[k]; ok {
				if ref == nil {
					ref = s
				} else if fmt.Sprint(ref) != fmt.Sprint(s) {
					bad = fmt.Sprintf("the [bytes] and [short bytes] branches of %s write different things: %v vs %v", pr[0], ref, s)
				}
			}
		}
		// reader stages
		rctx := &provCtx{p: p, env: map[*ssa.Parameter]string{}, seen: map[ssa.Value]bool{}}
		decRe := regexp.MustCompile(`^(.*)\.Decode\(((?:bytes|shortbytes)@(\d+)\(\$source\)(?: \| (?:bytes|shortbytes)@(\d+)\(\$source\))?), (.*), \$version\)$`)
		var rst []stage
		var seqs []string
		var setElem string
		for _, b := range rf.Blocks {
			for _, ins := range b.Instrs {
				call, ok := ins.(*ssa.Call)
				if !ok || !call.Call.IsInvoke() {
					continue
				}
				switch call.Call.Method.Name() {
				case "Decode":
					e := norm(rctx.call(call, 0))
					m := decRe.FindStringSubmatch(e)
					if m == nil {
						bad = fmt.Sprintf("%s decodes %s, which is not the k-th [bytes] read from the source", pr[1], e)
						continue
					}
					if m[4] != "" && m[4] != m[3] {
						bad = fmt.Sprintf("%s: the version branches read different positions (%s)", pr[1], m[2])
					}
					rst = append(rst, stage{codec: m[1], item: m[5], src: e})
					seqs = append(seqs, m[3])
				case "setElem":
					setElem = norm(rctx.call(call, 0))
				}
			}
		}
		if bad == "" {
			if len(ref) != len(rst) || len(ref) == 0 {
				bad = fmt.Sprintf("%s writes %d values per element, %s decodes %d", pr[0], len(ref), pr[1], len(rst))
			}
		}
		if bad == "" {
			for k := range ref {
				if ref[k].codec != rst[k].codec {
					bad = fmt.Sprintf("value %d of an element is encoded with %s but decoded with %s", k+1, ref[k].codec, rst[k].codec)
				}
				if seqs[k] != fmt.Sprint(k+1) {
					bad = fmt.Sprintf("value %d of an element is decoded from the %s-th [bytes] read", k+1, seqs[k])
				}
				want := strings.NewReplacer("$ext", "$inj", "getKey", "zeroKey", "getElem", "zeroElem").Replace(ref[k].item)
				if want != rst[k].item {
					bad = fmt.Sprintf("value %d of an element is extracted with %s but injected through %s (expected %s)", k+1, ref[k].item, rst[k].item, want)
				}
			}
		}
		if bad == "" {
			// setElem(i, key, decoded, keyWasNull, valueWasNull)
			var want string
			last := rst[len(rst)-1]
			inner := last.item[strings.Index(last.item, "(")+1 : len(last.item)-1] // "i, key"
			if len(rst) == 2 {
				want = fmt.Sprintf("$inj.setElem(%s, %s, %s, %s)", inner, last.item, rst[0].src, rst[1].src)
			} else {
				want = fmt.Sprintf("$inj.setElem(%s, %s, k:false, %s)", inner, last.item, rst[0].src)
			}
			if setElem != want {
				bad = fmt.Sprintf("%s injects with %s; expected %s (position, decoded element and its null flag in their roles)", pr[1], setElem, want)
			}
		}
		if bad != "" {
			r.Fail("element-pairing", key, rf.Pos(), "%s", bad)
		} else {
			r.OKf("element-pairing", key, rf.Pos(), "%d value(s) per element: same codec, same position, extractor/injector roles and null flags correspond", len(ref))
		}
	}
}

// c11Kinds: reflection kinds accepted as a source are accepted as a destination.
func c11Kinds(p *Program, r *Report) {
	r.Floor("kind-symmetry", 8)
	kinds := func(m *types.Func) (map[string]bool, bool) {
		decl, pkg := p.Decl(m)
		out := map[string]bool{}
		found := false
		if decl == nil {
			return out, false
		}
		ast.Inspect(decl.Body, func(n ast.Node) bool {
			sw, ok := n.(*ast.SwitchStmt)
			if !ok || sw.Tag == nil {
				return true
			}
			call, ok := ast.Unparen(sw.Tag).(*ast.CallExpr)
			if !ok {
				return true
			}
			sel, ok := call.Fun.(*ast.SelectorExpr)
			if !ok || sel.Sel.Name != "Kind" {
				return true
			}
			found = true
			for _, c := range sw.Body.List {
				for _, e := range c.(*ast.CaseClause).List {
					if se, ok := e.(*ast.SelectorExpr); ok {
						if o, ok := pkg.TypesInfo.Uses[se.Sel].(*types.Const); ok && o.Pkg().Path() == "reflect" {
							out[o.Name()] = true
						}
					}
				}
			}
			return true
		})
		return out, found
	}
	for _, tn := range codecImpls(p) {
		T := tn.Type().(*types.Named)
		ex, in := methodOfNamed(T, "createExtractor"), methodOfNamed(T, "createInjector")
		if ex == nil || in == nil {
			continue
		}
		sk, ok1 := kinds(ex)
		dk, ok2 := kinds(in)
		if !ok1 || !ok2 {
			r.Fail("kind-symmetry", tn.Name(), ex.Pos(), "no switch over the reflection kind found in createExtractor/createInjector")
			continue
		}
		var ks []string
		for k := range sk {
			ks = append(ks, k)
		}
		sort.Strings(ks)
		for _, k := range ks {
			key := fmt.Sprintf("%s %s", tn.Name(), k)
			if dk[k] {
				r.OKf("kind-symmetry", key, in.Pos(), "source kind %s is accepted as a destination", k)
			} else {
				r.Fail("kind-symmetry", key, in.Pos(), "%s.createExtractor accepts sources of kind %s but createInjector has no case for destinations of that kind", tn.Name(), k)
			}
		}
	}
}

// c11Preferred: decoding into *interface{} stores a value whose static type is the type
// PreferredGoType documents for the CQL type.
func c11Preferred(p *Program, r *Report, codecOf map[string][]*types.Named) {
	r.Floor("preferred-type", 20)
	fn := p.SSA().FuncValue(p.LookupFunc("datacodec", "PreferredGoType"))
	codeT := p.LookupType("primitive", "DataTypeCode").Type()
	names := map[string]string{}
	scope := p.Pkg("primitive").Types.Scope()
	for _, n := range scope.Names() {
		if c, ok := scope.Lookup(n).(*types.Const); ok && types.Identical(c.Type(), codeT) {
			names[c.Val().ExactString()] = strings.ToLower(strings.TrimPrefix(n, "DataTypeCode"))
		}
	}
	// static type behind a reflect.Type global: reflect.TypeOf(x) [.Elem()]
	var typeOfGlobal func(g *ssa.Global) types.Type
	typeOfGlobal = func(g *ssa.Global) types.Type {
		initFn := g.Pkg.Func("init")
		for _, b := range initFn.Blocks {
			for _, ins := range b.Instrs {
				st, ok := ins.(*ssa.Store)
				if !ok || st.Addr != g {
					continue
				}
				var resolve func(v ssa.Value) types.Type
				resolve = func(v ssa.Value) types.Type {
					call, ok := v.(*ssa.Call)
					if !ok {
						return nil
					}
					if f := call.Call.StaticCallee(); f != nil && f.String() == "reflect.TypeOf" {
						if mi, ok := call.Call.Args[0].(*ssa.MakeInterface); ok {
							return mi.X.Type()
						}
						return nil
					}
					if call.Call.IsInvoke() && call.Call.Method.Name() == "Elem" {
						if t := resolve(call.Call.Value); t != nil {
							if pt, ok := t.Underlying().(*types.Pointer); ok {
								return pt.Elem()
							}
						}
					}
					return nil
				}
				return resolve(st.Val)
			}
		}
		return nil
	}
	for _, b := range fn.Blocks {
		ifi, ok := b.Instrs[len(b.Instrs)-1].(*ssa.If)
		if !ok {
			continue
		}
		bo, ok := ifi.Cond.(*ssa.BinOp)
		if !ok || bo.Op != token.EQL {
			continue
		}
		k, ok := bo.Y.(*ssa.Const)
		if !ok || !types.Identical(k.Type(), codeT) {
			continue
		}
		name := names[k.Value.ExactString()]
		tb := b.Succs[0]
		var pref types.Type
		dynamic := false
		for _, ins := range tb.Instrs {
			if ret, ok := ins.(*ssa.Return); ok && len(ret.Results) > 0 {
				if ld, ok := ret.Results[0].(*ssa.UnOp); ok {
					if g, ok := ld.X.(*ssa.Global); ok {
						pref = typeOfGlobal(g)
					}
				}
			}
			if _, ok := ins.(*ssa.Call); ok {
				dynamic = true
			}
		}
		if pref == nil {
			if dynamic {
				r.OKf("preferred-type", name, ifi.Pos(), "computed from the element types (reflect.SliceOf/MapOf of the elements' preferred types)")
			} else {
				r.Fail("preferred-type", name, ifi.Pos(), "the preferred Go type of %s could not be resolved", name)
			}
			continue
		}
		for _, T := range codecOf[name] {
			_, from := codecConversions(p, T)
			if from == nil {
				// containers: createInjector must consult PreferredGoType for interface destinations
				inj := methodOfNamed(T, "createInjector")
				found := false
				if inj != nil {
					for _, bb := range p.SSA().FuncValue(inj).Blocks {
						for _, ins := range bb.Instrs {
							if c, ok := ins.(*ssa.Call); ok {
								if f := c.Call.StaticCallee(); f != nil && f.Name() == "PreferredGoType" {
									found = true
								}
							}
						}
					}
				}
				var storedT []types.Type
				if inj != nil && !found {
					for _, bb := range p.SSA().FuncValue(inj).Blocks {
						for _, ins := range bb.Instrs {
							if st, ok := ins.(*ssa.Store); ok {
								if ta := assertOf(st.Addr); ta != nil && types.TypeString(ta.AssertedType, nil) == "*interface{}" {
									if mi, ok := st.Val.(*ssa.MakeInterface); ok {
										storedT = append(storedT, mi.X.Type())
									}
								}
							}
						}
					}
				}
				if found {
					r.OKf("preferred-type", name, ifi.Pos(), "%s.createInjector builds interface destinations from PreferredGoType", T.Obj().Name())
				} else if len(storedT) > 0 {
					ok := true
					for _, t := range storedT {
						if !types.Identical(t, pref) {
							ok = false
							r.Fail("preferred-type", name, inj.Pos(), "%s.createInjector stores a %s into an untyped destination but PreferredGoType(%s) documents %s", T.Obj().Name(), types.TypeString(t, relQual), name, types.TypeString(pref, relQual))
						}
					}
					if ok {
						r.OKf("preferred-type", name, inj.Pos(), "untyped destination receives %s = PreferredGoType", types.TypeString(pref, relQual))
					}
				} else {
					r.Fail("preferred-type", name, ifi.Pos(), "%s does not consult PreferredGoType for untyped destinations", T.Obj().Name())
				}
				continue
			}
			ff := p.SSA().FuncValue(from)
			var stored []types.Type
			for _, bb := range ff.Blocks {
				for _, ins := range bb.Instrs {
					st, ok := ins.(*ssa.Store)
					if !ok {
						continue
					}
					ta := assertOf(st.Addr)
					if ta == nil || types.TypeString(ta.AssertedType, nil) != "*interface{}" {
						continue
					}
					if mi, ok := st.Val.(*ssa.MakeInterface); ok {
						stored = append(stored, mi.X.Type())
					}
				}
			}
			key := name
			bad := ""
			if len(stored) == 0 {
				bad = fmt.Sprintf("%s stores no value into an untyped destination", from.Name())
			}
			for _, t := range stored {
				if !types.Identical(t, pref) {
					bad = fmt.Sprintf("%s stores a %s into an untyped destination but PreferredGoType(%s) documents %s", from.Name(), types.TypeString(t, relQual), name, types.TypeString(pref, relQual))
				}
			}
			if bad != "" {
				r.Fail("preferred-type", key, from.Pos(), "%s", bad)
			} else {
				r.OKf("preferred-type", key, from.Pos(), "untyped destination receives %s = PreferredGoType", types.TypeString(pref, relQual))
			}
		}
	}
}

// c11TextBase: every textual integer conversion in package datacodec uses base 10 on both sides.
func c11TextBase(p *Program, r *Report) {
	r.Floor("text-base", 6)
	baseArg := map[string]int{"strconv.FormatInt": 1, "strconv.FormatUint": 1, "strconv.ParseInt": 1, "strconv.ParseUint": 1, "(*math/big.Int).Text": 1, "(*math/big.Int).SetString": 2}
	counter := map[string]int{}
	for _, fn := range p.ModuleFuncs() {
		if fn.Pkg == nil || shortPkg(fn.Pkg.Pkg) != "datacodec" {
			continue
		}
		for _, b := range fn.Blocks {
			for _, ins := range b.Instrs {
				c, ok := ins.(*ssa.Call)
				if !ok {
					continue
				}
				f := c.Call.StaticCallee()
				if f == nil {
					continue
				}
				idx, ok := baseArg[f.String()]
				if !ok || idx >= len(c.Call.Args) {
					continue
				}
				counter[fn.Name()+f.Name()]++
				key := fmt.Sprintf("%s -> %s#%d", fn.Name(), f.Name(), counter[fn.Name()+f.Name()])
				if k, ok := c.Call.Args[idx].(*ssa.Const); ok && k.Value != nil && k.Value.ExactString() == "10" {
					r.OKf("text-base", key, c.Pos(), "base 10")
				} else {
					r.Fail("text-base", key, c.Pos(), "%s is called with a base other than the constant 10: text written by one direction is not read back by the other", f.Name())
				}
			}
		}
	}
}

func newScratchReport() *Report {
	r := newReport("scratch", "other", "quick", nil)
	r.NoWrite = true
	return r
}

// c11Fresh: the bytes a value codec returns are never backed by storage that is reused: not by an
// object taken from a sync.Pool, nor by a package-level buffer. (An element encoded into such
// storage is overwritten by the next encoding while the caller still holds it.)
func c11Fresh(p *Program, r *Report) {
	r.Floor("fresh-result", 40)
	for _, fn := range p.ModuleFuncs() {
		if fn.Pkg == nil || shortPkg(fn.Pkg.Pkg) != "datacodec" {
			continue
		}
		res := fn.Signature.Results()
		if res.Len() == 0 || !isByteSlice(res.At(0).Type()) {
			continue
		}
		bad := ""
		seen := map[ssa.Value]bool{}
		var origin func(v ssa.Value)
		origin = func(v ssa.Value) {
			if seen[v] || bad != "" {
				return
			}
			seen[v] = true
			switch x := v.(type) {
			case *ssa.Phi:
				for _, e := range x.Edges {
					origin(e)
				}
			case *ssa.Slice:
				origin(x.X)
			case *ssa.ChangeType:
				origin(x.X)
			case *ssa.Extract:
				origin(x.Tuple)
			case *ssa.TypeAssert:
				origin(x.X)
			case *ssa.UnOp:
				if g, ok := x.X.(*ssa.Global); ok {
					bad = fmt.Sprintf("the result is backed by the package-level variable %s", g.Name())
					return
				}
				origin(x.X)
			case *ssa.FieldAddr:
				origin(x.X)
			case *ssa.Alloc:
				// a spilled local (results of functions with defer): what was stored into it
				for _, ref := range *x.Referrers() {
					if st, ok := ref.(*ssa.Store); ok && st.Addr == ssa.Value(x) {
						origin(st.Val)
					}
				}
			case *ssa.Global:
				bad = fmt.Sprintf("the result is backed by the package-level variable %s", x.Name())
			case *ssa.Call:
				f := x.Call.StaticCallee()
				if f == nil {
					return
				}
				switch f.String() {
				case "(*sync.Pool).Get":
					bad = "the result is backed by an object taken from a sync.Pool, which the next caller overwrites"
				case "(*bytes.Buffer).Bytes", "(*bytes.Buffer).Next":
					origin(x.Call.Args[0])
				}
				if b, ok := x.Call.Value.(*ssa.Builtin); ok && b.Name() == "append" {
					origin(x.Call.Args[0])
				}
			}
		}
		for _, b := range fn.Blocks {
			if ret, ok := b.Instrs[len(b.Instrs)-1].(*ssa.Return); ok && len(ret.Results) > 0 {
				origin(ret.Results[0])
			}
		}
		key := fnKey(fn)
		if bad != "" {
			r.Fail("fresh-result", key, fn.Pos(), "%s: %s", fn.Name(), bad)
		} else {
			r.OKf("fresh-result", key, fn.Pos(), "result is freshly allocated, the caller's own bytes or another function's result")
		}
	}
}

// c11HelperTight: a range-checked integer conversion helper accepts every value the target type
// can represent. (C13 decides the other direction: nothing outside the range is accepted.) A check
// that is too strict makes Encode accept a value that Decode then refuses - or the reverse.
func c11HelperTight(p *Program, r *Report) {
	r.Floor("helper-tight", 35)
	g := newGuards(p)
	for _, fn := range p.ModuleFuncs() {
		if fn.Pkg == nil || shortPkg(fn.Pkg.Pkg) != "datacodec" || fn.Signature.Recv() != nil {
			continue
		}
		sig := fn.Signature
		if sig.Results().Len() != 2 || !isErrorType(sig.Results().At(1).Type()) || !isIntType(sig.Results().At(0).Type()) {
			continue
		}
		if sig.Params().Len() < 1 || !isIntType(sig.Params().At(0).Type()) || len(fn.Blocks) == 0 {
			continue
		}
		if pos := p.Fset.Position(fn.Pos()); !strings.HasSuffix(pos.Filename, "conversions.go") {
			continue
		}
		param := fn.Params[0]
		entry := g.At(param, fn.Blocks[0])
		target := g.typeRange(sig.Results().At(0).Type())
		if sig.Params().Len() > 1 {
			// int64ToInt(val, intSize) style: the target width is a parameter; decided for the
			// widest case only (nothing may be rejected that fits 64 bits is not checkable here)
			r.OKf("helper-tight", fnKey(fn), fn.Pos(), "target width is a run-time parameter: not decided")
			continue
		}
		want := meet(entry, target)
		// union of the parameter's interval over the success returns
		var acc *Itv
		for _, b := range fn.Blocks {
			ret, ok := b.Instrs[len(b.Instrs)-1].(*ssa.Return)
			if !ok || len(ret.Results) != 2 {
				continue
			}
			if k, ok := ret.Results[1].(*ssa.Const); !ok || k.Value != nil {
				continue // an error return
			}
			it := g.At(param, b)
			if it.Bot {
				continue
			}
			if acc == nil {
				c := it
				acc = &c
			} else {
				j := join(*acc, it)
				acc = &j
			}
		}
		key := fnKey(fn)
		switch {
		case acc == nil:
			r.Fail("helper-tight", key, fn.Pos(), "%s has no success return", fn.Name())
		case want.Bot:
			r.OKf("helper-tight", key, fn.Pos(), "no caller value fits the target")
		case acc.Lo != nil && want.Lo != nil && acc.Lo.Cmp(want.Lo) > 0 || acc.Hi != nil && want.Hi != nil && acc.Hi.Cmp(want.Hi) < 0:
			r.Fail("helper-tight", key, fn.Pos(), "%s accepts only %s although every value in %s fits the target type %s: values the other direction produces are refused with 'out of range'", fn.Name(), acc, want, types.TypeString(sig.Results().At(0).Type(), relQual))
		default:
			r.OKf("helper-tight", key, fn.Pos(), "accepts %s = all of the target's range the source type can hold", acc)
		}
	}
}

// c11FreshElement: the decoding target an injector hands out for an element (zeroElem/zeroKey) is
// allocated by that very call. A target kept in the injector and handed out again makes nested
// collections decoded through it alias each other.
func c11FreshElement(p *Program, r *Report) {
	r.Floor("fresh-element", 5)
	for _, fn := range p.ModuleFuncs() {
		if fn.Pkg == nil || shortPkg(fn.Pkg.Pkg) != "datacodec" || fn.Signature.Recv() == nil {
			continue
		}
		if fn.Name() != "zeroElem" && fn.Name() != "zeroKey" || len(fn.Blocks) == 0 {
			continue
		}
		recv := fn.Params[0]
		bad := ""
		seen := map[ssa.Value]bool{}
		var fromRecv func(v ssa.Value) bool
		fromRecv = func(v ssa.Value) bool {
			switch x := v.(type) {
			case *ssa.Parameter:
				return x == recv
			case *ssa.FieldAddr:
				return fromRecv(x.X)
			case *ssa.UnOp:
				return fromRecv(x.X)
			case *ssa.IndexAddr:
				return fromRecv(x.X)
			}
			return false
		}
		var origin func(v ssa.Value)
		origin = func(v ssa.Value) {
			if seen[v] || bad != "" {
				return
			}
			seen[v] = true
			switch x := v.(type) {
			case *ssa.Const:
			case *ssa.MakeInterface:
				origin(x.X)
			case *ssa.Alloc:
				// new(T) in this call
			case *ssa.Phi:
				for _, e := range x.Edges {
					origin(e)
				}
			case *ssa.Extract:
				origin(x.Tuple)
			case *ssa.UnOp:
				if fromRecv(x.X) {
					bad = "the returned decoding target is read from the injector's own state (" + describeVal(x.X) + "): the same target is handed out for several elements"
				}
			case *ssa.Call:
				f := x.Call.StaticCallee()
				if f == nil {
					bad = "the returned target comes from a dynamic call"
					return
				}
				switch f.String() {
				case "(reflect.Value).Interface", "(reflect.Value).Addr", "(reflect.Value).Elem":
					origin(x.Call.Args[0])
				case "reflect.New", "reflect.Zero", "reflect.MakeSlice", "reflect.MakeMap", "reflect.MakeMapWithSize":
				default:
					if f.Pkg != nil && shortPkg(f.Pkg.Pkg) == "datacodec" {
						switch f.Name() {
						case "ensurePointer", "pointerTo":
							origin(x.Call.Args[0])
						case "nilSafeZero":
						default:
							bad = "the returned target comes from " + f.Name() + ", which is not a known allocator"
						}
					} else {
						bad = "the returned target comes from " + f.String() + ", which is not a known allocator"
					}
				}
			default:
				bad = fmt.Sprintf("the origin of the returned target (%T) is not recognised", v)
			}
		}
		for _, b := range fn.Blocks {
			if ret, ok := b.Instrs[len(b.Instrs)-1].(*ssa.Return); ok && len(ret.Results) > 0 {
				origin(ret.Results[0])
			}
		}
		key := fnKey(fn)
		if bad != "" {
			r.Fail("fresh-element", key, fn.Pos(), "%s", bad)
		} else {
			r.OKf("fresh-element", key, fn.Pos(), "every returned decoding target is allocated by the call")
		}
	}
}
