package main

// C18: codecs can be shared by concurrent goroutines - a sufficient structural condition.
//
//   write-free   from every codec / compressor entry point (methods of the types implementing the
//                frame, segment, message and datacodec codec interfaces and the compressors) no
//                reachable module function stores into memory that outlives the call and is shared
//                between calls: package-level variables, or objects whose type lies in the
//                field-type closure of the codec receivers / package variables, unless the object
//                was allocated by the storing function itself
//   global-use   package-level variables reachable from entry points are only read: never the
//                receiver of a mutating library method, never a sync.Pool used without discipline
//   pool         sync.Pool values obtained in a function are returned at most once per path
//   init-only    package-level codec variables are assigned only in initialisers

import (
	"fmt"
	"go/token"
	"go/types"
	"sort"
	"strings"

	"golang.org/x/tools/go/ssa"
)

func init() { register("C18", "other", checkC18) }

var codecIfaces = [][2]string{{"frame", "Codec"}, {"frame", "RawCodec"}, {"segment", "Codec"}, {"message", "Codec"}, {"datacodec", "Codec"}, {"frame", "BodyCompressor"}, {"segment", "PayloadCompressor"}}

// readOnlyMethods: library methods that do not write their receiver (one line of reason each).
var readOnlyMethods = map[string]string{
	"(*math/big.Int).Sign": "accessor", "(*math/big.Int).BitLen": "accessor", "(*math/big.Int).Cmp": "accessor",
	"(*math/big.Int).Int64": "accessor", "(*math/big.Int).Uint64": "accessor", "(*math/big.Int).IsInt64": "accessor",
	"(*math/big.Int).IsUint64": "accessor", "(*math/big.Int).Bytes": "accessor (fresh slice)", "(*math/big.Int).String": "accessor",
	"(*math/big.Int).Text": "accessor", "(*math/big.Float).Sign": "accessor",
	"(*time.Location).String": "accessor", "(time.Time).In": "value receiver",
	"(reflect.Type).Kind": "interface accessor",
	// sync.Map synchronises internally; what is *stored in it* is shared (see containerRoot)
	"(*sync.Map).Load": "synchronised", "(*sync.Map).Store": "synchronised", "(*sync.Map).LoadOrStore": "synchronised",
	"(*sync.Map).LoadAndDelete": "synchronised", "(*sync.Map).Delete": "synchronised", "(*sync.Map).Range": "synchronised",
	"(*sync.Map).Swap": "synchronised", "(*sync.Map).CompareAndSwap": "synchronised", "(*sync.Map).CompareAndDelete": "synchronised",
}

// containerRoot: v was taken out of a package-level synchronised container (sync.Map): the
// container is safe, the value is shared by everyone who loads it.
func containerRoot(v ssa.Value, depth int) *ssa.Global {
	if depth > 8 {
		return nil
	}
	switch x := v.(type) {
	case *ssa.TypeAssert:
		return containerRoot(x.X, depth+1)
	case *ssa.Extract:
		return containerRoot(x.Tuple, depth+1)
	case *ssa.Phi:
		for _, e := range x.Edges {
			if g := containerRoot(e, depth+1); g != nil {
				return g
			}
		}
	case *ssa.UnOp:
		if x.Op == token.MUL {
			return containerRoot(x.X, depth+1)
		}
	case *ssa.FieldAddr:
		return containerRoot(x.X, depth+1)
	case *ssa.IndexAddr:
		return containerRoot(x.X, depth+1)
	case *ssa.Call:
		if f := x.Call.StaticCallee(); f != nil && strings.HasPrefix(f.String(), "(*sync.Map).Load") && len(x.Call.Args) > 0 {
			return globalRoot(x.Call.Args[0], 0)
		}
	}
	return nil
}

func checkC18(p *Program, r *Report) {
	r.Explanation = "A sufficient condition for thread-safety decided on SSA over everything reachable (VTA call graph; CHA in the thorough tier) from the codec and compressor entry points: no store or map update into a package-level variable or into an object of a type held (transitively) by a codec instance or a package variable, unless that object was allocated by the storing function; package-level variables are never handed to a mutating library method; sync.Pool values are returned at most once per path; package-level codec variables are assigned only by initialisers. If it holds, concurrent calls touch only per-call memory. Schedules themselves are not explored; third-party internals are trusted at the call boundary."
	r.Trusted = []string{"go/ssa, VTA call graph", "allow-list of read-only library methods (checker/c18.go)", "third-party code does not keep references to its arguments"}
	r.Assumptions = []string{"frames, segments, values and destination pointers passed as arguments are per-call objects owned by the caller (distinct frames / values per goroutine, as the property states)"}
	poolHygiene(p, r, "pool-hygiene")
	cg := p.CallGraphVTA()
	if r.Tier == "thorough" {
		cg = p.CallGraphCHA()
	}
	// entry points and receiver types
	var ifaces []*types.Interface
	for _, pi := range codecIfaces {
		ifaces = append(ifaces, p.LookupType(pi[0], pi[1]).Type().Underlying().(*types.Interface))
	}
	ifaceMethod := map[string]bool{}
	for _, it := range ifaces {
		for i := 0; i < it.NumMethods(); i++ {
			ifaceMethod[it.Method(i).Name()] = true
		}
	}
	var recvTypes []types.Type
	var entries []*ssa.Function
	prog := p.SSA()
	for _, pk := range p.Pkgs {
		scope := pk.Types.Scope()
		for _, name := range scope.Names() {
			tn, ok := scope.Lookup(name).(*types.TypeName)
			if !ok {
				continue
			}
			if _, isI := tn.Type().Underlying().(*types.Interface); isI {
				continue
			}
			for _, t := range []types.Type{tn.Type(), types.NewPointer(tn.Type())} {
				impl := false
				for _, it := range ifaces {
					if types.Implements(t, it) {
						impl = true
					}
				}
				if !impl {
					continue
				}
				recvTypes = append(recvTypes, tn.Type())
				ms := prog.MethodSets.MethodSet(t)
				for i := 0; i < ms.Len(); i++ {
					if !ifaceMethod[ms.At(i).Obj().Name()] {
						continue // configuration setters etc. are not concurrent codec operations
					}
					if fn := prog.MethodValue(ms.At(i)); fn != nil && fn.Blocks != nil {
						entries = append(entries, fn)
					} else if fn != nil {
						// promoted / wrapper: follow to the declared method
						if obj, ok := ms.At(i).Obj().(*types.Func); ok {
							if f2 := prog.FuncValue(obj); f2 != nil && f2.Blocks != nil {
								entries = append(entries, f2)
							}
						}
					}
				}
				break
			}
		}
	}
	if len(entries) < 100 {
		fatalf("only %d codec entry points found", len(entries))
	}
	r.Extra["entry_points"] = len(entries)

	// shared type closure: struct types reachable from codec receiver types and package variables
	shared := map[types.Type]bool{}
	var addType func(t types.Type, depth int)
	addType = func(t types.Type, depth int) {
		if depth > 12 {
			return
		}
		switch u := t.(type) {
		case *types.Named:
			if shared[u] {
				return
			}
			if u.Obj().Pkg() != nil && !isModulePkg(u.Obj().Pkg()) {
				return // library types are handled by the global-use rule
			}
			shared[u] = true
			addType(u.Underlying(), depth+1)
		case *types.Pointer:
			addType(u.Elem(), depth+1)
		case *types.Slice:
			addType(u.Elem(), depth+1)
		case *types.Array:
			addType(u.Elem(), depth+1)
		case *types.Map:
			addType(u.Key(), depth+1)
			addType(u.Elem(), depth+1)
		case *types.Struct:
			for i := 0; i < u.NumFields(); i++ {
				addType(u.Field(i).Type(), depth+1)
			}
		case *types.Interface:
			// a codec held behind an interface: every module implementation
			for _, rt := range recvTypes {
				if types.Implements(rt, u) || types.Implements(types.NewPointer(rt), u) {
					addType(rt, depth+1)
				}
			}
			// data types held behind datatype.DataType
			for _, pk := range p.Pkgs {
				if shortPkg(pk.Types) != "datatype" {
					continue
				}
				for _, n := range pk.Types.Scope().Names() {
					if tn, ok := pk.Types.Scope().Lookup(n).(*types.TypeName); ok {
						if _, isI := tn.Type().Underlying().(*types.Interface); !isI && u.NumMethods() > 0 && (types.Implements(tn.Type(), u) || types.Implements(types.NewPointer(tn.Type()), u)) {
							addType(tn.Type(), depth+1)
						}
					}
				}
			}
		}
	}
	for _, t := range recvTypes {
		addType(t, 0)
	}
	for _, pk := range p.Pkgs {
		if shortPkg(pk.Types) == "client" {
			continue
		}
		for _, n := range pk.Types.Scope().Names() {
			if v, ok := pk.Types.Scope().Lookup(n).(*types.Var); ok {
				addType(v.Type(), 0)
			}
		}
	}
	r.Extra["shared_types"] = len(shared)

	// reachable functions
	reach := map[*ssa.Function]bool{}
	var stack []*ssa.Function
	for _, e := range entries {
		if !reach[e] {
			reach[e] = true
			stack = append(stack, e)
		}
	}
	for len(stack) > 0 {
		f := stack[len(stack)-1]
		stack = stack[:len(stack)-1]
		for _, an := range f.AnonFuncs {
			if !reach[an] {
				reach[an] = true
				stack = append(stack, an)
			}
		}
		if n := cg.Nodes[f]; n != nil {
			for _, e := range n.Out {
				c := e.Callee.Func
				if c == nil || reach[c] || c.Blocks == nil {
					continue
				}
				pk := c.Package()
				if pk == nil && c.Parent() != nil {
					pk = c.Parent().Package()
				}
				if pk == nil || !isModulePkg(pk.Pkg) {
					continue
				}
				reach[c] = true
				stack = append(stack, c)
			}
		}
	}
	r.Extra["reachable_functions"] = len(reach)
	var fns []*ssa.Function
	for f := range reach {
		fns = append(fns, f)
	}
	sort.Slice(fns, func(i, j int) bool { return fns[i].String() < fns[j].String() })
	r.Floor("write-free", 250)

	for _, fn := range fns {
		var problems []string
		for _, b := range fn.Blocks {
			for _, ins := range b.Instrs {
				switch x := ins.(type) {
				case *ssa.Store:
					if g := containerRoot(x.Addr, 0); g != nil {
						problems = append(problems, fmt.Sprintf("%s: store into an object taken out of the package-level sync.Map %s, which every goroutine that loads it shares", p.pos(x.Pos()), g.Name()))
					}
					if why := sharedStore(x.Addr, shared, fn); why != "" {
						problems = append(problems, fmt.Sprintf("%s: store to %s", p.pos(x.Pos()), why))
					}
				case *ssa.MapUpdate:
					if g := containerRoot(x.Map, 0); g != nil {
						problems = append(problems, fmt.Sprintf("%s: update of a map taken out of the package-level sync.Map %s: the container is synchronised, the map stored in it is shared by every goroutine that loads it", p.pos(x.Pos()), g.Name()))
					}
					if why := sharedRoot(x.Map, shared, fn, 0); why != "" {
						isShared := globalRoot(x.Map, 0) != nil
						if fa, ok := baseFieldAddr(x.Map); ok {
							st := fa.X.Type().Underlying().(*types.Pointer).Elem()
							if n, ok := st.(*types.Named); ok && shared[n] {
								isShared = true
							}
						}
						if isShared {
							problems = append(problems, fmt.Sprintf("%s: map update on %s", p.pos(x.Pos()), why))
						}
					}
				case ssa.CallInstruction:
					cc := x.Common()
					// the address of a field of a shared object handed to a callee that may write through it
					for ai, a := range cc.Args {
						av := a
						if mi, ok := av.(*ssa.MakeInterface); ok {
							av = mi.X
						}
						fa, ok := av.(*ssa.FieldAddr)
						if !ok {
							continue
						}
						why := sharedStore(fa, shared, fn)
						if why == "" {
							continue
						}
						if sf := cc.StaticCallee(); sf != nil {
							if _, ro := readOnlyMethods[sf.String()]; ro && ai == 0 {
								continue
							}
							if strings.HasPrefix(sf.String(), "(*sync.Mutex).") || strings.HasPrefix(sf.String(), "(*sync.RWMutex).") || strings.HasPrefix(sf.String(), "sync/atomic.") || strings.HasPrefix(sf.String(), "(*sync/atomic.") {
								continue // synchronisation primitives are meant to be shared
							}
						}
						problems = append(problems, fmt.Sprintf("%s: the address of %s is handed to a call that may write through it (state kept in the shared object between calls)", p.pos(x.Pos()), why))
					}
					f := cc.StaticCallee()
					if f == nil || f.Pkg == nil || isModulePkg(f.Pkg.Pkg) || f.Signature.Recv() == nil || len(cc.Args) == 0 {
						continue
					}
					// library method: is the receiver a package-level variable (or loaded from one)?
					if g := globalRoot(cc.Args[0], 0); g != nil {
						if _, isPtr := f.Signature.Recv().Type().(*types.Pointer); !isPtr {
							continue
						}
						if _, ok := readOnlyMethods[f.String()]; ok {
							continue
						}
						if f.String() == "(*sync.Pool).Get" || f.String() == "(*sync.Pool).Put" {
							continue // pool rule below
						}
						problems = append(problems, fmt.Sprintf("%s: package-level variable %s is the receiver of %s, which may write it", p.pos(x.Pos()), g.Name(), f.String()))
					}
				}
			}
		}
		key := fnKey(fn)
		if len(problems) > 0 {
			r.Fail("write-free", key, fn.Pos(), "%s", strings.Join(problems, "; "))
		} else {
			r.OKf("write-free", key, fn.Pos(), "no store to shared memory")
		}
		c18Pool(p, r, fn)
	}
	c18InitOnly(p, r)
}

func globalRoot(v ssa.Value, depth int) *ssa.Global {
	if depth > 8 {
		return nil
	}
	switch x := v.(type) {
	case *ssa.Global:
		return x
	case *ssa.UnOp:
		if x.Op == token.MUL {
			return globalRoot(x.X, depth+1)
		}
	case *ssa.FieldAddr:
		return globalRoot(x.X, depth+1)
	case *ssa.IndexAddr:
		return globalRoot(x.X, depth+1)
	case *ssa.ChangeType:
		return globalRoot(x.X, depth+1)
	case *ssa.MakeInterface:
		return globalRoot(x.X, depth+1)
	}
	return nil
}

// sharedStore: the address written denotes shared memory; returns a description or "".
func sharedStore(addr ssa.Value, shared map[types.Type]bool, fn *ssa.Function) string {
	switch x := addr.(type) {
	case *ssa.Global:
		if x.Pkg != nil && isModulePkg(x.Pkg.Pkg) && fn.Name() != "init" {
			return "package variable " + x.Name()
		}
		return ""
	case *ssa.FieldAddr:
		st := x.X.Type().Underlying().(*types.Pointer).Elem()
		if why := sharedRoot(x.X, shared, fn, 0); why != "" {
			if n, ok := st.(*types.Named); ok && shared[n] {
				f := st.Underlying().(*types.Struct).Field(x.Field)
				return fmt.Sprintf("field %s.%s of %s", n.Obj().Name(), f.Name(), why)
			}
			if g := globalRoot(x.X, 0); g != nil {
				return "memory of package variable " + g.Name()
			}
		}
		return ""
	case *ssa.IndexAddr:
		if g := globalRoot(x.X, 0); g != nil {
			return "element of package variable " + g.Name()
		}
		// element of a slice/array held by a shared object
		if why := sharedRoot(x.X, shared, fn, 0); why != "" {
			if fa, ok := baseFieldAddr(x.X); ok {
				st := fa.X.Type().Underlying().(*types.Pointer).Elem()
				if n, ok := st.(*types.Named); ok && shared[n] {
					return fmt.Sprintf("element of %s.%s of %s", n.Obj().Name(), st.Underlying().(*types.Struct).Field(fa.Field).Name(), why)
				}
			}
		}
		return ""
	}
	return ""
}

func baseFieldAddr(v ssa.Value) (*ssa.FieldAddr, bool) {
	for i := 0; i < 4; i++ {
		switch x := v.(type) {
		case *ssa.UnOp:
			if x.Op == token.MUL {
				v = x.X
				continue
			}
		case *ssa.FieldAddr:
			return x, true
		}
		break
	}
	return nil, false
}

// sharedRoot: the pointer may denote an object that outlives the call: not allocated by fn itself.
// Returns a description of the root ("receiver", "parameter x", "package variable y") or "" when
// the object is call-local.
func sharedRoot(v ssa.Value, shared map[types.Type]bool, fn *ssa.Function, depth int) string {
	if depth > 10 {
		return "unknown"
	}
	switch x := v.(type) {
	case *ssa.Alloc, *ssa.MakeSlice, *ssa.MakeMap, *ssa.MakeChan:
		return ""
	case *ssa.Global:
		return "package variable " + x.Name()
	case *ssa.Parameter:
		return "parameter " + x.Name()
	case *ssa.FreeVar:
		return "captured " + x.Name()
	case *ssa.FieldAddr:
		return sharedRoot(x.X, shared, fn, depth+1)
	case *ssa.IndexAddr:
		return sharedRoot(x.X, shared, fn, depth+1)
	case *ssa.UnOp:
		if x.Op == token.MUL {
			// a pointer loaded from memory: from a local cell -> the values stored there
			if a, ok := x.X.(*ssa.Alloc); ok {
				res := ""
				for _, ref := range *a.Referrers() {
					if st, ok := ref.(*ssa.Store); ok && st.Addr == ssa.Value(a) {
						if w := sharedRoot(st.Val, shared, fn, depth+1); w != "" {
							res = w
						}
					}
				}
				return res
			}
			return sharedRoot(x.X, shared, fn, depth+1)
		}
	case *ssa.Phi:
		for _, e := range x.Edges {
			if w := sharedRoot(e, shared, fn, depth+1); w != "" {
				return w
			}
		}
		return ""
	case *ssa.Call:
		// result of a call: a constructor allocates; anything else is unknown -> treat by type only
		return "call result"
	case *ssa.Extract:
		return "call result"
	case *ssa.ChangeType:
		return sharedRoot(x.X, shared, fn, depth+1)
	case *ssa.TypeAssert:
		return sharedRoot(x.X, shared, fn, depth+1)
	case *ssa.MakeInterface:
		return sharedRoot(x.X, shared, fn, depth+1)
	case *ssa.Slice:
		return sharedRoot(x.X, shared, fn, depth+1)
	case *ssa.Lookup:
		return sharedRoot(x.X, shared, fn, depth+1)
	case *ssa.Const:
		return ""
	}
	return "unknown"
}

// c18Pool: every value obtained from a package-level sync.Pool is returned at most once on every
// path of the function (explicit and deferred Put calls counted together).
func c18Pool(p *Program, r *Report, fn *ssa.Function) {
	var gets []*ssa.Call
	for _, b := range fn.Blocks {
		for _, ins := range b.Instrs {
			if c, ok := ins.(*ssa.Call); ok {
				if f := c.Call.StaticCallee(); f != nil && f.String() == "(*sync.Pool).Get" {
					gets = append(gets, c)
				}
			}
		}
	}
	if len(gets) == 0 {
		return
	}
	key := fnKey(fn)
	// count Put sites per block; a path passing through two Put sites of the pool (deferred counts at
	// every return) returns the value twice
	putBlocks := map[*ssa.BasicBlock]int{}
	deferred := 0
	for _, b := range fn.Blocks {
		for _, ins := range b.Instrs {
			switch x := ins.(type) {
			case *ssa.Call:
				if f := x.Call.StaticCallee(); f != nil && f.String() == "(*sync.Pool).Put" {
					putBlocks[b]++
				}
			case *ssa.Defer:
				if f := x.Call.StaticCallee(); f != nil && f.String() == "(*sync.Pool).Put" {
					deferred++
				}
			}
		}
	}
	bad := ""
	if deferred > 0 && len(putBlocks) > 0 {
		bad = "a value obtained from a sync.Pool is returned by a deferred Put and, on some path, also by an explicit Put: two goroutines can then receive the same object"
	}
	for b, n := range putBlocks {
		if n > 1 {
			bad = fmt.Sprintf("two Put calls in one block at %s", p.pos(b.Instrs[0].Pos()))
		}
		// another put block reachable from this one
		seen := map[*ssa.BasicBlock]bool{b: true}
		work := append([]*ssa.BasicBlock(nil), b.Succs...)
		for len(work) > 0 {
			x := work[len(work)-1]
			work = work[:len(work)-1]
			if seen[x] {
				continue
			}
			seen[x] = true
			if putBlocks[x] > 0 {
				bad = "a path passes through two Put calls for the same sync.Pool"
			}
			work = append(work, x.Succs...)
		}
	}
	if bad != "" {
		r.Fail("pool", key, fn.Pos(), "%s", bad)
	} else {
		r.OKf("pool", key, fn.Pos(), "pooled value returned at most once per path")
	}
}

// c18InitOnly: package-level variables of the codec packages are assigned only in initialisers.
func c18InitOnly(p *Program, r *Report) {
	n := 0
	for _, fn := range p.ModuleFuncs() {
		pk := fn.Package()
		if pk == nil || shortPkg(pk.Pkg) == "client" {
			continue
		}
		if fn.Name() == "init" || strings.HasPrefix(fn.Name(), "init#") {
			continue
		}
		for _, b := range fn.Blocks {
			for _, ins := range b.Instrs {
				if st, ok := ins.(*ssa.Store); ok {
					if g, ok := st.Addr.(*ssa.Global); ok && g.Pkg != nil && isModulePkg(g.Pkg.Pkg) {
						n++
						r.Fail("init-only", g.Name()+" in "+fnKey(fn), st.Pos(), "package-level variable %s is assigned outside an initialiser", g.Name())
					}
				}
			}
		}
	}
	if n == 0 {
		r.OKf("init-only", "all package variables", token.NoPos, "no package-level variable of the codec packages is assigned outside init")
	}
}

// poolHygiene: an object taken from a sync.Pool that carries content (it has a Reset or Truncate
// method) is cleaned before its first use, or cleaned on every way back into the pool. Otherwise
// what one call left in it (for instance a partial encoding after an error) leaks into the next.
// Decided for every function of the module; the rule name is supplied by the caller.
func poolHygiene(p *Program, r *Report, rule string) {
	n := 0
	for _, fn := range p.ModuleFuncs() {
		for _, b := range fn.Blocks {
			for _, ins := range b.Instrs {
				get, ok := ins.(*ssa.Call)
				if !ok {
					continue
				}
				if f := get.Call.StaticCallee(); f == nil || f.String() != "(*sync.Pool).Get" {
					continue
				}
				n++
				key := fmt.Sprintf("%s Get#%d", fnKey(fn), n)
				// the typed object(s)
				var objs []ssa.Value
				for _, ref := range *get.Referrers() {
					switch x := ref.(type) {
					case *ssa.TypeAssert:
						if x.CommaOk {
							for _, r2 := range *x.Referrers() {
								if ex, ok := r2.(*ssa.Extract); ok && ex.Index == 0 {
									objs = append(objs, ex)
								}
							}
						} else {
							objs = append(objs, x)
						}
					}
				}
				if len(objs) == 0 {
					r.OKf(rule, key, get.Pos(), "pooled value is not used as a typed object")
					continue
				}
				// pooled memory must not outlive the call: nothing derived from the pooled object is
				// returned or stored into another object
				{
					derived := map[ssa.Value]bool{}
					var mark func(v ssa.Value)
					escape := ""
					mark = func(v ssa.Value) {
						if derived[v] {
							return
						}
						derived[v] = true
						for _, ref := range *v.Referrers() {
							switch x := ref.(type) {
							case *ssa.Slice:
								mark(x)
							case *ssa.Phi:
								mark(x)
							case *ssa.ChangeType:
								mark(x)
							case *ssa.Convert:
								mark(x)
							case *ssa.Call:
								if f := x.Call.StaticCallee(); f != nil && (f.String() == "(*bytes.Buffer).Bytes" || f.String() == "(*bytes.Buffer).Next") && len(x.Call.Args) > 0 && x.Call.Args[0] == v {
									mark(x)
								}
							case *ssa.Return:
								escape = fmt.Sprintf("%s: memory of the pooled object is returned to the caller", p.pos(x.Pos()))
							case *ssa.Store:
								if x.Val == v {
									if _, local := x.Addr.(*ssa.Alloc); !local {
										escape = fmt.Sprintf("%s: memory of the pooled object is stored into %s", p.pos(x.Pos()), describeVal(x.Addr))
									}
								}
							}
						}
					}
					for _, o := range objs {
						mark(o)
					}
					if escape != "" {
						r.Fail(rule, key+" escape", get.Pos(), "%s, yet the object goes back into the pool: the next caller overwrites data that is still in use", escape)
						continue
					}
				}
				for _, v := range objs {
					hasReset := false
					if ms := p.SSA().MethodSets.MethodSet(v.Type()); ms != nil {
						for _, name := range []string{"Reset", "Truncate"} {
							for i := 0; i < ms.Len(); i++ {
								if ms.At(i).Obj().Name() == name {
									hasReset = true
								}
							}
						}
					}
					if !hasReset {
						r.OKf(rule, key, get.Pos(), "pooled %s carries no resettable content", types.TypeString(v.Type(), relQual))
						continue
					}
					var resets, uses []ssa.Instruction
					deferredPutNoReset := false
					closureCleans := false
					directPuts := 0
					var visit func(val ssa.Value)
					seen := map[ssa.Value]bool{}
					visit = func(val ssa.Value) {
						if seen[val] {
							return
						}
						seen[val] = true
						for _, ref := range *val.Referrers() {
							switch x := ref.(type) {
							case *ssa.DebugRef:
							case *ssa.MakeInterface:
								visit(x)
							case *ssa.Defer:
								if f := x.Call.StaticCallee(); f != nil && f.String() == "(*sync.Pool).Put" {
									deferredPutNoReset = true
								} else {
									uses = append(uses, x)
								}
							case *ssa.MakeClosure:
								// a deferred closure that resets and puts
								if cf, ok := x.Fn.(*ssa.Function); ok {
									rs, pt := false, false
									for _, cb := range cf.Blocks {
										for _, ci := range cb.Instrs {
											if c, ok := ci.(*ssa.Call); ok {
												if f := c.Call.StaticCallee(); f != nil {
													if f.Name() == "Reset" || f.Name() == "Truncate" {
														rs = true
													}
													if f.String() == "(*sync.Pool).Put" && rs {
														pt = true
													}
												}
											}
										}
									}
									if rs && pt {
										closureCleans = true
									} else {
										uses = append(uses, x)
									}
								}
							case *ssa.Call:
								f := x.Call.StaticCallee()
								switch {
								case f != nil && (f.Name() == "Reset" || f.Name() == "Truncate") && len(x.Call.Args) > 0 && x.Call.Args[0] == val:
									resets = append(resets, x)
								case f != nil && f.String() == "(*sync.Pool).Put":
									directPuts++
									uses = append(uses, x)
								default:
									uses = append(uses, x)
								}
							case ssa.Instruction:
								uses = append(uses, x)
							}
						}
					}
					visit(v)
					before := func(a, b ssa.Instruction) bool {
						if a.Block() == b.Block() {
							return instrIndex(a) < instrIndex(b)
						}
						return a.Block().Dominates(b.Block())
					}
					cleanAtGet := false
					for _, rs := range resets {
						all := true
						for _, u := range uses {
							if !before(rs, u) {
								all = false
							}
						}
						if all {
							cleanAtGet = true
						}
					}
					cleanAtPut := closureCleans && !deferredPutNoReset
					if !cleanAtPut && !deferredPutNoReset && directPuts > 0 {
						// every direct Put immediately follows a Reset in its block
						ok := true
						for _, u := range uses {
							c, isCall := u.(*ssa.Call)
							if !isCall {
								continue
							}
							if f := c.Call.StaticCallee(); f == nil || f.String() != "(*sync.Pool).Put" {
								continue
							}
							found := false
							for _, rs := range resets {
								if rs.Block() == c.Block() && instrIndex(rs) < instrIndex(c) {
									found = true
								}
							}
							if !found {
								ok = false
							}
						}
						cleanAtPut = ok
					}
					switch {
					case cleanAtGet:
						r.OKf(rule, key, get.Pos(), "the pooled object is reset before its first use")
					case cleanAtPut:
						r.OKf(rule, key, get.Pos(), "the pooled object is reset on every way back into the pool")
					default:
						r.Fail(rule, key, get.Pos(), "%s takes a %s from a sync.Pool and neither resets it before its first use nor on every path that puts it back (a deferred Put runs on the error exits too): what a failed call left in it is prepended to the next caller's data", fn.Name(), types.TypeString(v.Type(), relQual))
					}
				}
			}
		}
	}
	if n == 0 {
		r.OKf(rule, "no-pool", token.NoPos, "the module takes nothing from a sync.Pool")
	}
}

// receiverReadOnly: the methods of the given codec type only *read* their receiver: every address
// of a receiver field is used by loads alone - never stored through, never handed to a call. A
// codec that keeps scratch state between calls makes one encoding depend on the previous one.
func receiverReadOnly(p *Program, r *Report, rule, pkg, typeName string) {
	tn := p.LookupType(pkg, typeName)
	named := tn.Type().(*types.Named)
	n := 0
	for _, fn := range p.ModuleFuncs() {
		recv := fn.Signature.Recv()
		if recv == nil || namedOf(recv.Type()) != named || len(fn.Blocks) == 0 || len(fn.Params) == 0 {
			continue
		}
		if strings.HasPrefix(fn.Name(), "Set") {
			// configuration setters (frame codec: SetBodyCompressor) are the documented way to change
			// a codec and are not called by the encode/decode paths
			r.OKf(rule, fnKey(fn), fn.Pos(), "configuration setter: exempt")
			continue
		}
		n++
		rp := fn.Params[0]
		bad := ""
		for _, b := range fn.Blocks {
			for _, ins := range b.Instrs {
				fa, ok := ins.(*ssa.FieldAddr)
				if !ok || fa.X != ssa.Value(rp) {
					continue
				}
				fname := fieldName(fa.X.Type(), fa.Field)
				for _, ref := range *fa.Referrers() {
					switch x := ref.(type) {
					case *ssa.UnOp, *ssa.DebugRef:
					case *ssa.Store:
						if x.Addr == ssa.Value(fa) {
							bad = fmt.Sprintf("%s: the method assigns its receiver's field %s", p.pos(x.Pos()), fname)
						}
					default:
						bad = fmt.Sprintf("%s: the address of the receiver's field %s is used by %T (handed on or written through): the codec keeps state between calls", p.pos(ref.Pos()), fname, ref)
					}
				}
			}
		}
		key := fnKey(fn)
		if bad != "" {
			r.Fail(rule, key, fn.Pos(), "%s", bad)
		} else {
			r.OKf(rule, key, fn.Pos(), "receiver fields are only read")
		}
	}
	if n == 0 {
		r.Fail(rule, pkg+"."+typeName, tn.Pos(), "no methods found")
	}
}
