package main

// C13: numeric conversions in the CQL value codecs never lose information silently.
//
// For every numeric conversion instruction in package datacodec whose target type cannot represent
// every value of the operand's type (narrowing, sign change, int->float beyond the mantissa,
// float->int, float64->float32) the operand's interval at that point (guards engine) must lie in
// the target's range, or the conversion must be one of the enumerated lossless idioms
// (serialisation reinterpretation next to binary.BigEndian, the float32 round-trip test, the
// documented date offset wrap). 64-bit + - * in functions reachable from Encode/Decode must fit or
// live in the exact-arithmetic helpers.

import (
	"fmt"
	"go/token"
	"go/types"
	"math/big"
	"sort"
	"strings"

	"golang.org/x/tools/go/ssa"
)

func init() { register("C13", "other", checkC13); multiArch["C13"] = true }

func isFloatType(t types.Type) bool {
	b, ok := t.Underlying().(*types.Basic)
	return ok && b.Info()&types.IsFloat != 0
}

func checkC13(p *Program, r *Report) {
	r.Explanation = "Every numeric conversion site in package datacodec that is not value-preserving by type is decided by interval analysis of its operand under the dominating range checks (or matched against a short list of lossless idioms, each named in the evidence); 64-bit additions, subtractions and multiplications on codec paths must provably fit or be inside the exact-arithmetic helpers. Decides absence of silent wrap/truncation at the conversion sites; does not decide the arithmetic of the exact helpers, string parsing, or big.Float rounding."
	r.Trusted = []string{"go/ssa", "interval domain (checker/guards.go)", "stdlib post-conditions: strconv.ParseInt(_,_,bits), time.Time accessors, (*big.Int).IsInt64 => Int64 exact"}
	r.Assumptions = []string{"exact-arithmetic helpers addExact/multiplyExact/floorDiv/floorMod are correct (trusted, listed)", "GOARCH of the run decides the width of int/uint (quick: amd64; thorough repeats on 386)"}
	g := newGuards(p)
	r.Floor("narrowing", 65)
	var fns []*ssa.Function
	for _, fn := range p.ModuleFuncs() {
		pk := fn.Package()
		if pk == nil && fn.Parent() != nil {
			pk = fn.Parent().Package()
		}
		if pk == nil || shortPkg(pk.Pkg) != "datacodec" {
			continue
		}
		fns = append(fns, fn)
	}
	sort.Slice(fns, func(i, j int) bool { return fns[i].String() < fns[j].String() })
	nTrivial := 0
	for _, fn := range fns {
		counter := map[string]int{}
		for _, b := range fn.Blocks {
			for _, ins := range b.Instrs {
				cv, ok := ins.(*ssa.Convert)
				if !ok {
					continue
				}
				from, to := cv.X.Type(), cv.Type()
				fi, ti := isIntType(from), isIntType(to)
				ff, tf := isFloatType(from), isFloatType(to)
				if !(fi || ff) || !(ti || tf) {
					continue
				}
				if _, isConst := cv.X.(*ssa.Const); isConst {
					continue
				}
				kind := fmt.Sprintf("%s->%s", types.TypeString(from, relQual), types.TypeString(to, relQual))
				counter[kind]++
				key := fmt.Sprintf("%s %s#%d", fnKey(fn), kind, counter[kind])
				switch {
				case fi && ti:
					tr := g.typeRange(to)
					if g.typeRange(from).within(tr) {
						nTrivial++
						continue // widening: value-preserving by type
					}
					it := g.At(cv.X, b)
					if it.within(tr) {
						r.OKf("narrowing", key, cv.Pos(), "operand in %s fits %s", it, types.TypeString(to, relQual))
						continue
					}
					if why := serialisationIdiom(cv); why != "" {
						r.OKf("narrowing", key, cv.Pos(), "lossless idiom: %s", why)
						continue
					}
					r.Fail("narrowing", key, cv.Pos(), "conversion %s of %s whose range %s is not contained in the target type: the value can wrap or change sign without an error", kind, describeVal(cv.X), it)
				case ff && tf:
					if sizeofFloat(to) >= sizeofFloat(from) {
						nTrivial++
						continue
					}
					if floatRoundTripGuarded(cv) {
						r.OKf("narrowing", key, cv.Pos(), "lossless idiom: float64(float32(x)) == x tested on the same operand")
					} else {
						r.Fail("narrowing", key, cv.Pos(), "float64 -> float32 conversion without the round-trip test")
					}
				case fi && tf:
					// exact iff |x| < 2^mantissa
					it := g.At(cv.X, b)
					m := uint(53)
					if sizeofFloat(to) == 4 {
						m = 24
					}
					lim := pow2(m)
					okr := Itv{Lo: new(big.Int).Neg(lim), Hi: lim}
					if it.within(okr) {
						r.OKf("narrowing", key, cv.Pos(), "operand in %s is exactly representable", it)
					} else if intToFloatGuarded(cv) {
						r.OKf("narrowing", key, cv.Pos(), "lossless idiom: converted value compared back with the operand")
					} else {
						r.Fail("narrowing", key, cv.Pos(), "integer -> %s conversion of %s with range %s can round", types.TypeString(to, relQual), describeVal(cv.X), it)
					}
				case ff && ti:
					if floatToIntGuarded(cv) {
						r.OKf("narrowing", key, cv.Pos(), "lossless idiom: converted value compared back with the operand")
					} else {
						r.Fail("narrowing", key, cv.Pos(), "float -> integer conversion can truncate")
					}
				}
			}
		}
	}
	r.Extra["value_preserving_conversions_skipped"] = nTrivial
	c13Arith(p, r, g, fns)
	c13Flags(p, r, fns)
}

func sizeofFloat(t types.Type) int {
	if b, ok := t.Underlying().(*types.Basic); ok && (b.Kind() == types.Float32) {
		return 4
	}
	return 8
}

// serialisationIdiom: same-width reinterpretation used only to (de)serialise: the result feeds
// binary.BigEndian.PutUintN / math.FloatNbits-style calls, or the operand comes from UintN.
func serialisationIdiom(cv *ssa.Convert) string {
	fb, _, ok1 := intBits(cv.X.Type())
	tb, _, ok2 := intBits(cv.Type())
	if !ok1 || !ok2 || fb != tb {
		return ""
	}
	if c, ok := cv.X.(*ssa.Call); ok {
		if f := c.Call.StaticCallee(); f != nil && strings.HasPrefix(f.String(), "(encoding/binary.bigEndian).Uint") {
			return "operand is binary.BigEndian." + f.Name() + " (two's-complement reinterpretation of wire bytes)"
		}
	}
	// a wire byte read from / written into a []byte
	if u, ok := cv.X.(*ssa.UnOp); ok && u.Op == token.MUL {
		if ia, ok := u.X.(*ssa.IndexAddr); ok && isByteSlice(ia.X.Type()) {
			return "operand is an element of a []byte (reinterpretation of a wire byte)"
		}
	}
	refs := cv.Referrers()
	if refs == nil || len(*refs) == 0 {
		return ""
	}
	allByteStores := true
	for _, ref := range *refs {
		st, ok := ref.(*ssa.Store)
		if !ok {
			allByteStores = false
			break
		}
		ia, ok := st.Addr.(*ssa.IndexAddr)
		if !ok || !isByteSliceOrArrayPtr(ia.X.Type()) {
			allByteStores = false
			break
		}
	}
	if allByteStores {
		return "result is only stored into a []byte (reinterpretation for the wire)"
	}
	for _, ref := range *refs {
		c, ok := ref.(*ssa.Call)
		if !ok {
			return ""
		}
		f := c.Call.StaticCallee()
		if f == nil || !strings.HasPrefix(f.String(), "(encoding/binary.bigEndian).PutUint") {
			return ""
		}
	}
	return "result only feeds binary.BigEndian.PutUintN (two's-complement reinterpretation for the wire)"
}

// floatRoundTripGuarded: float32(x) where the function tests float64(float32(x)) != x on the same
// x and this conversion is either inside that test or on its equal branch.
func floatRoundTripGuarded(cv *ssa.Convert) bool {
	fn := cv.Parent()
	for _, b := range fn.Blocks {
		for _, ins := range b.Instrs {
			bo, ok := ins.(*ssa.BinOp)
			if !ok || (bo.Op != token.NEQ && bo.Op != token.EQL) {
				continue
			}
			for _, pair := range [][2]ssa.Value{{bo.X, bo.Y}, {bo.Y, bo.X}} {
				back, ok := pair[0].(*ssa.Convert)
				if !ok {
					continue
				}
				inner, ok := back.X.(*ssa.Convert)
				if !ok || inner.X != pair[1] || pair[1] != cv.X {
					continue
				}
				if inner == cv {
					return true // the test itself
				}
				// on the branch where they are equal
				for _, ref := range *bo.Referrers() {
					if ifi, ok := ref.(*ssa.If); ok {
						eqSucc := ifi.Block().Succs[0]
						if bo.Op == token.NEQ {
							eqSucc = ifi.Block().Succs[1]
						}
						if len(eqSucc.Preds) == 1 && eqSucc.Dominates(cv.Block()) {
							return true
						}
					}
				}
			}
		}
	}
	return false
}

func intToFloatGuarded(cv *ssa.Convert) bool { return comparedBack(cv) }
func floatToIntGuarded(cv *ssa.Convert) bool { return comparedBack(cv) }

// comparedBack: T(x) is converted back to x's type and compared with x, and the use of the
// conversion is on the equal branch (or is the comparison itself).
func comparedBack(cv *ssa.Convert) bool {
	fn := cv.Parent()
	for _, b := range fn.Blocks {
		for _, ins := range b.Instrs {
			bo, ok := ins.(*ssa.BinOp)
			if !ok || (bo.Op != token.NEQ && bo.Op != token.EQL) {
				continue
			}
			for _, pair := range [][2]ssa.Value{{bo.X, bo.Y}, {bo.Y, bo.X}} {
				back, ok := pair[0].(*ssa.Convert)
				if !ok || pair[1] != cv.X {
					continue
				}
				inner, ok := back.X.(*ssa.Convert)
				if !ok || inner.X != cv.X || !types.Identical(inner.Type(), cv.Type()) {
					continue
				}
				if inner == cv {
					return true
				}
				for _, ref := range *bo.Referrers() {
					if ifi, ok := ref.(*ssa.If); ok {
						eqSucc := ifi.Block().Succs[0]
						if bo.Op == token.NEQ {
							eqSucc = ifi.Block().Succs[1]
						}
						if len(eqSucc.Preds) == 1 && eqSucc.Dominates(cv.Block()) {
							return true
						}
					}
				}
			}
		}
	}
	return false
}

var exactHelpers = map[string]bool{"addExact": true, "multiplyExact": true, "floorDiv": true, "floorMod": true, "subtractExact": true}

func c13Arith(p *Program, r *Report, g *Guards, fns []*ssa.Function) {
	r.Floor("arith", 12)
	for _, fn := range fns {
		if exactHelpers[fn.Name()] {
			continue
		}
		counter := map[string]int{}
		for _, b := range fn.Blocks {
			for _, ins := range b.Instrs {
				bo, ok := ins.(*ssa.BinOp)
				if !ok || !isIntType(bo.Type()) {
					continue
				}
				switch bo.Op {
				case token.ADD, token.SUB, token.MUL:
				default:
					continue
				}
				bits, _, _ := intBits(bo.Type())
				if bits < 32 {
					continue
				}
				// platform-sized int/uint arithmetic is length and index bookkeeping, not a CQL value
				if bt, ok := bo.Type().Underlying().(*types.Basic); ok && (bt.Kind() == types.Int || bt.Kind() == types.Uint || bt.Kind() == types.Uintptr) {
					continue
				}
				counter[bo.Op.String()]++
				key := fmt.Sprintf("%s %s#%d", fnKey(fn), bo.Op, counter[bo.Op.String()])
				a, c := g.At(bo.X, b), g.At(bo.Y, b)
				var m Itv
				if a.Lo != nil && a.Hi != nil && c.Lo != nil && c.Hi != nil {
					switch bo.Op {
					case token.ADD:
						m = Itv{Lo: new(big.Int).Add(a.Lo, c.Lo), Hi: new(big.Int).Add(a.Hi, c.Hi)}
					case token.SUB:
						m = Itv{Lo: new(big.Int).Sub(a.Lo, c.Hi), Hi: new(big.Int).Sub(a.Hi, c.Lo)}
					case token.MUL:
						cs := []*big.Int{new(big.Int).Mul(a.Lo, c.Lo), new(big.Int).Mul(a.Lo, c.Hi), new(big.Int).Mul(a.Hi, c.Lo), new(big.Int).Mul(a.Hi, c.Hi)}
						m = Itv{Lo: cs[0], Hi: cs[0]}
						for _, x := range cs[1:] {
							if x.Cmp(m.Lo) < 0 {
								m.Lo = x
							}
							if x.Cmp(m.Hi) > 0 {
								m.Hi = x
							}
						}
					}
				}
				if m.Lo != nil && m.within(g.typeRange(bo.Type())) {
					r.OKf("arith", key, bo.Pos(), "%s %s %s fits %s", a, bo.Op, c, types.TypeString(bo.Type(), relQual))
					continue
				}
				if signBitFlip(bo) {
					r.OKf("arith", key, bo.Pos(), "lossless idiom: adding/subtracting the minimum of the type flips the sign bit (bijective offset by 2^%d)", bits-1)
					continue
				}
				r.Fail("arith", key, bo.Pos(), "%s on %s and %s (%s %s %s) can overflow %s silently; use the exact helpers or check the range", bo.Op, describeVal(bo.X), describeVal(bo.Y), a, bo.Op, c, types.TypeString(bo.Type(), relQual))
			}
		}
	}
}

func isByteSlice(t types.Type) bool {
	sl, ok := t.Underlying().(*types.Slice)
	if !ok {
		return false
	}
	b, ok := sl.Elem().Underlying().(*types.Basic)
	return ok && b.Kind() == types.Uint8
}

func isByteSliceOrArrayPtr(t types.Type) bool {
	if isByteSlice(t) {
		return true
	}
	if p, ok := t.Underlying().(*types.Pointer); ok {
		if a, ok := p.Elem().Underlying().(*types.Array); ok {
			b, ok := a.Elem().Underlying().(*types.Basic)
			return ok && b.Kind() == types.Uint8
		}
	}
	return false
}

// signBitFlip: x +/- MinIntN on an N-bit signed type flips the sign bit: a bijection on the type
// (the date codec's documented offset by 2^31), never a loss of information.
func signBitFlip(bo *ssa.BinOp) bool {
	bits, signed, ok := intBits(bo.Type())
	if !ok || !signed {
		return false
	}
	for _, o := range []ssa.Value{bo.X, bo.Y} {
		if c, ok := o.(*ssa.Const); ok {
			if it, ok := constItv(c); ok && it.Lo.Cmp(new(big.Int).Neg(pow2(uint(bits-1)))) == 0 {
				return true
			}
		}
	}
	return false
}

// c13Flags: the overflow flag (bool) of the exact-arithmetic helpers and the error of every
// range-checked conversion helper must reach a decision - a branch condition, a return value or an
// argument of an error constructor. A flag that is dropped or overwritten before it is examined
// turns a detected overflow into a silently wrapped value.
func c13Flags(p *Program, r *Report, fns []*ssa.Function) {
	r.Floor("flag-examined", 130)
	for _, fn := range fns {
		counter := map[string]int{}
		for _, b := range fn.Blocks {
			for _, ins := range b.Instrs {
				c, ok := ins.(*ssa.Call)
				if !ok {
					continue
				}
				callee := c.Call.StaticCallee()
				if callee != nil && callee.Pkg != nil && callee.Pkg.Pkg.Path() == "math/big" && callee.Signature.Results().Len() == 2 {
					// (*big.Float).Float64/Float32/Int64/Uint64/Int, (*big.Rat).Float64...: the second
					// result says whether the value was delivered exactly
					second := callee.Signature.Results().At(1).Type()
					isAcc := types.TypeString(second, nil) == "math/big.Accuracy"
					if bt, ok := second.Underlying().(*types.Basic); ok && bt.Kind() == types.Bool && (strings.HasPrefix(callee.Name(), "Float") || strings.HasPrefix(callee.Name(), "Int") || strings.HasPrefix(callee.Name(), "Uint")) {
						isAcc = true
					}
					if isAcc {
						counter[callee.Name()]++
						key := fmt.Sprintf("%s -> big.%s#%d", fnKey(fn), callee.Name(), counter[callee.Name()])
						var flag ssa.Value
						for _, ref := range *c.Referrers() {
							if ex, ok := ref.(*ssa.Extract); ok && ex.Index == 1 {
								flag = ex
							}
						}
						if flag != nil && reachesDecision(flag) {
							r.OKf("flag-examined", key, c.Pos(), "the exactness result reaches a branch")
						} else {
							r.Fail("flag-examined", key, c.Pos(), "the exactness result (accuracy) of %s is not examined: a value that is rounded, underflows or overflows is delivered as if it were exact", callee.Name())
						}
					}
					continue
				}
				if callee == nil || callee.Pkg == nil || shortPkg(callee.Pkg.Pkg) != "datacodec" {
					continue
				}
				res := callee.Signature.Results()
				n := res.Len()
				if n < 2 {
					continue
				}
				last := res.At(n - 1).Type()
				isFlag := false
				if exactHelpers[callee.Name()] {
					if bt, ok := last.Underlying().(*types.Basic); ok && bt.Kind() == types.Bool {
						isFlag = true
					}
				}
				if !isFlag && !(isErrorType(last) && (isIntType(res.At(0).Type()) || isFloatType(res.At(0).Type()))) {
					continue
				}
				counter[callee.Name()]++
				key := fmt.Sprintf("%s -> %s#%d", fnKey(fn), callee.Name(), counter[callee.Name()])
				var flag ssa.Value
				for _, ref := range *c.Referrers() {
					if ex, ok := ref.(*ssa.Extract); ok && ex.Index == n-1 {
						flag = ex
					}
				}
				what := "error"
				if isFlag {
					what = "overflow flag"
				}
				if flag == nil {
					r.Fail("flag-examined", key, c.Pos(), "the %s of %s is discarded: a value outside the range is delivered wrapped", what, callee.Name())
					continue
				}
				if reachesDecision(flag) {
					r.OKf("flag-examined", key, c.Pos(), "the %s reaches a branch, a return or an error constructor", what)
				} else {
					r.Fail("flag-examined", key, c.Pos(), "the %s of %s is never examined (it is overwritten or dropped before any branch or return): a value outside the range is delivered wrapped", what, callee.Name())
				}
			}
		}
	}
}

func reachesDecision(v ssa.Value) bool {
	seen := map[ssa.Value]bool{}
	var walk func(v ssa.Value) bool
	walk = func(v ssa.Value) bool {
		if seen[v] {
			return false
		}
		seen[v] = true
		refs := v.Referrers()
		if refs == nil {
			return false
		}
		for _, ref := range *refs {
			switch x := ref.(type) {
			case *ssa.If, *ssa.Return:
				return true
			case *ssa.Call:
				return true
			case *ssa.Store:
				if x.Val == v {
					if a, ok := x.Addr.(*ssa.Alloc); ok {
						for _, ar := range *a.Referrers() {
							if ld, ok := ar.(*ssa.UnOp); ok && ld.Op == token.MUL {
								if walk(ld) {
									return true
								}
							}
						}
					} else {
						return true // stored into a structure that outlives the function
					}
				}
			case ssa.Value:
				switch x.(type) {
				case *ssa.Phi, *ssa.UnOp, *ssa.BinOp, *ssa.MakeInterface, *ssa.ChangeInterface, *ssa.ChangeType:
					if walk(x) {
						return true
					}
				}
			}
		}
		return false
	}
	return walk(v)
}
