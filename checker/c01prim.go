package main

// Byte-level rules for the protocol notations of package primitive:
//
//   C01 primitive-pairing  every byte sequence a WriteX path produces is read back by a ReadX path:
//                          same widths in the same order, same byte order, raw runs sized by the
//                          same length prefix, loops counted by the same count, constants written
//                          (-1 null, -2 unset, address sizes) accepted by the reader path's conditions
//   C02 primitive-layout   the writer's sequences are layouts of spec/notations.grammar and every
//                          layout of the specification is read by some reader path
//
// The vint coder is declined (its layout is a numeric function of the value).

import (
	"fmt"
	"go/constant"
	"go/types"
	"os"
	"path/filepath"
	"sort"
	"strings"
)

// byteNormalize renames the ops of a byte-mode trace into the notation vocabulary (in place) and
// links raw runs / loops to their length prefix. It returns the problems found (unlinked runs).
func byteNormalize(items []*seqItem, isWriter bool, in *Interp, st *State, outer map[string]*seqItem) []string {
	var problems []string
	prefixes := map[string]*seqItem{}
	for k, v := range outer {
		prefixes[k] = v
	}
	termOf := func(v Val) string {
		switch v.K {
		case KLin:
			if v.Lin != nil && len(v.Lin.Terms) == 1 && v.Lin.C == 0 {
				for t, c := range v.Lin.Terms {
					if c == 1 {
						return t
					}
				}
			}
		case KSym:
			return fmt.Sprintf("s%d", v.Sym)
		case KExpr:
			return v.Key
		}
		return ""
	}
	for _, it := range items {
		switch it.kind {
		case "op":
			extra := ""
			if it.sym != nil {
				extra = it.sym.Extra
			}
			switch {
			case strings.HasPrefix(it.name, "fixed"):
				n := strings.TrimPrefix(it.name, "fixed")
				bits := map[string]string{"1": "8", "2": "16", "4": "32", "8": "64"}[n]
				order := "be"
				if strings.Contains(extra, "LE") {
					order = "le"
				}
				it.name = order + bits
				if isWriter {
					if t := termOf(it.arg); t != "" && it.arg.K != KConst {
						prefixes[t] = it
					}
				} else {
					prefixes[fmt.Sprintf("s%d", it.id)] = it
				}
			case it.name == "raw":
				var lv Val
				if it.sym != nil {
					lv = in.resolve(it.sym.Arg, st)
				}
				switch {
				case lv.K == KConst:
					it.name = "raw(" + lv.C.ExactString() + ")"
				default:
					t := termOf(lv)
					if p, ok := prefixes[t]; ok && t != "" {
						it.name = "raw(n)"
						if !strings.HasSuffix(p.name, ":n") {
							p.name += ":n"
						}
					} else {
						it.name = "raw(?)"
						problems = append(problems, fmt.Sprintf("a raw run of %v bytes is not sized by a length written/read before it", lv))
					}
				}
				it.arg = Val{}
			}
		case "loop":
			key := it.key
			if isWriter {
				key = "len(" + it.key + ")"
			}
			if p, ok := prefixes[key]; ok {
				if !strings.HasSuffix(p.name, ":n") {
					p.name += ":n"
				}
				it.key = "n"
			} else {
				problems = append(problems, fmt.Sprintf("a loop over %s is not counted by a count written/read before it", it.key))
				it.key = "?"
			}
			for _, a := range it.alts {
				problems = append(problems, byteNormalize(a.items, isWriter, in, a.st, prefixes)...)
			}
		}
	}
	return problems
}

// byteString renders normalised items in the vocabulary of notations.grammar.
func byteString(items []*seqItem, consts bool) string {
	var parts []string
	for _, it := range items {
		switch it.kind {
		case "op":
			s := it.name
			if consts && it.arg.K == KConst && strings.HasPrefix(s, "be") && !strings.HasSuffix(s, ":n") {
				s += "=" + it.arg.C.ExactString()
			}
			parts = append(parts, s)
		case "loop":
			set := map[string]bool{}
			for _, a := range it.alts {
				set[byteString(a.items, consts)] = true
			}
			var as []string
			for a := range set {
				as = append(as, a)
			}
			sort.Strings(as)
			parts = append(parts, fmt.Sprintf("%s*( %s )", it.key, strings.Join(as, " / ")))
		default:
			parts = append(parts, "?"+it.kind)
		}
	}
	return strings.Join(parts, " ")
}

type primPair struct {
	w, r *types.Func
	name string
}

func primitivePairs(p *Program) []primPair {
	scope := p.Pkg("primitive").Types.Scope()
	var out []primPair
	for _, n := range scope.Names() {
		if !strings.HasPrefix(n, "Write") {
			continue
		}
		w, ok := scope.Lookup(n).(*types.Func)
		if !ok {
			continue
		}
		rd, ok := scope.Lookup("Read" + strings.TrimPrefix(n, "Write")).(*types.Func)
		if !ok {
			continue
		}
		out = append(out, primPair{w, rd, strings.ToLower(strings.TrimPrefix(n, "Write"))})
	}
	return out
}

type primTraces struct {
	wr, rr     *wireRun
	wseqs      [][]*seqItem
	wstates    []*State
	rseqs      [][]*seqItem
	rstates    []*State
	problems   []string
	undecided  []string
	declinedBy string
}

func primitiveTraces(p *Program, pr primPair, v constant.Value) *primTraces {
	t := &primTraces{}
	if strings.Contains(pr.name, "vint") {
		t.declinedBy = "the vint layout is a numeric function of the value (leading zeros): declined"
		return t
	}
	t.wr = runWire(p, pr.w, v, true, nil)
	t.rr = runWire(p, pr.r, v, true, nil)
	t.undecided = append(append([]string{}, t.wr.in.Undecided...), t.rr.in.Undecided...)
	for _, o := range successPaths(t.wr.outs) {
		for _, items := range expandAmong(traceSeq(o.St.trace, o.St, t.wr.in), o.St) {
			for _, pb := range byteNormalize(items, true, t.wr.in, o.St, nil) {
				t.problems = append(t.problems, "writer: "+pb)
			}
			t.wseqs = append(t.wseqs, items)
			t.wstates = append(t.wstates, o.St)
		}
	}
	for _, o := range successPaths(t.rr.outs) {
		items := traceSeq(o.St.trace, o.St, t.rr.in)
		for _, pb := range byteNormalize(items, false, t.rr.in, o.St, nil) {
			t.problems = append(t.problems, "reader: "+pb)
		}
		t.rseqs = append(t.rseqs, items)
		t.rstates = append(t.rstates, o.St)
	}
	return t
}

// c01PrimitivePairing: writer ⊆ reader at byte level.
func c01PrimitivePairing(p *Program, r *Report) {
	r.Floor("primitive-pairing", 18)
	pe := newPenum(p)
	vers := supportedVersions(p, pe)
	for _, pr := range primitivePairs(p) {
		vs := []constant.Value{vers[len(vers)-1]}
		if hasVersionParam(p, pr.w) || hasVersionParam(p, pr.r) {
			vs = vers
		}
		for _, v := range vs {
			key := pr.name
			if len(vs) > 1 {
				key += "@" + versionLabel(v)
			}
			t := primitiveTraces(p, pr, v)
			if t.declinedBy != "" {
				continue
			}
			if len(t.undecided) > 0 {
				r.Fail("primitive-pairing", key, pr.w.Pos(), "undecided: %s", strings.Join(dedupStrings(t.undecided), "; "))
				continue
			}
			bad := ""
			if len(t.problems) > 0 {
				bad = dedupStrings(t.problems)[0]
			}
			if len(t.wseqs) == 0 || len(t.rseqs) == 0 {
				bad = "no success path on one side"
			}
			for i, w := range t.wseqs {
				if bad != "" {
					break
				}
				okAny, best := false, ""
				for j, rq := range t.rseqs {
					b := binding{}
					if ok, why := matchSeq(w, rq, b, t.rstates[j]); ok {
						if ok2, why2 := readerAccepts(t.rstates[j], b); ok2 {
							okAny = true
							break
						} else {
							best = why2
						}
					} else if best == "" {
						best = why
					}
				}
				if !okAny {
					bad = fmt.Sprintf("%s writes  %s  {%s} but no path of %s reads that back: %s (reader paths: %s)", pr.w.Name(), byteString(w, true), describeAtoms(t.wstates[i]), pr.r.Name(), best, readerShapes(t))
				}
			}
			if bad == "" {
				// every reader path for bytes the writer can produce: one that stops after a length
				// prefix must exclude every positive length (the writer does write content then)
				wshapes := map[string]bool{}
				for _, w := range t.wseqs {
					wshapes[byteString(w, false)] = true
				}
				for j, rq := range t.rseqs {
					if why := contentSkipped(rq, t.rstates[j], wshapes); why != "" {
						bad = pr.r.Name() + ": " + why
						break
					}
				}
			}
			if bad != "" {
				r.Fail("primitive-pairing", key, pr.r.Pos(), "%s", bad)
			} else {
				r.OKf("primitive-pairing", key, pr.r.Pos(), "%d writer byte sequences are each read back by one of %d reader paths", len(t.wseqs), len(t.rseqs))
			}
		}
	}
}

func readerShapes(t *primTraces) string {
	set := map[string]bool{}
	for _, rq := range t.rseqs {
		set[byteString(rq, false)] = true
	}
	var out []string
	for s := range set {
		out = append(out, s)
	}
	sort.Strings(out)
	return strings.Join(out, "  |  ")
}

// ---- specification side

type notation struct {
	alts []string
	line int
}

func loadNotations() map[string]*notation {
	path := filepath.Join(verifDir(), "spec", "notations.grammar")
	data, err := os.ReadFile(path)
	if err != nil {
		fatalf("cannot read %s: %v", path, err)
	}
	raw := map[string]*notation{}
	var order []string
	for i, line := range strings.Split(string(data), "\n") {
		if j := strings.Index(line, "#"); j >= 0 {
			line = line[:j]
		}
		j := strings.Index(line, ":=")
		if j < 0 {
			continue
		}
		name := strings.TrimSpace(line[:j])
		var alts []string
		for _, a := range splitAlts(strings.Join(strings.Fields(line[j+2:]), " ")) {
			alts = append(alts, a)
		}
		raw[name] = &notation{alts: alts, line: i + 1}
		order = append(order, name)
	}
	// expand references (no recursion among notations)
	var expand func(s string, depth int) []string
	expand = func(s string, depth int) []string {
		if depth > 6 {
			fatalf("notations.grammar: reference cycle in %q", s)
		}
		toks := strings.Fields(s)
		outs := []string{""}
		add := func(parts []string) {
			var next []string
			for _, o := range outs {
				for _, p := range parts {
					next = append(next, strings.TrimSpace(o+" "+p))
				}
			}
			outs = next
		}
		for i := 0; i < len(toks); i++ {
			tk := toks[i]
			if strings.HasSuffix(tk, "*(") {
				// loop: collect until the matching ")"
				depthP, j := 1, i+1
				for ; j < len(toks); j++ {
					if strings.HasSuffix(toks[j], "*(") {
						depthP++
					}
					if toks[j] == ")" {
						depthP--
						if depthP == 0 {
							break
						}
					}
				}
				body := strings.Join(toks[i+1:j], " ")
				set := map[string]bool{}
				for _, alt := range strings.Split(body, " / ") {
					for _, e := range expand(alt, depth+1) {
						set[e] = true
					}
				}
				var bl []string
				for b := range set {
					bl = append(bl, b)
				}
				sort.Strings(bl)
				add([]string{fmt.Sprintf("%s %s )", tk, strings.Join(bl, " / "))})
				i = j
				continue
			}
			if n, ok := raw[tk]; ok {
				var parts []string
				for _, a := range n.alts {
					parts = append(parts, expand(a, depth+1)...)
				}
				add(parts)
				continue
			}
			add([]string{tk})
		}
		return outs
	}
	out := map[string]*notation{}
	for _, name := range order {
		n := raw[name]
		var alts []string
		for _, a := range n.alts {
			alts = append(alts, expand(a, 0)...)
		}
		// normalise spacing of the loop syntax to byteString's
		for i := range alts {
			alts[i] = strings.ReplaceAll(alts[i], "*( ", "*( ")
		}
		out[name] = &notation{alts: alts, line: n.line}
	}
	return out
}

func stripLayoutConsts(s string) string {
	toks := strings.Fields(s)
	for i, t := range toks {
		if k := strings.Index(t, "="); k > 0 && strings.HasPrefix(t, "be") {
			toks[i] = t[:k]
		}
		if strings.HasSuffix(t, "<0") && strings.HasPrefix(t, "be") {
			toks[i] = strings.TrimSuffix(t, "<0")
		}
	}
	return strings.Join(toks, " ")
}

// loopAlts splits a layout with loops into (skeleton, per-loop alternative sets) so that loop
// bodies can be compared as sets.
func layoutCovered(layout string, allowed map[string]bool, strip bool) bool {
	if strip {
		layout = stripLayoutConsts(layout)
	}
	if allowed[layout] {
		return true
	}
	// a layout whose loop bodies are a subset of an allowed layout's bodies
	for a := range allowed {
		if loopSubset(layout, a) {
			return true
		}
	}
	return false
}

// loopSubset: x equals y except that each loop of x offers a subset of the alternatives of the
// corresponding loop of y.
func loopSubset(x, y string) bool {
	xs, ys := tokenizeLayout(x), tokenizeLayout(y)
	return subsetSeq(xs, ys)
}

type ltok struct {
	leaf string
	loop bool
	head string
	alts [][]ltok
}

func tokenizeLayout(s string) []ltok {
	toks := strings.Fields(s)
	var parse func(i int, stop map[string]bool) ([]ltok, int)
	parse = func(i int, stop map[string]bool) ([]ltok, int) {
		var out []ltok
		for i < len(toks) && !stop[toks[i]] {
			if strings.HasSuffix(toks[i], "*(") {
				lt := ltok{loop: true, head: toks[i]}
				i++
				for {
					alt, j := parse(i, map[string]bool{"/": true, ")": true})
					lt.alts = append(lt.alts, alt)
					i = j
					if i >= len(toks) || toks[i] == ")" {
						i++
						break
					}
					i++ // skip "/"
				}
				out = append(out, lt)
				continue
			}
			out = append(out, ltok{leaf: toks[i]})
			i++
		}
		return out, i
	}
	out, _ := parse(0, map[string]bool{})
	return out
}

func subsetSeq(x, y []ltok) bool {
	if len(x) != len(y) {
		return false
	}
	for i := range x {
		if x[i].loop != y[i].loop {
			return false
		}
		if !x[i].loop {
			if x[i].leaf != y[i].leaf {
				return false
			}
			continue
		}
		if x[i].head != y[i].head {
			return false
		}
		for _, xa := range x[i].alts {
			ok := false
			for _, ya := range y[i].alts {
				if subsetSeq(xa, ya) {
					ok = true
				}
			}
			if !ok {
				return false
			}
		}
	}
	return true
}

// c02PrimitiveLayout: writer ⊆ specification ⊆ reader.
func c02PrimitiveLayout(p *Program, r *Report) { primitiveLayout(p, r, "primitive-layout", 18, nil) }

// primitiveLayout decides the rule for the notations in only (all when nil).
func primitiveLayout(p *Program, r *Report, rule string, floor int, only map[string]bool) {
	r.Floor(rule, floor)
	spec := loadNotations()
	pe := newPenum(p)
	vers := supportedVersions(p, pe)
	seen := map[string]bool{}
	for _, pr := range primitivePairs(p) {
		v := vers[len(vers)-1]
		if only != nil && !only[pr.name] {
			continue
		}
		t := primitiveTraces(p, pr, v)
		if t.declinedBy != "" {
			continue
		}
		seen[pr.name] = true
		sp := spec[pr.name]
		if sp == nil {
			r.Fail(rule, pr.name, pr.w.Pos(), "spec/notations.grammar has no definition of the notation [%s] that primitive.%s writes", pr.name, pr.w.Name())
			continue
		}
		if len(t.undecided) > 0 {
			r.Fail(rule, pr.name, pr.w.Pos(), "undecided: %s", strings.Join(dedupStrings(t.undecided), "; "))
			continue
		}
		allowed, allowedShapes := map[string]bool{}, map[string]bool{}
		for _, a := range sp.alts {
			allowed[a] = true
			allowedShapes[stripLayoutConsts(a)] = true
		}
		bad := ""
		for _, w := range t.wseqs {
			s := byteString(w, true)
			if !layoutCovered(s, allowed, false) && !layoutCovered(s, allowedShapes, true) {
				bad = fmt.Sprintf("%s writes  %s  which is not a layout of [%s] (spec/notations.grammar:%d: %s)", pr.w.Name(), s, pr.name, sp.line, strings.Join(sp.alts, "  |  "))
			}
		}
		rshapes := map[string]bool{}
		for _, rq := range t.rseqs {
			rshapes[byteString(rq, false)] = true
		}
		for a := range allowedShapes {
			if !layoutCovered(a, rshapes, false) {
				bad = fmt.Sprintf("the specification allows the layout  %s  for [%s] (spec/notations.grammar:%d) but no path of %s reads it (reader paths: %s)", a, pr.name, sp.line, pr.r.Name(), readerShapes(t))
			}
		}
		// "any negative value" alternatives: some reader path of that shape accepts each sample
		for _, a := range sp.alts {
			if strings.Contains(a, "*(") {
				continue // decided for the notation itself; composite notations reuse its reader
			}
			toks := strings.Fields(a)
			for i, tk := range toks {
				if !strings.HasSuffix(tk, "<0") {
					continue
				}
				shape := stripLayoutConsts(a)
				for _, k := range []int64{-1, -2, -128, -32768, -1 << 31} {
					ok := false
					for j, rq := range t.rseqs {
						if byteString(rq, false) != shape || i >= len(rq) || rq[i].kind != "op" {
							continue
						}
						if acc, _ := readerAccepts(t.rstates[j], binding{rq[i].id: constant.MakeInt64(k)}); acc {
							ok = true
						}
					}
					if !ok && bad == "" {
						bad = fmt.Sprintf("the specification defines every negative length of [%s] as null (spec/notations.grammar:%d) but %s has no successful path that accepts the length %d without reading content", pr.name, sp.line, pr.r.Name(), k)
					}
				}
			}
		}
		// reader ⊆ specification, except for the degenerate empty run: a reader path that consumes
		// no content after a length prefix must be conditioned on that length not being positive
		for j, rq := range t.rseqs {
			if why := contentSkipped(rq, t.rstates[j], allowedShapes); why != "" && bad == "" {
				bad = fmt.Sprintf("%s: %s", pr.r.Name(), why)
			}
		}
		if bad != "" {
			r.Fail(rule, pr.name, pr.w.Pos(), "%s", bad)
		} else {
			r.OKf(rule, pr.name, pr.w.Pos(), "%d writer sequences ⊆ %d specification layouts ⊆ reader paths; content-less reader paths only for non-positive lengths", len(t.wseqs), len(sp.alts))
		}
	}
}

// contentSkipped: the reader path rq reads a length prefix that sizes nothing (no raw run, no
// loop follows it although the notation has one) and its conditions admit a positive length.
func contentSkipped(rq []*seqItem, st *State, specShapes map[string]bool) string {
	for i, it := range rq {
		switch it.kind {
		case "loop":
			for _, a := range it.alts {
				if why := contentSkipped(a.items, a.st, specShapes); why != "" {
					return why
				}
			}
		case "op":
			if !strings.HasPrefix(it.name, "be") || strings.HasSuffix(it.name, ":n") || it.id == 0 {
				continue
			}
			// is this op a length prefix in the specification? (beN:n at the same position of some layout with the same leading items)
			isPrefix := false
			lead := byteString(rq[:i], false)
			for s := range specShapes {
				if strings.HasPrefix(s, strings.TrimSpace(lead+" "+it.name+":n")) {
					isPrefix = true
				}
			}
			if !isPrefix {
				continue
			}
			bits := 0
			fmt.Sscanf(it.name, "be%d", &bits)
			for _, k := range []int64{1, 127, 128, 255, 256, 32767, 32768, 65535, 65536, 1<<31 - 1} {
				if bits < 63 && k >= int64(1)<<uint(bits) {
					continue
				}
				b := binding{it.id: constant.MakeInt64(k)}
				if ok, _ := readerAccepts(st, b); ok {
					return fmt.Sprintf("a path {%s} reads the length prefix %s and then no content, and its conditions do not exclude a positive length (e.g. %d): a present value is taken for an empty or null one and the stream desynchronises", describeAtoms(st), it.name, k)
				}
			}
		}
	}
	return ""
}
