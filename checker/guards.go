package main

// guards: interval reasoning over SSA values under dominating conditions.
//
// For a value v used in block B it computes an interval from v's definition (constants,
// value-preserving or wrapping conversions, len/cap, masks, shifts, arithmetic, phi with a small
// fixpoint, loads resolved through the stores to the same field, call results through per-function
// return summaries restricted to the non-error returns, parameters through the arguments at all
// call-graph callers) intersected with every conditional edge that dominates B and compares v (or a
// value-preserving conversion of it, or a load of the same location, or a repeated pure method call
// on the same receiver) with a value of known interval. No solver: intervals over Z only.

import (
	"go/ast"
	"go/constant"
	"go/token"
	"go/types"
	"math/big"

	"golang.org/x/tools/go/callgraph"
	"golang.org/x/tools/go/ssa"
)

type Itv struct {
	Lo, Hi *big.Int // nil = unbounded
	Bot    bool     // empty
}

func (a Itv) String() string {
	if a.Bot {
		return "⊥"
	}
	s := "["
	if a.Lo == nil {
		s += "-inf"
	} else {
		s += a.Lo.String()
	}
	s += ","
	if a.Hi == nil {
		s += "+inf"
	} else {
		s += a.Hi.String()
	}
	return s + "]"
}

var bot = Itv{Bot: true}
var top = Itv{}

func bi(i int64) *big.Int  { return big.NewInt(i) }
func pow2(n uint) *big.Int { return new(big.Int).Lsh(big.NewInt(1), n) }

func single(x *big.Int) Itv { return Itv{Lo: x, Hi: x} }

func minB(a, b *big.Int) *big.Int { // nil = -inf
	if a == nil || b == nil {
		return nil
	}
	if a.Cmp(b) < 0 {
		return a
	}
	return b
}
func maxB(a, b *big.Int) *big.Int { // nil = +inf
	if a == nil || b == nil {
		return nil
	}
	if a.Cmp(b) > 0 {
		return a
	}
	return b
}

func join(a, b Itv) Itv {
	if a.Bot {
		return b
	}
	if b.Bot {
		return a
	}
	return Itv{Lo: minB(a.Lo, b.Lo), Hi: maxB(a.Hi, b.Hi)}
}

func meet(a, b Itv) Itv {
	if a.Bot || b.Bot {
		return bot
	}
	r := Itv{}
	switch {
	case a.Lo == nil:
		r.Lo = b.Lo
	case b.Lo == nil:
		r.Lo = a.Lo
	default:
		if a.Lo.Cmp(b.Lo) > 0 {
			r.Lo = a.Lo
		} else {
			r.Lo = b.Lo
		}
	}
	switch {
	case a.Hi == nil:
		r.Hi = b.Hi
	case b.Hi == nil:
		r.Hi = a.Hi
	default:
		if a.Hi.Cmp(b.Hi) < 0 {
			r.Hi = a.Hi
		} else {
			r.Hi = b.Hi
		}
	}
	if r.Lo != nil && r.Hi != nil && r.Lo.Cmp(r.Hi) > 0 {
		return bot
	}
	return r
}

func (a Itv) within(b Itv) bool {
	if a.Bot {
		return true
	}
	if b.Bot {
		return false
	}
	if b.Lo != nil && (a.Lo == nil || a.Lo.Cmp(b.Lo) < 0) {
		return false
	}
	if b.Hi != nil && (a.Hi == nil || a.Hi.Cmp(b.Hi) > 0) {
		return false
	}
	return true
}

func (a Itv) eq(b Itv) bool { return a.within(b) && b.within(a) }

func (a Itv) nonNeg() bool { return a.Bot || (a.Lo != nil && a.Lo.Sign() >= 0) }

type Guards struct {
	p       *Program
	cg      *callgraph.Graph
	intBits int
	maxLen  *big.Int
	depth   int
	phiEst  map[*ssa.Phi]Itv
	phiBusy map[*ssa.Phi]bool
	busy    map[busyKey]bool
	retMemo map[retKey]Itv
	memo    map[busyKey]Itv
	cutoffs int
	// statistics
	Unknown []string
}

type busyKey struct {
	v ssa.Value
	b *ssa.BasicBlock
}
type retKey struct {
	f   *ssa.Function
	idx int
	fld *types.Var
}

func newGuards(p *Program) *Guards {
	g := &Guards{p: p, cg: p.CallGraphVTA(), intBits: 64, phiEst: map[*ssa.Phi]Itv{}, phiBusy: map[*ssa.Phi]bool{}, busy: map[busyKey]bool{}, retMemo: map[retKey]Itv{}, memo: map[busyKey]Itv{}}
	if p.Arch == "386" {
		g.intBits = 32
		g.maxLen = new(big.Int).Sub(pow2(31), bi(1))
	} else {
		// no Go object exceeds the 47-bit user address space on amd64
		g.maxLen = pow2(47)
	}
	return g
}

func (g *Guards) typeRange(t types.Type) Itv {
	b, ok := t.Underlying().(*types.Basic)
	if !ok || b.Info()&types.IsInteger == 0 {
		return top
	}
	bits, signed := 0, true
	switch b.Kind() {
	case types.Int8:
		bits = 8
	case types.Int16:
		bits = 16
	case types.Int32, types.UntypedRune:
		bits = 32
	case types.Int64:
		bits = 64
	case types.Int:
		bits = g.intBits
	case types.Uint8:
		bits, signed = 8, false
	case types.Uint16:
		bits, signed = 16, false
	case types.Uint32:
		bits, signed = 32, false
	case types.Uint64:
		bits, signed = 64, false
	case types.Uint, types.Uintptr:
		bits, signed = g.intBits, false
	default:
		return top
	}
	if signed {
		return Itv{Lo: new(big.Int).Neg(pow2(uint(bits - 1))), Hi: new(big.Int).Sub(pow2(uint(bits-1)), bi(1))}
	}
	return Itv{Lo: bi(0), Hi: new(big.Int).Sub(pow2(uint(bits)), bi(1))}
}

func isIntType(t types.Type) bool {
	b, ok := t.Underlying().(*types.Basic)
	return ok && b.Info()&types.IsInteger != 0
}

// clampToType: the mathematical interval a, produced by an operation of result type t; if it does
// not fit, the operation may wrap and the result is the whole type range.
func (g *Guards) clampToType(a Itv, t types.Type) Itv {
	tr := g.typeRange(t)
	if a.Bot {
		return a
	}
	if a.within(tr) {
		return a
	}
	return tr
}

// At returns the interval of v as seen by an instruction in block b.
func (g *Guards) At(v ssa.Value, b *ssa.BasicBlock) Itv {
	k := busyKey{v, b}
	if it, ok := g.memo[k]; ok {
		return it
	}
	if g.depth > 60 {
		g.cutoffs++
		return g.typeRange(v.Type())
	}
	if g.busy[k] {
		g.cutoffs++
		return g.typeRange(v.Type())
	}
	g.busy[k] = true
	g.depth++
	before := g.cutoffs
	defer func() { g.depth--; delete(g.busy, k) }()
	it := g.def(v)
	it = meet(it, g.typeRange(v.Type()))
	if b != nil {
		it = g.refine(v, it, b)
	}
	if g.cutoffs == before && len(g.phiBusy) == 0 {
		g.memo[k] = it
	}
	return it
}

func constItv(c *ssa.Const) (Itv, bool) {
	if c.Value == nil || c.Value.Kind() != constant.Int {
		return top, false
	}
	if i, ok := constant.Int64Val(c.Value); ok {
		return single(bi(i)), true
	}
	if u, ok := constant.Uint64Val(c.Value); ok {
		return single(new(big.Int).SetUint64(u)), true
	}
	return top, false
}

// def computes the interval implied by v's definition.
func (g *Guards) def(v ssa.Value) Itv {
	switch x := v.(type) {
	case *ssa.Const:
		if it, ok := constItv(x); ok {
			return it
		}
		return top
	case *ssa.Convert:
		if !isIntType(x.Type()) {
			return top
		}
		if !isIntType(x.X.Type()) {
			return g.typeRange(x.Type())
		}
		in := g.At(x.X, x.Block())
		return g.clampToType(in, x.Type())
	case *ssa.ChangeType:
		return g.At(x.X, x.Block())
	case *ssa.BinOp:
		return g.binop(x)
	case *ssa.UnOp:
		switch x.Op {
		case token.SUB:
			a := g.At(x.X, x.Block())
			if a.Bot {
				return a
			}
			r := Itv{}
			if a.Hi != nil {
				r.Lo = new(big.Int).Neg(a.Hi)
			}
			if a.Lo != nil {
				r.Hi = new(big.Int).Neg(a.Lo)
			}
			return g.clampToType(r, x.Type())
		case token.MUL:
			return g.load(x)
		}
		return top
	case *ssa.Phi:
		return g.phi(x)
	case *ssa.Call:
		return g.callResult(x, 0, false)
	case *ssa.Extract:
		if c, ok := x.Tuple.(*ssa.Call); ok {
			return g.callResult(c, x.Index, true)
		}
		if _, ok := x.Tuple.(*ssa.Next); ok {
			// range over slice: index in [0, maxLen)
			if x.Index == 1 && isIntType(x.Type()) {
				return Itv{Lo: bi(0), Hi: g.maxLen}
			}
		}
		return top
	case *ssa.Parameter:
		return g.param(x)
	case *ssa.FreeVar:
		return g.freeVar(x)
	case *ssa.Index, *ssa.Lookup, *ssa.Field:
		return top
	}
	return top
}

func (g *Guards) binop(x *ssa.BinOp) Itv {
	if !isIntType(x.Type()) {
		return top
	}
	a := g.At(x.X, x.Block())
	b := g.At(x.Y, x.Block())
	if a.Bot || b.Bot {
		return bot
	}
	t := x.Type()
	tr := g.typeRange(t)
	switch x.Op {
	case token.ADD:
		r := Itv{}
		if a.Lo != nil && b.Lo != nil {
			r.Lo = new(big.Int).Add(a.Lo, b.Lo)
		}
		if a.Hi != nil && b.Hi != nil {
			r.Hi = new(big.Int).Add(a.Hi, b.Hi)
		}
		return g.clampToType(r, t)
	case token.SUB:
		r := Itv{}
		if a.Lo != nil && b.Hi != nil {
			r.Lo = new(big.Int).Sub(a.Lo, b.Hi)
		}
		if a.Hi != nil && b.Lo != nil {
			r.Hi = new(big.Int).Sub(a.Hi, b.Lo)
		}
		return g.clampToType(r, t)
	case token.MUL:
		if a.Lo == nil || a.Hi == nil || b.Lo == nil || b.Hi == nil {
			return tr
		}
		cands := []*big.Int{new(big.Int).Mul(a.Lo, b.Lo), new(big.Int).Mul(a.Lo, b.Hi), new(big.Int).Mul(a.Hi, b.Lo), new(big.Int).Mul(a.Hi, b.Hi)}
		r := Itv{Lo: cands[0], Hi: cands[0]}
		for _, c := range cands[1:] {
			if c.Cmp(r.Lo) < 0 {
				r.Lo = c
			}
			if c.Cmp(r.Hi) > 0 {
				r.Hi = c
			}
		}
		return g.clampToType(r, t)
	case token.QUO:
		if b.Lo != nil && b.Lo.Sign() > 0 && a.Lo != nil && a.Hi != nil && b.Hi != nil {
			if a.Lo.Sign() >= 0 {
				return Itv{Lo: new(big.Int).Quo(a.Lo, b.Hi), Hi: new(big.Int).Quo(a.Hi, b.Lo)}
			}
			m := maxB(new(big.Int).Abs(a.Lo), new(big.Int).Abs(a.Hi))
			q := new(big.Int).Quo(m, b.Lo)
			return Itv{Lo: new(big.Int).Neg(q), Hi: q}
		}
		return tr
	case token.REM:
		if b.Lo != nil && b.Lo.Sign() > 0 && b.Hi != nil {
			h := new(big.Int).Sub(b.Hi, bi(1))
			if a.nonNeg() {
				return Itv{Lo: bi(0), Hi: h}
			}
			return Itv{Lo: new(big.Int).Neg(h), Hi: h}
		}
		return tr
	case token.AND:
		// x & c with c >= 0  => [0, c]
		if b.nonNeg() && b.Hi != nil {
			if a.nonNeg() && a.Hi != nil {
				return Itv{Lo: bi(0), Hi: minB(a.Hi, b.Hi)}
			}
			return Itv{Lo: bi(0), Hi: b.Hi}
		}
		if a.nonNeg() && a.Hi != nil {
			return Itv{Lo: bi(0), Hi: a.Hi}
		}
		return tr
	case token.OR, token.XOR:
		if a.nonNeg() && b.nonNeg() && a.Hi != nil && b.Hi != nil {
			// bounded by the next power of two above both
			m := maxB(a.Hi, b.Hi)
			n := uint(m.BitLen())
			return g.clampToType(Itv{Lo: bi(0), Hi: new(big.Int).Sub(pow2(n), bi(1))}, t)
		}
		return tr
	case token.SHR:
		if a.nonNeg() && a.Hi != nil {
			if b.Lo != nil && b.Lo.Sign() >= 0 && b.Lo.IsInt64() && b.Lo.Int64() < 128 {
				return Itv{Lo: bi(0), Hi: new(big.Int).Rsh(a.Hi, uint(b.Lo.Int64()))}
			}
			return Itv{Lo: bi(0), Hi: a.Hi}
		}
		if a.Lo != nil && a.Hi != nil {
			return a // arithmetic shift moves towards zero / -1
		}
		return tr
	case token.SHL:
		if a.nonNeg() && a.Hi != nil && b.Hi != nil && b.Lo != nil && b.Lo.Sign() >= 0 && b.Hi.IsInt64() && b.Hi.Int64() < 128 {
			return g.clampToType(Itv{Lo: bi(0), Hi: new(big.Int).Lsh(a.Hi, uint(b.Hi.Int64()))}, t)
		}
		return tr
	case token.AND_NOT:
		if a.nonNeg() && a.Hi != nil {
			return Itv{Lo: bi(0), Hi: a.Hi}
		}
		return tr
	}
	return tr
}

func (g *Guards) phi(x *ssa.Phi) Itv {
	if g.phiBusy[x] {
		g.cutoffs++
		if e, ok := g.phiEst[x]; ok {
			return e
		}
		return bot
	}
	g.phiBusy[x] = true
	defer delete(g.phiBusy, x)
	est := bot
	for iter := 0; iter < 8; iter++ {
		g.phiEst[x] = est
		nw := bot
		for i, e := range x.Edges {
			pred := x.Block().Preds[i]
			ev := g.At(e, pred)
			// the edge pred -> phi block may itself carry a condition
			ev = g.refineEdgeX(e, ev, pred, x.Block(), true)
			nw = join(nw, ev)
		}
		nw = meet(nw, g.typeRange(x.Type()))
		if nw.eq(est) {
			break
		}
		if iter >= 3 && !est.Bot {
			// widen the moving bounds
			tr := g.typeRange(x.Type())
			if nw.Lo == nil || est.Lo == nil || nw.Lo.Cmp(est.Lo) < 0 {
				nw.Lo = tr.Lo
			}
			if nw.Hi == nil || est.Hi == nil || nw.Hi.Cmp(est.Hi) > 0 {
				nw.Hi = tr.Hi
			}
		}
		est = nw
	}
	delete(g.phiEst, x)
	return est
}

// ---- loads ------------------------------------------------------------------------------------

// fieldAddrOf: v = &base.F
func fieldAddrOf(v ssa.Value) (base ssa.Value, fld *types.Var, ok bool) {
	fa, isFA := v.(*ssa.FieldAddr)
	if !isFA {
		return nil, nil, false
	}
	st, _ := fa.X.Type().Underlying().(*types.Pointer).Elem().Underlying().(*types.Struct)
	if st == nil {
		return nil, nil, false
	}
	return fa.X, st.Field(fa.Field), true
}

// storesTo returns the stores in fn whose address is &b.F for a base "same as" base.
func (g *Guards) storesTo(fn *ssa.Function, base ssa.Value, fld *types.Var) []*ssa.Store {
	var out []*ssa.Store
	for _, b := range fn.Blocks {
		for _, ins := range b.Instrs {
			st, ok := ins.(*ssa.Store)
			if !ok {
				continue
			}
			bb, f, ok := fieldAddrOf(st.Addr)
			if ok && f == fld && g.samePtr(bb, base) {
				out = append(out, st)
			}
		}
	}
	return out
}

// samePtr: two pointer values denote the same object (same SSA value, or loads of the same
// location that has a single store).
func (g *Guards) samePtr(a, b ssa.Value) bool {
	if a == b {
		return true
	}
	ra, rb := g.resolvePtr(a), g.resolvePtr(b)
	return ra == rb
}

// resolvePtr follows loads of single-store locations: p = *(&x.F) where x.F is stored once.
func (g *Guards) resolvePtr(v ssa.Value) ssa.Value {
	for i := 0; i < 6; i++ {
		u, ok := v.(*ssa.UnOp)
		if !ok || u.Op != token.MUL {
			return v
		}
		if a, isAlloc := u.X.(*ssa.Alloc); isAlloc {
			// local variable cell: single store
			var st *ssa.Store
			n := 0
			for _, ref := range *a.Referrers() {
				if s, ok := ref.(*ssa.Store); ok && s.Addr == ssa.Value(a) {
					st = s
					n++
				}
			}
			if n == 1 {
				v = st.Val
				continue
			}
			return v
		}
		base, fld, ok := fieldAddrOf(u.X)
		if !ok {
			return v
		}
		sts := g.storesTo(u.Parent(), base, fld)
		if len(sts) == 1 && sts[0].Block().Dominates(u.Block()) {
			v = sts[0].Val
			continue
		}
		return v
	}
	return v
}

func (g *Guards) load(u *ssa.UnOp) Itv {
	if !isIntType(u.Type()) {
		return top
	}
	// local variable cell
	if a, ok := u.X.(*ssa.Alloc); ok {
		res := bot
		n := 0
		for _, ref := range *a.Referrers() {
			switch s := ref.(type) {
			case *ssa.Store:
				if s.Addr == ssa.Value(a) {
					res = join(res, g.At(s.Val, s.Block()))
					n++
				}
			case *ssa.UnOp:
			default:
				// address escapes (e.g. passed to binary.Read): unknown content
				return g.typeRange(u.Type())
			}
		}
		res = join(res, single(bi(0)))
		return res
	}
	base, fld, ok := fieldAddrOf(u.X)
	if !ok {
		return top
	}
	return g.fieldItv(base, fld, u.Parent(), u.Block(), 0)
}

// fieldItv: interval of field fld of the object base points to, as seen in fn at block blk.
func (g *Guards) fieldItv(base ssa.Value, fld *types.Var, fn *ssa.Function, blk *ssa.BasicBlock, depth int) Itv {
	tr := g.typeRange(fld.Type())
	if depth > 6 {
		return tr
	}
	base = g.resolvePtr(base)
	res := bot
	// stores in this function through the same pointer
	sts := g.storesTo(fn, base, fld)
	if len(sts) == 1 && blk != nil && sts[0].Block().Dominates(blk) && sts[0].Block() != blk {
		// the unique dominating store defines the value (no other store to this field of this
		// object in the function)
		return g.At(sts[0].Val, blk)
	}
	for _, s := range sts {
		res = join(res, g.At(s.Val, s.Block()))
	}
	switch b := base.(type) {
	case *ssa.Alloc:
		res = join(res, single(bi(0)))
		// composite literal initialisation is a store as well; stores through aliases in callees
		// are not modelled: if the object is passed to a module function, give up
		for _, ref := range *b.Referrers() {
			if c, ok := ref.(ssa.CallInstruction); ok {
				if f := c.Common().StaticCallee(); f != nil && f.Pkg != nil && isModulePkg(f.Pkg.Pkg) {
					if g.mayStoreField(f, fld, map[*ssa.Function]bool{}) {
						return tr
					}
				}
			}
		}
		return res
	case *ssa.Call:
		return join(res, g.resultField(b, 0, fld, depth))
	case *ssa.Extract:
		if c, ok := b.Tuple.(*ssa.Call); ok {
			return join(res, g.resultField(c, b.Index, fld, depth))
		}
		return tr
	case *ssa.Parameter:
		callers := g.callersOf(b.Parent())
		if callers == nil {
			return tr
		}
		idx := paramIndex(b)
		for _, site := range callers {
			args := site.Common().Args
			if site.Common().IsInvoke() {
				// receiver is Value; params follow
				if idx == 0 {
					return tr
				}
				args = append([]ssa.Value{site.Common().Value}, args...)
			}
			if idx >= len(args) {
				return tr
			}
			res = join(res, g.fieldItv(args[idx], fld, site.Parent(), site.Block(), depth+1))
		}
		return res
	case *ssa.Phi:
		for i, e := range b.Edges {
			res = join(res, g.fieldItv(e, fld, fn, b.Block().Preds[i], depth+1))
		}
		return res
	}
	return tr
}

func (g *Guards) mayStoreField(f *ssa.Function, fld *types.Var, seen map[*ssa.Function]bool) bool {
	if seen[f] || len(seen) > 200 {
		return false
	}
	seen[f] = true
	for _, b := range f.Blocks {
		for _, ins := range b.Instrs {
			switch x := ins.(type) {
			case *ssa.Store:
				if _, fl, ok := fieldAddrOf(x.Addr); ok && fl == fld {
					return true
				}
			case ssa.CallInstruction:
				if c := x.Common().StaticCallee(); c != nil && c.Pkg != nil && isModulePkg(c.Pkg.Pkg) {
					if g.mayStoreField(c, fld, seen) {
						return true
					}
				}
			}
		}
	}
	return false
}

func paramIndex(p *ssa.Parameter) int {
	for i, q := range p.Parent().Params {
		if q == p {
			return i
		}
	}
	return -1
}

// callersOf returns the call sites of fn, or nil when the callers are not all known (exported
// API, address taken without a resolved caller, no callers).
func (g *Guards) callersOf(fn *ssa.Function) []ssa.CallInstruction {
	if fn.Parent() == nil {
		if obj := fn.Object(); obj != nil && ast.IsExported(obj.Name()) {
			// exported function or method: may be called by users of the library
			if recvExported(fn) {
				return nil
			}
		}
	}
	node := g.cg.Nodes[fn]
	if node == nil || len(node.In) == 0 {
		return nil
	}
	var out []ssa.CallInstruction
	for _, e := range node.In {
		if e.Site == nil {
			return nil
		}
		if _, isGo := e.Site.(*ssa.Go); isGo {
			continue
		}
		out = append(out, e.Site)
	}
	return out
}

// recvExported: a method is externally callable when its name is exported (even on an unexported
// type, because such types are handed out behind exported interfaces).
func recvExported(fn *ssa.Function) bool { return true }

// resultField: field fld of the object returned as result idx by the callees of call, on their
// non-error returns.
func (g *Guards) resultField(call *ssa.Call, idx int, fld *types.Var, depth int) Itv {
	tr := g.typeRange(fld.Type())
	callee := call.Call.StaticCallee()
	if callee == nil || callee.Blocks == nil {
		return tr
	}
	k := retKey{callee, idx, fld}
	if v, ok := g.retMemo[k]; ok {
		return v
	}
	g.retMemo[k] = tr
	res := bot
	for _, ret := range returnsOf(callee) {
		if g.isErrorReturn(ret) {
			continue
		}
		if idx >= len(ret.Results) {
			res = tr
			break
		}
		res = join(res, g.fieldItv(ret.Results[idx], fld, callee, ret.Block(), depth+1))
	}
	g.retMemo[k] = res
	return res
}

func returnsOf(fn *ssa.Function) []*ssa.Return {
	var out []*ssa.Return
	for _, b := range fn.Blocks {
		if len(b.Instrs) > 0 {
			if r, ok := b.Instrs[len(b.Instrs)-1].(*ssa.Return); ok {
				out = append(out, r)
			}
		}
	}
	return out
}

// isErrorReturn: the last result has type error and is provably non-nil.
func (g *Guards) isErrorReturn(ret *ssa.Return) bool {
	n := len(ret.Results)
	if n == 0 || !isErrorType(ret.Results[n-1].Type()) {
		return false
	}
	return provablyNonNilErr(ret.Results[n-1], 0)
}

func provablyNonNilErr(v ssa.Value, depth int) bool {
	if depth > 5 {
		return false
	}
	switch x := v.(type) {
	case *ssa.Const:
		return false
	case *ssa.MakeInterface:
		return true
	case *ssa.Call:
		if f := x.Call.StaticCallee(); f != nil {
			switch f.String() {
			case "fmt.Errorf", "errors.New":
				return true
			}
			// module error constructors: every return is non-nil
			if f.Blocks != nil && f.Pkg != nil && isModulePkg(f.Pkg.Pkg) {
				all := true
				rets := returnsOf(f)
				for _, r := range rets {
					if len(r.Results) != 1 || !provablyNonNilErr(r.Results[0], depth+1) {
						all = false
					}
				}
				return all && len(rets) > 0
			}
		}
	case *ssa.Phi:
		for _, e := range x.Edges {
			if !provablyNonNilErr(e, depth+1) {
				return false
			}
		}
		return true
	}
	return false
}

// ---- calls ------------------------------------------------------------------------------------

func (g *Guards) callResult(c *ssa.Call, idx int, tuple bool) Itv {
	var rt types.Type
	if tuple {
		rt = c.Type().(*types.Tuple).At(idx).Type()
	} else {
		rt = c.Type()
	}
	if !isIntType(rt) {
		return top
	}
	tr := g.typeRange(rt)
	if bi_, ok := c.Call.Value.(*ssa.Builtin); ok {
		switch bi_.Name() {
		case "len", "cap":
			return Itv{Lo: bi(0), Hi: g.maxLen}
		case "copy":
			return Itv{Lo: bi(0), Hi: g.maxLen}
		case "min", "max":
			return tr
		}
		return tr
	}
	if c.Call.IsInvoke() && (c.Call.Method.Name() == "Write" || c.Call.Method.Name() == "Read") && idx == 0 {
		return Itv{Lo: bi(0), Hi: g.maxLen} // io.Writer / io.Reader contract: 0 <= n <= len(p)
	}
	callee := c.Call.StaticCallee()
	if callee == nil {
		return tr
	}
	// trusted exact-arithmetic helper of the repository (datacodec/math.go): floorMod(x, y) with a
	// positive constant y lies in [0, y-1]
	if callee.Name() == "floorMod" && callee.Pkg != nil && shortPkg(callee.Pkg.Pkg) == "datacodec" && len(c.Call.Args) == 2 {
		if y := g.At(c.Call.Args[1], c.Block()); !y.Bot && y.Lo != nil && y.Lo.Sign() > 0 && y.Hi != nil {
			return Itv{Lo: bi(0), Hi: new(big.Int).Sub(y.Hi, bi(1))}
		}
	}
	// documented standard-library post-conditions
	switch callee.String() {
	case "strconv.ParseInt":
		if idx == 0 && len(c.Call.Args) == 3 {
			if k, ok := c.Call.Args[2].(*ssa.Const); ok {
				if bits, ok := constant.Int64Val(k.Value); ok && bits > 0 && bits <= 64 {
					return Itv{Lo: new(big.Int).Neg(pow2(uint(bits - 1))), Hi: new(big.Int).Sub(pow2(uint(bits-1)), bi(1))}
				}
			}
		}
		return tr
	case "strconv.ParseUint":
		if idx == 0 && len(c.Call.Args) == 3 {
			if k, ok := c.Call.Args[2].(*ssa.Const); ok {
				if bits, ok := constant.Int64Val(k.Value); ok && bits > 0 && bits <= 64 {
					return Itv{Lo: bi(0), Hi: new(big.Int).Sub(pow2(uint(bits)), bi(1))}
				}
			}
		}
		return tr
	case "(time.Time).Nanosecond":
		return Itv{Lo: bi(0), Hi: bi(999999999)}
	case "(time.Time).Second", "(time.Time).Minute":
		return Itv{Lo: bi(0), Hi: bi(59)}
	case "(time.Time).Hour":
		return Itv{Lo: bi(0), Hi: bi(23)}
	case "math/bits.LeadingZeros8", "math/bits.LeadingZeros16", "math/bits.LeadingZeros32", "math/bits.LeadingZeros64":
		n := int64(map[string]int{"8": 8, "6": 16, "2": 32, "4": 64}[callee.Name()[len(callee.Name())-1:]])
		lo := bi(0)
		if a := g.At(c.Call.Args[0], c.Block()); !a.Bot && a.Hi != nil && a.nonNeg() {
			// x <= Hi  =>  at least n - bitlen(Hi) leading zeros
			lo = bi(n - int64(a.Hi.BitLen()))
		}
		return Itv{Lo: lo, Hi: bi(n)}
	case "(*bytes.Buffer).Len", "(*bytes.Reader).Len", "(*bytes.Buffer).Cap":
		return Itv{Lo: bi(0), Hi: g.maxLen}
	case "io.ReadFull", "io.ReadAtLeast", "(*bytes.Buffer).Write", "(*bytes.Reader).Read", "(*bytes.Buffer).Read":
		if idx == 0 {
			return Itv{Lo: bi(0), Hi: g.maxLen}
		}
		return tr
	case "(*math/big.Int).BitLen":
		return Itv{Lo: bi(0), Hi: new(big.Int).Mul(g.maxLen, bi(8))}
	case "(*math/big.Int).Sign":
		return Itv{Lo: bi(-1), Hi: bi(1)}
	case "(reflect.Value).Len", "(reflect.Value).Cap", "(reflect.Value).NumField", "(reflect.Type).NumField":
		return Itv{Lo: bi(0), Hi: g.maxLen}
	}
	if callee.Blocks == nil || callee.Pkg == nil || !isModulePkg(callee.Pkg.Pkg) {
		return tr
	}
	k := retKey{callee, idx, nil}
	if v, ok := g.retMemo[k]; ok {
		return v
	}
	g.retMemo[k] = tr
	res := bot
	for _, ret := range returnsOf(callee) {
		if idx >= len(ret.Results) {
			res = tr
			break
		}
		res = join(res, g.returnValue(ret, idx))
	}
	res = meet(res, tr)
	g.retMemo[k] = res
	return res
}

// returnValue: interval of result idx at this return, restricted to the non-error case, with
// per-predecessor correlation when both the value and the error are phis of the return block.
func (g *Guards) returnValue(ret *ssa.Return, idx int) Itv {
	n := len(ret.Results)
	v := ret.Results[idx]
	if n > 0 && isErrorType(ret.Results[n-1].Type()) && idx != n-1 {
		e := ret.Results[n-1]
		if provablyNonNilErr(e, 0) {
			return bot
		}
		ephi, eIsPhi := e.(*ssa.Phi)
		vphi, vIsPhi := v.(*ssa.Phi)
		if eIsPhi && ephi.Block() == ret.Block() {
			res := bot
			for i, ee := range ephi.Edges {
				if provablyNonNilErr(ee, 0) {
					continue
				}
				pred := ret.Block().Preds[i]
				if vIsPhi && vphi.Block() == ret.Block() {
					ev := g.At(vphi.Edges[i], pred)
					res = join(res, g.refineEdgeX(vphi.Edges[i], ev, pred, ret.Block(), true))
				} else {
					ev := g.At(v, pred)
					res = join(res, g.refineEdgeX(v, ev, pred, ret.Block(), true))
				}
			}
			return res
		}
	}
	return g.At(v, ret.Block())
}

func (g *Guards) param(p *ssa.Parameter) Itv {
	if !isIntType(p.Type()) {
		return top
	}
	tr := g.typeRange(p.Type())
	fn := p.Parent()
	callers := g.callersOf(fn)
	if callers == nil {
		return tr
	}
	idx := paramIndex(p)
	res := bot
	for _, site := range callers {
		args := site.Common().Args
		if site.Common().IsInvoke() {
			args = append([]ssa.Value{site.Common().Value}, args...)
		}
		// closures: free variables are not parameters; bound receivers shift nothing in SSA
		if idx >= len(args) {
			return tr
		}
		res = join(res, g.At(args[idx], site.Block()))
	}
	return meet(res, tr)
}

func (g *Guards) freeVar(fv *ssa.FreeVar) Itv {
	// captured variable: value of the binding at the MakeClosure sites
	if !isIntType(fv.Type()) {
		// captured by reference: *T
		return top
	}
	return g.typeRange(fv.Type())
}

// ---- refinement by dominating conditions ----------------------------------------------------------

// sameValue: a and b denote the same mathematical value at block blk.
func (g *Guards) sameValue(a, b ssa.Value, blk *ssa.BasicBlock) bool {
	a, b = g.strip(a, blk), g.strip(b, blk)
	if a == b {
		return true
	}
	// loads of the same single-store location
	ua, oka := a.(*ssa.UnOp)
	ub, okb := b.(*ssa.UnOp)
	if oka && okb && ua.Op == token.MUL && ub.Op == token.MUL {
		ba, fa, ok1 := fieldAddrOf(ua.X)
		bb, fb, ok2 := fieldAddrOf(ub.X)
		if ok1 && ok2 && fa == fb && g.samePtr(ba, bb) {
			sts := g.storesTo(ua.Parent(), ba, fa)
			okStores := true
			for _, s := range sts {
				if !(s.Block().Dominates(ua.Block()) && s.Block().Dominates(ub.Block())) {
					okStores = false
				}
			}
			if okStores && len(sts) <= 1 {
				return true
			}
		}
		if ua.X == ub.X && g.noStoreThrough(ua.Parent(), ua.X) {
			return true
		}
	}
	// repeated pure method calls on the same receiver
	ca, oka := a.(*ssa.Call)
	cb, okb := b.(*ssa.Call)
	if oka && okb {
		fa, fb := ca.Call.StaticCallee(), cb.Call.StaticCallee()
		if fa != nil && fa == fb && pureMethods[fa.String()] && len(ca.Call.Args) == len(cb.Call.Args) {
			for i := range ca.Call.Args {
				if g.resolvePtr(ca.Call.Args[i]) != g.resolvePtr(cb.Call.Args[i]) {
					return false
				}
			}
			return true
		}
	}
	return false
}

var pureMethods = map[string]bool{
	"(*math/big.Int).Int64": true, "(*math/big.Int).Uint64": true, "(*math/big.Int).IsInt64": true, "(*math/big.Int).IsUint64": true,
	"(*math/big.Int).Sign": true, "(*math/big.Int).BitLen": true,
	"(reflect.Value).Len": true, "(*bytes.Reader).Len": true,
}

// strip removes value-preserving conversions and resolves single-store loads.
func (g *Guards) strip(v ssa.Value, blk *ssa.BasicBlock) ssa.Value {
	for i := 0; i < 8; i++ {
		switch x := v.(type) {
		case *ssa.Convert:
			if isIntType(x.Type()) && isIntType(x.X.Type()) {
				inner := g.At(x.X, blk)
				if inner.within(g.typeRange(x.Type())) {
					v = x.X
					continue
				}
			}
			return v
		case *ssa.ChangeType:
			v = x.X
			continue
		case *ssa.UnOp:
			if x.Op == token.MUL {
				r := g.resolvePtr(x)
				if r != ssa.Value(x) {
					v = r
					continue
				}
			}
			return v
		}
		return v
	}
	return v
}

// refine intersects it with every constraint on v that holds on entry to block b. Because an
// SSA value never changes, a constraint established on every path to b still holds in b; the
// constraint is computed as the join over b's incoming edges of (constraint at the predecessor
// ∩ condition of the edge), skipping edges whose condition is statically false. Back edges are
// skipped: whatever they contribute already held when the loop was first entered.
func (g *Guards) refine(v ssa.Value, it Itv, b *ssa.BasicBlock) Itv {
	if it.Bot {
		return it
	}
	// note: the walk does not stop at v's defining block: conditions on values that are the same
	// as v (repeated loads of an unchanged location, repeated pure calls) may precede it
	memo := map[*ssa.BasicBlock]Itv{}
	busy := map[*ssa.BasicBlock]bool{}
	var reach func(blk *ssa.BasicBlock, depth int) Itv
	reach = func(blk *ssa.BasicBlock, depth int) Itv {
		if len(blk.Preds) == 0 || depth > 400 {
			return top
		}
		if r, ok := memo[blk]; ok {
			return r
		}
		if busy[blk] {
			return bot // back edge
		}
		busy[blk] = true
		res := bot
		for _, p := range blk.Preds {
			c := reach(p, depth+1)
			if c.Bot {
				continue
			}
			if g.edgeInfeasible(p, blk) {
				continue
			}
			c = g.refineEdgeX(v, meet(c, it), p, blk, true)
			res = join(res, c)
		}
		delete(busy, blk)
		// res stays ⊥ when every incoming edge is infeasible (or a back edge of an unreachable
		// loop): the block is dead and constrains nothing
		memo[blk] = res
		return res
	}
	return meet(it, reach(b, 0))
}

// edgeInfeasible: the branch condition guarding the edge from -> to is statically false.
func (g *Guards) edgeInfeasible(from, to *ssa.BasicBlock) bool {
	if len(from.Instrs) == 0 || len(from.Succs) != 2 || from.Succs[0] == from.Succs[1] {
		return false
	}
	ifi, ok := from.Instrs[len(from.Instrs)-1].(*ssa.If)
	if !ok {
		return false
	}
	pol := from.Succs[0] == to
	val, known := g.condKnown(ifi.Cond, from, 0)
	return known && val != pol
}

func (g *Guards) condKnown(c ssa.Value, at *ssa.BasicBlock, depth int) (bool, bool) {
	if depth > 3 {
		return false, false
	}
	switch x := c.(type) {
	case *ssa.Const:
		if x.Value != nil && x.Value.Kind() == constant.Bool {
			return constant.BoolVal(x.Value), true
		}
	case *ssa.UnOp:
		if x.Op == token.NOT {
			v, k := g.condKnown(x.X, at, depth+1)
			return !v, k
		}
	case *ssa.BinOp:
		if !isIntType(x.X.Type()) {
			return false, false
		}
		if g.depth > 40 {
			return false, false
		}
		a, b := g.At(x.X, at), g.At(x.Y, at)
		if a.Bot || b.Bot || a.Lo == nil || a.Hi == nil || b.Lo == nil || b.Hi == nil {
			return false, false
		}
		switch x.Op {
		case token.EQL:
			if a.Lo.Cmp(a.Hi) == 0 && b.Lo.Cmp(b.Hi) == 0 {
				return a.Lo.Cmp(b.Lo) == 0, true
			}
			if a.Hi.Cmp(b.Lo) < 0 || b.Hi.Cmp(a.Lo) < 0 {
				return false, true
			}
		case token.NEQ:
			if a.Lo.Cmp(a.Hi) == 0 && b.Lo.Cmp(b.Hi) == 0 {
				return a.Lo.Cmp(b.Lo) != 0, true
			}
			if a.Hi.Cmp(b.Lo) < 0 || b.Hi.Cmp(a.Lo) < 0 {
				return true, true
			}
		case token.LSS:
			if a.Hi.Cmp(b.Lo) < 0 {
				return true, true
			}
			if a.Lo.Cmp(b.Hi) >= 0 {
				return false, true
			}
		case token.LEQ:
			if a.Hi.Cmp(b.Lo) <= 0 {
				return true, true
			}
			if a.Lo.Cmp(b.Hi) > 0 {
				return false, true
			}
		case token.GTR:
			if a.Lo.Cmp(b.Hi) > 0 {
				return true, true
			}
			if a.Hi.Cmp(b.Lo) <= 0 {
				return false, true
			}
		case token.GEQ:
			if a.Lo.Cmp(b.Hi) >= 0 {
				return true, true
			}
			if a.Hi.Cmp(b.Lo) < 0 {
				return false, true
			}
		}
	}
	return false, false
}

// refineEdge applies the condition of the edge from -> to (when `from` ends in an If and `to` is
// one of its successors reached only through that edge).
func (g *Guards) refineEdge(v ssa.Value, it Itv, from, to *ssa.BasicBlock) Itv {
	return g.refineEdgeX(v, it, from, to, false)
}

// refineEdgeX: with edgeOnly the refinement is valid for values flowing along that very edge
// (phi operands, per-predecessor return correlation) even when `to` has other predecessors.
func (g *Guards) refineEdgeX(v ssa.Value, it Itv, from, to *ssa.BasicBlock, edgeOnly bool) Itv {
	if len(from.Instrs) == 0 {
		return it
	}
	ifi, ok := from.Instrs[len(from.Instrs)-1].(*ssa.If)
	if !ok || len(from.Succs) != 2 {
		return it
	}
	var pol bool
	switch {
	case from.Succs[0] == to && from.Succs[1] != to:
		pol = true
	case from.Succs[1] == to && from.Succs[0] != to:
		pol = false
	default:
		return it
	}
	if len(to.Preds) != 1 && !edgeOnly {
		return it
	}
	return g.applyCond(v, it, ifi.Cond, pol, from, 0)
}

func (g *Guards) applyCond(v ssa.Value, it Itv, cond ssa.Value, pol bool, at *ssa.BasicBlock, depth int) Itv {
	if depth > 4 {
		return it
	}
	switch c := cond.(type) {
	case *ssa.UnOp:
		if c.Op == token.NOT {
			return g.applyCond(v, it, c.X, !pol, at, depth+1)
		}
	case *ssa.BinOp:
		op := c.Op
		switch op {
		case token.EQL, token.NEQ, token.LSS, token.LEQ, token.GTR, token.GEQ:
		default:
			return it
		}
		if !isIntType(c.X.Type()) {
			return it
		}
		if !pol {
			op = negateOp(op)
		}
		if g.sameValue(c.X, v, at) {
			other := g.atNoRefineOf(c.Y, at, v)
			if op == token.NEQ {
				return trimNeq(it, other)
			}
			return meet(it, constrain(op, other))
		}
		if g.sameValue(c.Y, v, at) {
			other := g.atNoRefineOf(c.X, at, v)
			if op == token.NEQ {
				return trimNeq(it, other)
			}
			return meet(it, constrain(flipOp(op), other))
		}
	}
	return it
}

// atNoRefineOf evaluates the other operand of a comparison.
func (g *Guards) atNoRefineOf(o ssa.Value, at *ssa.BasicBlock, v ssa.Value) Itv {
	return g.At(o, at)
}

func negateOp(op token.Token) token.Token {
	switch op {
	case token.EQL:
		return token.NEQ
	case token.NEQ:
		return token.EQL
	case token.LSS:
		return token.GEQ
	case token.LEQ:
		return token.GTR
	case token.GTR:
		return token.LEQ
	case token.GEQ:
		return token.LSS
	}
	return op
}

func flipOp(op token.Token) token.Token {
	switch op {
	case token.LSS:
		return token.GTR
	case token.LEQ:
		return token.GEQ
	case token.GTR:
		return token.LSS
	case token.GEQ:
		return token.LEQ
	}
	return op
}

// constrain: the set of x with x op y for some y in other.
func constrain(op token.Token, o Itv) Itv {
	if o.Bot {
		return top
	}
	switch op {
	case token.EQL:
		return o
	case token.NEQ:
		return top
	case token.LSS:
		if o.Hi != nil {
			return Itv{Hi: new(big.Int).Sub(o.Hi, bi(1))}
		}
	case token.LEQ:
		if o.Hi != nil {
			return Itv{Hi: o.Hi}
		}
	case token.GTR:
		if o.Lo != nil {
			return Itv{Lo: new(big.Int).Add(o.Lo, bi(1))}
		}
	case token.GEQ:
		if o.Lo != nil {
			return Itv{Lo: o.Lo}
		}
	}
	return top
}

// trimNeq: x != c removes c when it is an end point of the interval.
func trimNeq(it, o Itv) Itv {
	if o.Bot || o.Lo == nil || o.Hi == nil || o.Lo.Cmp(o.Hi) != 0 || it.Bot {
		return it
	}
	r := it
	if r.Lo != nil && r.Lo.Cmp(o.Lo) == 0 {
		r.Lo = new(big.Int).Add(r.Lo, bi(1))
	}
	if r.Hi != nil && r.Hi.Cmp(o.Lo) == 0 {
		r.Hi = new(big.Int).Sub(r.Hi, bi(1))
	}
	if r.Lo != nil && r.Hi != nil && r.Lo.Cmp(r.Hi) > 0 {
		return bot
	}
	return r
}

// noStoreThrough: the function never stores to an address of p's pointer type and never passes p
// to a call, so two loads *p see the same value (type-based aliasing within one function).
func (g *Guards) noStoreThrough(fn *ssa.Function, p ssa.Value) bool {
	for _, b := range fn.Blocks {
		for _, ins := range b.Instrs {
			switch x := ins.(type) {
			case *ssa.Store:
				if types.Identical(x.Addr.Type(), p.Type()) {
					return false
				}
			case ssa.CallInstruction:
				for _, a := range x.Common().Args {
					if a == p {
						return false
					}
				}
			}
		}
	}
	return true
}
