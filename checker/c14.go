package main

// C14: NULL is preserved and distinguishable in the CQL value codecs - obligations enumerated from
// the type switches of every convertTo*/convertFrom* function and decided by abstract
// interpretation of each clause.
//
//   nil-source     convertToX: the `nil` clause and every pointer clause on its nil path report
//                  "was nil", return no error and never dereference the nil pointer
//   null-dest      convertFromX, per destination clause: nil destination => ErrNilDestination and no
//                  store; destination ok and value null => exactly one store of the zero value
//                  and no error; destination ok and value present => a store or an error
//   encode-guard   every Codec.Encode reaches its writer only after a successful conversion that
//                  did not report nil
//   null-element   container injectors zero the element/field on a null value on every path;
//                  v2 collection writers refuse a nil *encoded* element before writing it

import (
	"fmt"
	"go/ast"
	"go/constant"
	"go/token"
	"go/types"
	"sort"
	"strings"

	"golang.org/x/tools/go/ssa"
)

func init() { register("C14", "other", checkC14) }

func checkC14(p *Program, r *Report) {
	r.Explanation = "For every one of the ~50 convertTo*/convertFrom* functions of package datacodec the clauses of the type switch are enumerated from the type-checked source and each clause is interpreted abstractly under the three relevant situations (nil source / nil destination / null value), yielding per-clause obligations (~600): nil sources report 'was nil' without error and without dereferencing; nil destinations are refused without a store; null values store exactly the zero value of the destination's element type; every Encode reaches its writer only after a non-nil, successful conversion; container injectors zero elements on null on every path and v2 writers refuse nil encoded elements. The behaviour of package reflect is trusted."
	r.Trusted = []string{"absint evaluator (type-switch clauses forked, dereference and store events recorded)", "package reflect"}
	r.Floor("nil-source", 200)
	r.Floor("null-dest", 100)
	pk := p.Pkg("datacodec")
	scope := pk.Types.Scope()
	var names []string
	for _, n := range scope.Names() {
		names = append(names, n)
	}
	sort.Strings(names)
	for _, n := range names {
		fn, ok := scope.Lookup(n).(*types.Func)
		if !ok {
			continue
		}
		switch {
		case strings.HasPrefix(n, "convertTo"):
			c14ConvertTo(p, r, fn)
		case strings.HasPrefix(n, "convertFrom"):
			c14ConvertFrom(p, r, fn)
		}
	}
	c14EncodeGuard(p, r)
	c14DecodeGuard(p, r)
	c14Containers(p, r)
	c14NullElement(p, r)
	c14NillableWrap(p, r)
}

// c14Setup: helpers are summarised as call atoms, except error constructors (functions whose only
// result is an error), which are interpreted so that their result is known to be non-nil.
func c14Setup(in *Interp, self *types.Func) {
	in.SentinelErrors = true
	in.NoInline = func(f *types.Func) bool {
		if !isModulePkg(f.Pkg()) || f == self {
			return false
		}
		sig := f.Type().(*types.Signature)
		if sig.Results().Len() == 1 && isErrorType(sig.Results().At(0).Type()) && strings.HasPrefix(f.Name(), "err") {
			return false
		}
		// small value helpers of the package (compactV4, ...) are interpreted: one non-error
		// result, unexported, no receiver
		if sig.Recv() == nil && !f.Exported() && sig.Results().Len() == 1 && !isErrorType(sig.Results().At(0).Type()) && f.Pkg() == self.Pkg() &&
			!strings.HasPrefix(f.Name(), "write") && !strings.HasPrefix(f.Name(), "read") && !strings.HasPrefix(f.Name(), "convert") && !strings.HasPrefix(f.Name(), "reflect") {
			return false
		}
		return true
	}
}

func hasTypeSwitchOnParam(p *Program, fn *types.Func, param int) bool {
	decl, _ := p.Decl(fn)
	if decl == nil {
		return false
	}
	found := false
	ast.Inspect(decl.Body, func(n ast.Node) bool {
		if _, ok := n.(*ast.TypeSwitchStmt); ok {
			found = true
		}
		return true
	})
	return found
}

// clauseOf extracts the type-switch clause label of a path ("type(p0)=*int").
func clauseOf(st *State, key string) string {
	for _, a := range st.atomLog {
		if strings.HasPrefix(a, "type("+key+")=") {
			return strings.TrimPrefix(a, "type("+key+")=")
		}
	}
	return ""
}

func c14ConvertTo(p *Program, r *Report, fn *types.Func) {
	sig := fn.Type().(*types.Signature)
	if sig.Params().Len() < 1 || !hasTypeSwitchOnParam(p, fn, 0) {
		return
	}
	if _, isI := sig.Params().At(0).Type().Underlying().(*types.Interface); !isI {
		return
	}
	// result positions
	wasNilIdx, errIdx := -1, -1
	for i := 0; i < sig.Results().Len(); i++ {
		v := sig.Results().At(i)
		if isErrorType(v.Type()) {
			errIdx = i
		} else if b, ok := v.Type().Underlying().(*types.Basic); ok && b.Kind() == types.Bool && strings.Contains(strings.ToLower(v.Name()), "nil") {
			wasNilIdx = i
		}
	}
	in := newInterp(p, &effHooks{})
	c14Setup(in, fn)
	_, args := paramVals(fn)
	outs := in.RunFunc(fn, nil, args, nil)
	if len(in.Undecided) > 0 {
		r.Fail("nil-source", fn.Name(), fn.Pos(), "undecided: %s", strings.Join(in.Undecided, "; "))
		return
	}
	sawNilClause := false
	type agg struct {
		bad string
		n   int
	}
	clauses := map[string]*agg{}
	for _, o := range outs {
		cl := clauseOf(o.St, "p0")
		if cl == "" || cl == "default" || cl == "multi" {
			continue
		}
		a := clauses[cl]
		if a == nil {
			a = &agg{}
			clauses[cl] = a
		}
		a.n++
		isPtrClause := strings.HasPrefix(cl, "*") || strings.HasPrefix(cl, "[]") || strings.HasPrefix(cl, "map[")
		nilPath := cl == "nil"
		if cl == "nil" {
			sawNilClause = true
		}
		if isPtrClause {
			// the path on which the asserted value is nil
			for at, pol := range o.St.atoms {
				if strings.HasPrefix(at, "nil(p0.(") && pol {
					nilPath = true
				}
			}
		}
		if !nilPath {
			if wasNilIdx >= 0 && len(o.Ret) > wasNilIdx && o.IsErr == 0 {
				if b, ok := in.resolve(o.Ret[wasNilIdx], o.St).isBool(); ok && b {
					a.bad = "a non-nil source is reported as nil"
				}
			}
			continue
		}
		// nil path obligations
		for _, s := range o.St.trace {
			if s.Kind == "deref" && s.Arg.K == KExpr && strings.HasPrefix(s.Arg.Key, "p0.(") {
				a.bad = fmt.Sprintf("the nil pointer is dereferenced (%s) on the path where it is nil", s.Extra)
			}
		}
		if errIdx >= 0 && o.IsErr == 1 {
			a.bad = "a nil source yields an error instead of a null value"
		}
		if wasNilIdx >= 0 && len(o.Ret) > wasNilIdx {
			if b, ok := in.resolve(o.Ret[wasNilIdx], o.St).isBool(); !ok || !b {
				a.bad = "a nil source is not reported as nil (wasNil is not true on the nil path)"
			}
		} else if wasNilIdx < 0 && len(o.Ret) > 0 {
			// nil is represented by a nil first result
			v := in.resolve(o.Ret[0], o.St)
			if v.K != KNil && !(v.K == KExpr && strings.HasPrefix(v.Key, "p0")) {
				a.bad = fmt.Sprintf("a nil source does not produce a nil value (result %v)", v)
			}
		}
	}
	// typed nil slices and maps: every non-pointer slice/map clause, run with the source fixed to
	// the nil value of that type, must yield null and no error
	srcTypes, _ := switchClauses(p, fn)
	for _, ct := range srcTypes {
		switch ct.Underlying().(type) {
		case *types.Slice, *types.Map:
		default:
			continue
		}
		in2 := newInterp(p, &effHooks{})
		c14Setup(in2, fn)
		_, a2 := paramVals(fn)
		a2[0] = Val{K: KNil, T: ct, DynT: ct}
		outs2 := in2.RunFunc(fn, nil, a2, nil)
		key := fmt.Sprintf("%s nil %s", fn.Name(), types.TypeString(ct, relQual))
		bad := ""
		if len(in2.Undecided) > 0 {
			bad = "undecided: " + strings.Join(in2.Undecided, "; ")
		}
		for _, o := range outs2 {
			if o.IsErr == 1 {
				bad = fmt.Sprintf("a nil %s source yields an error instead of a null value", types.TypeString(ct, relQual))
				continue
			}
			if wasNilIdx >= 0 && len(o.Ret) > wasNilIdx {
				if b, ok := in2.resolve(o.Ret[wasNilIdx], o.St).isBool(); !ok || !b {
					bad = fmt.Sprintf("a nil %s source is not reported as nil", types.TypeString(ct, relQual))
				}
			} else if wasNilIdx < 0 && len(o.Ret) > 0 {
				if v := in2.resolve(o.Ret[0], o.St); v.K != KNil {
					bad = fmt.Sprintf("a nil %s source does not produce a null value (result %v): it is encoded as an empty value", types.TypeString(ct, relQual), v)
				}
			}
		}
		if len(outs2) == 0 && bad == "" {
			bad = "no path"
		}
		if bad != "" {
			r.Fail("nil-source", key, fn.Pos(), "%s", bad)
		} else {
			r.OKf("nil-source", key, fn.Pos(), "nil %s => null, no error", types.TypeString(ct, relQual))
		}
	}
	if !sawNilClause {
		r.Fail("nil-source", fn.Name()+" case nil", fn.Pos(), "%s has no `case nil` clause: an untyped nil source is rejected instead of encoded as NULL", fn.Name())
	} else {
		r.OKf("nil-source", fn.Name()+" case nil", fn.Pos(), "present")
	}
	var cls []string
	for c := range clauses {
		cls = append(cls, c)
	}
	sort.Strings(cls)
	for _, c := range cls {
		a := clauses[c]
		key := fmt.Sprintf("%s case %s", fn.Name(), c)
		if a.bad != "" {
			r.Fail("nil-source", key, fn.Pos(), "%s", a.bad)
		} else {
			r.OKf("nil-source", key, fn.Pos(), "%d paths ok", a.n)
		}
	}
}

func isZeroStore(v Val, in *Interp, st *State) bool {
	v = in.resolve(v, st)
	switch v.K {
	case KNil:
		return true
	case KConst:
		switch v.C.Kind() {
		case constant.Int, constant.Float:
			return constant.Sign(v.C) == 0
		case constant.String:
			return constant.StringVal(v.C) == ""
		case constant.Bool:
			return !constant.BoolVal(v.C)
		}
	case KObj:
		// a composite literal with no field set: T{}
		for _, fv := range st.heap[v.Obj] {
			if !isZeroStore(fv, in, st) {
				return false
			}
		}
		return true
	case KSlice:
		return len(v.Elems) == 0
	}
	return false
}

func c14ConvertFrom(p *Program, r *Report, fn *types.Func) {
	sig := fn.Type().(*types.Signature)
	np := sig.Params().Len()
	// locate wasNull and dest parameters
	nullIdx, destIdx := -1, -1
	for i := 0; i < np; i++ {
		v := sig.Params().At(i)
		if b, ok := v.Type().Underlying().(*types.Basic); ok && b.Kind() == types.Bool && strings.Contains(strings.ToLower(v.Name()), "null") {
			nullIdx = i
		}
		if _, ok := v.Type().Underlying().(*types.Interface); ok && strings.Contains(strings.ToLower(v.Name()), "dest") {
			destIdx = i
		}
	}
	if destIdx < 0 {
		return
	}
	valNull := -1 // without a wasNull parameter, NULL is a nil []byte value
	if nullIdx < 0 {
		if sl, ok := sig.Params().At(0).Type().Underlying().(*types.Slice); ok && destIdx != 0 {
			_ = sl
			valNull = 0
		} else {
			return
		}
	}
	destKey := fmt.Sprintf("p%d", destIdx)
	type agg struct {
		bad string
		n   int
	}
	clauses := map[string]*agg{}
	for _, wasNull := range []bool{true, false} {
		in := newInterp(p, &effHooks{})
		c14Setup(in, fn)
		_, args := paramVals(fn)
		if nullIdx >= 0 {
			args[nullIdx] = boolVal(wasNull)
		} else if wasNull {
			args[valNull] = Val{K: KNil, T: args[valNull].T}
		} else {
			args[valNull] = Val{K: KNonNil, T: args[valNull].T}
		}
		outs := in.RunFunc(fn, nil, args, nil)
		if len(in.Undecided) > 0 {
			r.Fail("null-dest", fn.Name(), fn.Pos(), "undecided: %s", strings.Join(in.Undecided, "; "))
			return
		}
		for _, o := range outs {
			cl := clauseOf(o.St, destKey)
			if cl == "" || cl == "default" || cl == "multi" || cl == "nil" {
				continue
			}
			a := clauses[cl]
			if a == nil {
				a = &agg{}
				clauses[cl] = a
			}
			a.n++
			destNil, known := false, false
			for at, pol := range o.St.atoms {
				if strings.HasPrefix(at, "nil("+destKey+".(") {
					destNil, known = pol, true
				}
			}
			var stores []*Sym
			used := false
			isDest := func(v Val) bool { return v.K == KExpr && strings.HasPrefix(v.Key, destKey+".(") }
			for _, s := range o.St.trace {
				if s.Kind == "dstore" && len(s.Args) == 1 && isDest(s.Args[0]) {
					stores = append(stores, s)
				}
				if isDest(s.Arg) {
					used = true
				}
				for _, a := range s.Args {
					if isDest(a) {
						used = true
					}
				}
			}
			switch {
			case !known:
				if len(stores) > 0 {
					a.bad = "the destination is written without testing it for nil"
				}
			case destNil:
				if len(stores) > 0 {
					a.bad = "a nil destination is written through"
				} else if o.IsErr != 1 {
					a.bad = "a nil destination is not refused with an error"
				}
			case wasNull:
				if o.IsErr == 1 {
					a.bad = "decoding NULL into a valid destination raises an error"
				} else if len(stores) != 1 {
					a.bad = fmt.Sprintf("decoding NULL performs %d stores to the destination; exactly one store of the zero value is required (a stale value would survive)", len(stores))
				} else if !isZeroStore(stores[0].Arg, in, o.St) {
					a.bad = fmt.Sprintf("decoding NULL stores %v, not the zero value of the destination", in.resolve(stores[0].Arg, o.St))
				}
			default:
				if len(stores) == 0 && !used && o.IsErr != 1 {
					a.bad = "a present value is neither stored nor reported as an error"
				}
			}
		}
	}
	var cls []string
	for c := range clauses {
		cls = append(cls, c)
	}
	sort.Strings(cls)
	for _, c := range cls {
		a := clauses[c]
		key := fmt.Sprintf("%s case %s", fn.Name(), c)
		if a.bad != "" {
			r.Fail("null-dest", key, fn.Pos(), "%s", a.bad)
		} else {
			r.OKf("null-dest", key, fn.Pos(), "nil destination refused, NULL stores the zero value, present value stored (%d paths)", a.n)
		}
	}
}

// c14EncodeGuard: Encode reaches write* only after convertTo* succeeded with wasNil == false.
func c14EncodeGuard(p *Program, r *Report) {
	r.Floor("encode-guard", 17)
	codecI := p.LookupType("datacodec", "Codec").Type().Underlying().(*types.Interface)
	scope := p.Pkg("datacodec").Types.Scope()
	for _, n := range scope.Names() {
		tn, ok := scope.Lookup(n).(*types.TypeName)
		if !ok {
			continue
		}
		if _, isI := tn.Type().Underlying().(*types.Interface); isI {
			continue
		}
		if !types.Implements(types.NewPointer(tn.Type()), codecI) {
			continue
		}
		m := methodOfNamed(tn.Type().(*types.Named), "Encode")
		if m == nil {
			continue
		}
		in := newInterp(p, &effHooks{})
		c14Setup(in, m)
		recv, args := paramVals(m)
		outs := in.RunFunc(m, recv, args, nil)
		key := tn.Name() + ".Encode"
		bad := ""
		nWrites := 0
		for _, o := range outs {
			convOK, wrote := false, ""
			nilKnownFalse := false
			for _, s := range o.St.trace {
				if s.Kind == "callret" && isSourceConversion(s.Name) && s.Extra == "ok" {
					convOK = true
				}
				if s.Kind == "callatom" && (strings.HasPrefix(s.Name, "write") && !strings.HasPrefix(s.Name, "writeCollectionSize")) {
					wrote = s.Name
				}
			}
			for at, pol := range o.St.atoms {
				if isSourceConversion(at) && strings.HasSuffix(at, "#1") && !pol {
					nilKnownFalse = true
				}
				if strings.HasPrefix(at, "nil(") && isSourceConversion(at[4:]) && !pol {
					nilKnownFalse = true
				}
			}
			if wrote == "" {
				continue
			}
			nWrites++
			if !convOK {
				bad = fmt.Sprintf("%s is called although the conversion of the source failed or did not happen", wrote)
			} else if !nilKnownFalse {
				bad = fmt.Sprintf("%s is called without excluding a nil source: NULL would be encoded as a value", wrote)
			}
		}
		if bad != "" {
			r.Fail("encode-guard", key, m.Pos(), "%s", bad)
		} else if nWrites > 0 {
			r.OKf("encode-guard", key, m.Pos(), "writer reached only after a successful, non-nil conversion")
		}
	}
}

func isSourceConversion(name string) bool {
	if i := strings.LastIndex(name, "."); i >= 0 && !strings.Contains(name[i:], "#") {
		name = name[i+1:]
	} else if i >= 0 {
		// "codec.createExtractor#0"
		name = name[strings.Index(name, ".")+1:]
	}
	return strings.HasPrefix(name, "convertTo") || strings.HasPrefix(name, "createExtractor")
}

// c14DecodeGuard: with a NULL (nil) source, every Decode hands "null" to its destination
// conversion and reports wasNull == true; the null flag returned is the one the conversion saw.
func c14DecodeGuard(p *Program, r *Report) {
	r.Floor("decode-guard", 20)
	for _, tn := range codecImpls(p) {
		m := methodOfNamed(tn.Type().(*types.Named), "Decode")
		if m == nil {
			continue
		}
		in := newInterp(p, &effHooks{})
		in.SentinelErrors = true
		in.NoInline = func(f *types.Func) bool {
			if !isModulePkg(f.Pkg()) || f == m || strings.HasPrefix(f.Name(), "read") && f.Pkg().Name() == "datacodec" {
				return false
			}
			sig := f.Type().(*types.Signature)
			if sig.Results().Len() == 1 && isErrorType(sig.Results().At(0).Type()) && strings.HasPrefix(f.Name(), "err") {
				return false
			}
			return true
		}
		recv, args := paramVals(m)
		args[0] = Val{K: KNil, T: args[0].T}
		outs := in.RunFunc(m, recv, args, nil)
		key := tn.Name() + ".Decode(nil)"
		if len(in.Undecided) > 0 {
			r.Fail("decode-guard", key, m.Pos(), "undecided: %s", strings.Join(in.Undecided, "; "))
			continue
		}
		bad, n := "", 0
		for _, o := range outs {
			var conv *Sym
			for _, s := range o.St.trace {
				if s.Kind == "callatom" && (strings.HasPrefix(s.Name, "convertFrom") || strings.HasSuffix(s.Name, ".createInjector")) {
					conv = s
				}
				if s.Kind == "callatom" && strings.HasPrefix(s.Name, "read") && !strings.HasPrefix(s.Name, "reflect") {
					bad = fmt.Sprintf("a NULL source reaches the container reader %s", s.Name)
				}
			}
			if conv == nil {
				if o.IsErr == 0 {
					bad = "a NULL source is decoded successfully without telling the destination"
				}
				continue
			}
			n++
			// which argument carries the null flag?
			flagged := false
			nullIdx := -1
			if strings.HasSuffix(conv.Name, ".createInjector") {
				nullIdx = 1
			} else if f, ok := p.Pkg("datacodec").Types.Scope().Lookup(conv.Name).(*types.Func); ok {
				ps := f.Type().(*types.Signature).Params()
				for i := 0; i < ps.Len(); i++ {
					if strings.Contains(strings.ToLower(ps.At(i).Name()), "null") {
						nullIdx = i
					}
				}
			}
			if nullIdx >= 0 && nullIdx < len(conv.Args) {
				flagged = true
				if b, ok := in.resolve(conv.Args[nullIdx], o.St).isBool(); !ok || !b {
					bad = fmt.Sprintf("a NULL source is passed to %s as a present value (wasNull is not true)", conv.Name)
				}
			}
			if !flagged {
				// bytes-valued conversions: NULL is the nil slice itself
				if len(conv.Args) == 0 || in.resolve(conv.Args[0], o.St).K != KNil {
					bad = fmt.Sprintf("a NULL source does not reach %s as null", conv.Name)
				}
			}
			if o.IsErr != 1 && len(o.Ret) > 0 {
				v := in.resolve(o.Ret[0], o.St)
				if b, ok := v.isBool(); ok {
					if !b {
						bad = "Decode reports wasNull=false for a NULL source"
					}
				} else if !(v.K == KExpr && strings.HasPrefix(v.Key, conv.Name+"#0")) {
					bad = fmt.Sprintf("Decode's wasNull result (%v) is not the null flag of the conversion", v)
				}
			}
		}
		if n == 0 && bad == "" {
			bad = "no path reaches a destination conversion"
		}
		if bad != "" {
			r.Fail("decode-guard", key, m.Pos(), "%s", bad)
		} else {
			r.OKf("decode-guard", key, m.Pos(), "NULL is handed to the destination conversion and reported (%d paths)", n)
		}
	}
}

func codecImpls(p *Program) []*types.TypeName {
	codecI := p.LookupType("datacodec", "Codec").Type().Underlying().(*types.Interface)
	scope := p.Pkg("datacodec").Types.Scope()
	var out []*types.TypeName
	for _, n := range scope.Names() {
		tn, ok := scope.Lookup(n).(*types.TypeName)
		if !ok {
			continue
		}
		if _, isI := tn.Type().Underlying().(*types.Interface); isI {
			continue
		}
		if types.Implements(types.NewPointer(tn.Type()), codecI) {
			out = append(out, tn)
		}
	}
	return out
}

// c14Containers: the reflection helpers of the container codecs.
func c14Containers(p *Program, r *Report) {
	r.Floor("null-container", 10)
	run := func(fn *types.Func, set func(recv *Val, args []Val)) (*Interp, []*PathOut) {
		in := newInterp(p, &effHooks{})
		c14Setup(in, fn)
		recv, args := paramVals(fn)
		set(recv, args)
		return in, in.RunFunc(fn, recv, args, nil)
	}
	// reflectSource: nil source => wasNil; otherwise wasNil only from IsNil()
	{
		fn := p.LookupFunc("datacodec", "reflectSource")
		in, outs := run(fn, func(_ *Val, a []Val) { a[0] = Val{K: KNil, T: a[0].T} })
		bad := ""
		for _, o := range outs {
			if b, ok := in.resolve(o.Ret[2], o.St).isBool(); !ok || !b {
				bad = "a nil source is not reported as nil"
			}
		}
		in, outs = run(fn, func(_ *Val, a []Val) { a[0] = Val{K: KNonNil, T: a[0].T} })
		for _, o := range outs {
			v := in.resolve(o.Ret[2], o.St)
			if b, ok := v.isBool(); ok && b {
				bad = "a non-nil source is unconditionally reported as nil"
			}
		}
		if bad != "" {
			r.Fail("null-container", "reflectSource", fn.Pos(), "%s", bad)
		} else {
			r.OKf("null-container", "reflectSource", fn.Pos(), "nil source reported; non-nil source never unconditionally nil")
		}
	}
	// reflectDest
	{
		fn := p.LookupFunc("datacodec", "reflectDest")
		bad := ""
		for _, wasNull := range []bool{true, false} {
			_, outs := run(fn, func(_ *Val, a []Val) { a[1] = boolVal(wasNull) })
			for _, o := range outs {
				zero, set := false, false
				for _, s := range o.St.trace {
					if s.Kind == "ext" && s.Name == "reflect.Zero" {
						zero = true
					}
					if s.Kind == "ext" && s.Name == "(reflect.Value).Set" {
						set = true
					}
				}
				nilDest := false
				for at, pol := range o.St.atoms {
					if at == "nil(p0)" && pol {
						nilDest = true
					}
				}
				switch {
				case nilDest && o.IsErr != 1:
					bad = "a nil destination is not refused"
				case o.IsErr == 1 && set:
					bad = "the destination is written on an error path"
				case o.IsErr == 0 && wasNull && !(zero && set):
					bad = "a NULL value does not reset the destination to its zero value on every success path"
				case o.IsErr == 0 && !wasNull && set:
					bad = "a present value resets the destination"
				}
			}
		}
		if bad != "" {
			r.Fail("null-container", "reflectDest", fn.Pos(), "%s", bad)
		} else {
			r.OKf("null-container", "reflectDest", fn.Pos(), "nil refused; NULL zeroes the destination; present value leaves it")
		}
	}
	for _, tn := range codecImpls(p) {
		named := tn.Type().(*types.Named)
		if m := methodOfNamed(named, "createExtractor"); m != nil {
			in, outs := run(m, func(_ *Val, a []Val) {})
			bad, n := "", 0
			for _, o := range outs {
				isNil := false
				for at, pol := range o.St.atoms {
					if at == "reflectSource#2" && pol {
						isNil = true
					}
				}
				if !isNil {
					continue
				}
				n++
				if o.IsErr == 1 {
					continue // unsupported source type
				}
				if v := in.resolve(o.Ret[0], o.St); v.K != KNil {
					bad = fmt.Sprintf("a nil source yields an extractor (%v): NULL would be encoded as an empty container", v)
				}
			}
			if n == 0 {
				bad = "no path examines reflectSource's nil flag"
			}
			key := tn.Name() + ".createExtractor"
			if bad != "" {
				r.Fail("null-container", key, m.Pos(), "%s", bad)
			} else {
				r.OKf("null-container", key, m.Pos(), "nil source => nil extractor (%d paths)", n)
			}
		}
		if m := methodOfNamed(named, "createInjector"); m != nil {
			in, outs := run(m, func(_ *Val, a []Val) { a[1] = boolVal(true) })
			bad, n := "", 0
			for _, o := range outs {
				passed := false
				for _, s := range o.St.trace {
					if s.Kind == "callatom" && s.Name == "reflectDest" && len(s.Args) == 2 {
						if b, ok := in.resolve(s.Args[1], o.St).isBool(); ok && b {
							passed = true
						}
					}
				}
				if o.IsErr == 1 {
					continue
				}
				n++
				if !passed {
					bad = "reflectDest is not told that the value is NULL: the destination keeps its previous contents"
				}
				if v := in.resolve(o.Ret[0], o.St); v.K != KNil {
					bad = fmt.Sprintf("a NULL value yields an injector factory (%v): the reader would run on an empty source", v)
				}
			}
			if n == 0 {
				bad = "no success path"
			}
			key := tn.Name() + ".createInjector(null)"
			if bad != "" {
				r.Fail("null-container", key, m.Pos(), "%s", bad)
			} else {
				r.OKf("null-container", key, m.Pos(), "NULL => destination zeroed by reflectDest, no injector (%d paths)", n)
			}
		}
	}
}

// c14NullElement: injectors zero on null; v2 writers refuse nil encoded elements.
func c14NullElement(p *Program, r *Report) {
	r.Floor("null-element", 4)
	for _, typ := range []string{"sliceInjector", "structInjector", "mapInjector"} {
		m := p.TryMethod("datacodec", typ, "setElem")
		if m == nil {
			continue
		}
		sig := m.Type().(*types.Signature)
		nullIdx := sig.Params().Len() - 1
		in := newInterp(p, &effHooks{})
		c14Setup(in, m)
		recv, args := paramVals(m)
		args[nullIdx] = boolVal(true)
		outs := in.RunFunc(m, recv, args, nil)
		key := typ + ".setElem(null)"
		bad := ""
		n := 0
		for _, o := range outs {
			if o.IsErr == 1 {
				continue
			}
			n++
			zero, set := false, false
			for _, s := range o.St.trace {
				if s.Kind == "ext" && s.Name == "reflect.Zero" {
					zero = true
				}
				if s.Kind == "ext" && (s.Name == "(reflect.Value).Set" || s.Name == "(reflect.Value).SetMapIndex") {
					set = true
				}
			}
			if !zero || !set {
				bad = fmt.Sprintf("a successful path for a NULL element does not store reflect.Zero into the destination element (conditions {%s}): a reused destination keeps its previous value", strings.Join(o.St.atomLog, " "))
			}
		}
		if n == 0 {
			bad = "no success path"
		}
		if bad != "" {
			r.Fail("null-element", key, m.Pos(), "%s", bad)
		} else {
			r.OKf("null-element", key, m.Pos(), "every success path stores the zero value")
		}
	}
	v2ElementGuard(p, r, "null-element")
}

// v2ElementGuard: in the protocol-v2 writers WriteShortBytes(x) must be dominated by the false edge
// of x == nil on the encoded element itself - exactly nil is refused (NULL cannot be expressed),
// an empty element is written.
func v2ElementGuard(p *Program, r *Report, rule string) {
	// the two container writers and the package helpers they delegate the element writing to
	var fns []*ssa.Function
	seenFn := map[*ssa.Function]bool{}
	for _, name := range []string{"writeCollection", "writeMap"} {
		root := p.SSA().FuncValue(p.LookupFunc("datacodec", name))
		if !seenFn[root] {
			seenFn[root] = true
			fns = append(fns, root)
		}
		for _, b := range root.Blocks {
			for _, ins := range b.Instrs {
				if c, ok := ins.(*ssa.Call); ok {
					if g := c.Call.StaticCallee(); g != nil && g.Pkg == root.Pkg && g.Blocks != nil && g.Signature.Recv() == nil && !seenFn[g] && strings.HasPrefix(g.Name(), "write") {
						seenFn[g] = true
						fns = append(fns, g)
					}
				}
			}
		}
	}
	for _, fn := range fns {
		name := fn.Name()
		n := 0
		for _, b := range fn.Blocks {
			for _, ins := range b.Instrs {
				c, ok := ins.(*ssa.Call)
				if !ok {
					continue
				}
				f := c.Call.StaticCallee()
				if f == nil || f.Name() != "WriteShortBytes" {
					continue
				}
				n++
				key := fmt.Sprintf("%s WriteShortBytes#%d", name, n)
				arg := c.Call.Args[0]
				guarded := false
				for d := b; d.Idom() != nil && !guarded; d = d.Idom() {
					id := d.Idom()
					ifi, ok := id.Instrs[len(id.Instrs)-1].(*ssa.If)
					if !ok {
						continue
					}
					bo, ok := ifi.Cond.(*ssa.BinOp)
					if !ok || (bo.Op != token.EQL && bo.Op != token.NEQ) {
						continue
					}
					for _, pair := range [][2]ssa.Value{{bo.X, bo.Y}, {bo.Y, bo.X}} {
						k, isK := pair[1].(*ssa.Const)
						if isK && k.IsNil() && pair[0] == arg {
							nonNilEdge := id.Succs[1]
							if bo.Op == token.NEQ {
								nonNilEdge = id.Succs[0]
							}
							if nonNilEdge == d || dominatesVia(nonNilEdge, d) {
								guarded = true
							}
						}
					}
				}
				if guarded {
					r.OKf(rule, key, c.Pos(), "the encoded element is tested against nil before the v2 writer")
				} else {
					r.Fail(rule, key, c.Pos(), "in the protocol-v2 branch the encoded element %s reaches WriteShortBytes without an `== nil` test on that very value: a NULL element is written as an empty one (or an empty element is refused)", describeVal(arg))
				}
			}
		}
	}
}

// c14NillableWrap: ensureNillable makes every preferred Go type able to hold NULL: for each
// reflect.Kind that is a value kind (bool, numbers, string, struct, array) the type is wrapped in a
// pointer; nillable kinds (interface, pointer, slice, map) are left alone. Tabulated over all kinds
// by interpreting the function with Kind() fixed to each constant (comparisons only).
func c14NillableWrap(p *Program, r *Report) {
	fnObj, ok := p.Pkg("datacodec").Types.Scope().Lookup("ensureNillable").(*types.Func)
	if !ok {
		r.Fail("nillable-wrap", "ensureNillable", token.NoPos, "anchor: datacodec.ensureNillable not found")
		return
	}
	var reflectPkg *types.Package
	for _, imp := range p.Pkg("datacodec").Types.Imports() {
		if imp.Path() == "reflect" {
			reflectPkg = imp
		}
	}
	if reflectPkg == nil {
		fatalf("anchor: package reflect not imported by datacodec")
	}
	kindT := reflectPkg.Scope().Lookup("Kind").Type()
	mustWrap := map[string]bool{"Bool": true, "Int": true, "Int8": true, "Int16": true, "Int32": true, "Int64": true, "Uint": true, "Uint8": true, "Uint16": true, "Uint32": true, "Uint64": true, "Uintptr": true, "Float32": true, "Float64": true, "Complex64": true, "Complex128": true, "String": true, "Struct": true, "Array": true}
	mustNot := map[string]bool{"Interface": true, "Ptr": true, "Pointer": true, "Slice": true, "Map": true}
	for _, name := range reflectPkg.Scope().Names() {
		kc, ok := reflectPkg.Scope().Lookup(name).(*types.Const)
		if !ok || !types.Identical(kc.Type(), kindT) || (!mustWrap[name] && !mustNot[name]) {
			continue
		}
		h := &effHooks{}
		h.CallHook = func(in *Interp, c *CallCtx, k func(*State, []Val)) bool {
			if c.Callee != nil && c.Callee.Name() == "Kind" && c.Callee.Pkg() != nil && c.Callee.Pkg().Path() == "reflect" {
				k(c.St, []Val{{K: KConst, C: kc.Val(), T: kindT}})
				return true
			}
			return false
		}
		in := newInterp(p, h)
		_, args := paramVals(fnObj)
		outs := in.RunFunc(fnObj, nil, args, nil)
		wraps, plain := false, false
		for _, o := range outs {
			w := false
			for _, s := range o.St.trace {
				if s.Kind == "ext" && (s.Name == "reflect.PtrTo" || s.Name == "reflect.PointerTo") {
					w = true
				}
			}
			if w {
				wraps = true
			} else {
				plain = true
			}
		}
		key := "ensureNillable(" + name + ")"
		switch {
		case len(in.Undecided) > 0 || wraps == plain:
			r.Fail("nillable-wrap", key, fnObj.Pos(), "could not decide whether a type of kind %s is wrapped (paths: wrapped=%v unwrapped=%v %s)", name, wraps, plain, strings.Join(in.Undecided, "; "))
		case mustWrap[name] && !wraps:
			r.Fail("nillable-wrap", key, fnObj.Pos(), "a preferred Go type of kind %s is not wrapped in a pointer: collection elements of that type decoded into an untyped destination cannot hold NULL (a NULL element becomes the zero value and is re-encoded as a value)", name)
		case mustNot[name] && wraps:
			r.Fail("nillable-wrap", key, fnObj.Pos(), "a nillable type of kind %s is wrapped in a pointer: the preferred Go type documented for collections changes", name)
		default:
			r.OKf("nillable-wrap", key, fnObj.Pos(), "kind %s: wrapped=%v", name, wraps)
		}
	}
}
