package main

// C08: compression is lossless - the one structural necessary condition in reach: every
// destination buffer handed to lz4.UncompressBlock is sized soundly.
//
//   lz4-sizing   each UncompressBlock destination is a make([]byte, n) where n is
//                (a) the length prefix read from the wire in the same function (binary.Read into a
//                    local, or a Read* result), or
//                (b) the loop variable of a growth loop n0 = m0*len(src), n *= s, while n < M*len(src)
//                    whose largest attempted multiple of len(src) is >= 255 (LZ4's maximum expansion)
//   ratio-guard  every rejection test "prefix > K*len(src)" uses K >= 255
//   prefix-used  a length prefix read by binary.Read in a decompress function reaches an allocation

import (
	"fmt"
	"go/constant"
	"go/token"
	"go/types"
	"math/big"
	"strings"

	"golang.org/x/tools/go/ssa"
)

func init() { register("C08", "other", checkC08) }

const lz4MaxExpansion = 255

// mulForm decomposes v into base * k (k a positive constant), stripping conversions.
func mulForm(v ssa.Value) (base ssa.Value, k *big.Int) {
	k = big.NewInt(1)
	for i := 0; i < 16; i++ {
		switch x := v.(type) {
		case *ssa.Convert:
			v = x.X
			continue
		case *ssa.ChangeType:
			v = x.X
			continue
		case *ssa.BinOp:
			if x.Op == token.MUL {
				if c, ok := x.Y.(*ssa.Const); ok {
					if it, ok := constItv(c); ok && it.Lo.Sign() > 0 {
						k.Mul(k, it.Lo)
						v = x.X
						continue
					}
				}
				if c, ok := x.X.(*ssa.Const); ok {
					if it, ok := constItv(c); ok && it.Lo.Sign() > 0 {
						k.Mul(k, it.Lo)
						v = x.Y
						continue
					}
				}
			}
			if x.Op == token.SHL {
				if c, ok := x.Y.(*ssa.Const); ok {
					if it, ok := constItv(c); ok && it.Lo.IsInt64() && it.Lo.Int64() < 62 && it.Lo.Sign() >= 0 {
						k.Mul(k, pow2(uint(it.Lo.Int64())))
						v = x.X
						continue
					}
				}
			}
		}
		break
	}
	return v, k
}

// lenOf: v is len(x) (builtin) and returns x.
func lenOf(v ssa.Value) (ssa.Value, bool) {
	if c, ok := v.(*ssa.Call); ok {
		if b, ok := c.Call.Value.(*ssa.Builtin); ok && b.Name() == "len" && len(c.Call.Args) == 1 {
			return c.Call.Args[0], true
		}
	}
	return nil, false
}

func checkC08(p *Program, r *Report) {
	c08Rules(p, r)
	c08DrainOnce(p, r)
	c08CompressWrites(p, r)
	c06OnlyRefusal(p, r)
	// a segment encoded with compression must be decodable by the same codec: both sides follow the
	// same framing for every payload length, including the empty payload (shared with C06)
	ws, _ := analyseSegmentWriter(p)
	rs, _ := analyseSegmentReader(p)
	c06Trace(r, ws, rs)
	// ... and both sides act on one signal for "stored as is"
	c06DecodeDecision(r, rs)
	c06EncodeDecision(r, ws)
}

func c08Rules(p *Program, r *Report) {
	if r.Prop == "C08" {
		r.Explanation = "Decides the necessary condition the property's own text points at: every destination of lz4.UncompressBlock is sized from the wire length prefix or by a growth loop that cannot give up below 255x the source (LZ4's maximum expansion), any ratio-based rejection uses a bound >= 255, and a prefix that is read is used. Losslessness itself depends on third-party algorithms and runtime data and is not decidable statically; Snappy delegates sizing to the library (noted, not checked)."
		r.Trusted = []string{"go/ssa", "LZ4 block format: one compressed byte expands to at most 255 bytes", "pierrec/lz4 and golang/snappy implementations"}
		r.Assumptions = []string{"UncompressBlock is the only LZ4 decompression entry used by the module (checked: call sites enumerated)"}
	}
	r.Floor("lz4-sizing", 2)
	var sites []*ssa.Call
	prefixFns := map[*ssa.Function]bool{}
	for _, fn := range p.ModuleFuncs() {
		for _, b := range fn.Blocks {
			for _, ins := range b.Instrs {
				c, ok := ins.(*ssa.Call)
				if !ok {
					continue
				}
				f := c.Call.StaticCallee()
				if f == nil {
					continue
				}
				if strings.HasSuffix(f.String(), "lz4/v4.UncompressBlock") {
					sites = append(sites, c)
				}
				if strings.Contains(f.String(), "lz4") && !strings.HasSuffix(f.String(), "UncompressBlock") && strings.Contains(strings.ToLower(f.Name()), "uncompress") {
					r.Fail("lz4-sizing", fnKey(fn)+" other-entry "+f.Name(), c.Pos(), "unexpected LZ4 decompression entry point %s", f.String())
				}
			}
		}
	}
	counter := map[string]int{}
	for _, c := range sites {
		fn := c.Parent()
		counter[fn.String()]++
		key := fmt.Sprintf("%s UncompressBlock#%d", fnKey(fn), counter[fn.String()])
		src, dst := c.Call.Args[0], c.Call.Args[1]
		ms, ok := dst.(*ssa.MakeSlice)
		if !ok {
			r.Fail("lz4-sizing", key, c.Pos(), "destination buffer is not allocated in this function (%s): its size cannot be related to the source", dst.String())
			continue
		}
		if why, ok := sizedFromPrefix(ms.Len); ok {
			prefixFns[fn] = true
			r.OKf("lz4-sizing", key, c.Pos(), "destination sized from the wire length prefix (%s)", why)
			continue
		}
		if why, ok := growthLoopSound(ms.Len, src); ok {
			r.OKf("lz4-sizing", key, c.Pos(), "%s", why)
			continue
		} else if why != "" {
			r.Fail("lz4-sizing", key, c.Pos(), "%s", why)
			continue
		}
		r.Fail("lz4-sizing", key, c.Pos(), "destination size %s is neither the wire length prefix nor a growth loop reaching %dx the source: highly compressible data cannot be decompressed", describeVal(ms.Len), lz4MaxExpansion)
	}
	// ratio guards and prefix use in functions that read a length prefix with binary.Read
	for _, fn := range p.ModuleFuncs() {
		pk := fn.Package()
		if pk == nil || !strings.HasPrefix(shortPkg(pk.Pkg), "compression/") {
			continue
		}
		for _, b := range fn.Blocks {
			for _, ins := range b.Instrs {
				c, ok := ins.(*ssa.Call)
				if !ok {
					continue
				}
				f := c.Call.StaticCallee()
				if f == nil {
					continue
				}
				// the prefix is either a cell filled by binary.Read or the result of
				// binary.*Endian.UintN over bytes read with io.ReadFull
				var cell *ssa.Alloc
				var prefixCall ssa.Value
				label := ""
				switch {
				case f.String() == "encoding/binary.Read" && len(c.Call.Args) == 3:
					cell = prefixCell(c.Call.Args[2])
					if cell == nil {
						continue
					}
					label = cell.Comment
				default:
					if _, ok := sizedFromPrefix(c); ok && strings.HasPrefix(f.String(), "(encoding/binary.") {
						prefixCall = c
						label = "length"
					} else {
						continue
					}
				}
				isPrefix := func(v ssa.Value) bool {
					if prefixCall != nil {
						return v == prefixCall
					}
					u, ok := v.(*ssa.UnOp)
					return ok && u.Op == token.MUL && u.X == ssa.Value(cell)
				}
				key := fnKey(fn) + " prefix " + label
				// used: some load of the cell reaches a MakeSlice length
				used := false
				for _, bb := range fn.Blocks {
					for _, in2 := range bb.Instrs {
						if ms, ok := in2.(*ssa.MakeSlice); ok {
							base, _ := mulForm(ms.Len)
							if isPrefix(base) {
								used = true
							}
						}
					}
				}
				if !used {
					// handed to a helper of the package that sizes the destination with it
					for _, bb := range fn.Blocks {
						for _, in2 := range bb.Instrs {
							if hc, ok := in2.(*ssa.Call); ok {
								if g := hc.Call.StaticCallee(); g != nil && g.Pkg == fn.Pkg && g.Blocks != nil {
									for ai, a := range hc.Call.Args {
										base, _ := mulForm(a)
										if !isPrefix(base) || ai >= len(g.Params) {
											continue
										}
										for _, gb := range g.Blocks {
											for _, gi := range gb.Instrs {
												if ms, ok := gi.(*ssa.MakeSlice); ok {
													mb, _ := mulForm(ms.Len)
													if mb == ssa.Value(g.Params[ai]) {
														used = true
													}
												}
											}
										}
									}
								}
							}
						}
					}
				}
				if used {
					r.OKf("prefix-used", key, c.Pos(), "the length read from the wire sizes an allocation")
				} else {
					r.Fail("prefix-used", key, c.Pos(), "a decompressed length is read from the wire and never used to size the destination")
				}
				// ratio guards
				n := 0
				for _, bb := range fn.Blocks {
					for _, in2 := range bb.Instrs {
						bo, ok := in2.(*ssa.BinOp)
						if !ok {
							continue
						}
						switch bo.Op {
						case token.GTR, token.GEQ, token.LSS, token.LEQ:
						default:
							continue
						}
						for _, pair := range [][2]ssa.Value{{bo.X, bo.Y}, {bo.Y, bo.X}} {
							pb, _ := mulForm(pair[0])
							if !isPrefix(pb) {
								continue
							}
							ob, k := mulForm(pair[1])
							if _, isLen := lenOf(ob); !isLen {
								continue
							}
							n++
							gkey := fmt.Sprintf("%s ratio-guard#%d", fnKey(fn), n)
							if k.Cmp(big.NewInt(lz4MaxExpansion)) >= 0 {
								r.OKf("ratio-guard", gkey, bo.Pos(), "prefix compared with %s x the compressed length", k)
							} else {
								r.Fail("ratio-guard", gkey, bo.Pos(), "a decompressed length above %s x the compressed length is rejected, but LZ4 can expand up to %dx: legitimate highly compressible data is refused", k, lz4MaxExpansion)
							}
						}
					}
				}
			}
		}
	}
	// Snappy: any guard comparing the declared decoded length with a multiple of the compressed
	// length must allow Snappy's maximum expansion (a 3-byte copy yields 64 bytes: > 21:1)
	for _, fn := range p.ModuleFuncs() {
		pk := fn.Package()
		if pk == nil || shortPkg(pk.Pkg) != "compression/snappy" {
			continue
		}
		n := 0
		for _, b := range fn.Blocks {
			for _, ins := range b.Instrs {
				bo, ok := ins.(*ssa.BinOp)
				if !ok {
					continue
				}
				switch bo.Op {
				case token.GTR, token.GEQ, token.LSS, token.LEQ:
				default:
					continue
				}
				for _, pair := range [][2]ssa.Value{{bo.X, bo.Y}, {bo.Y, bo.X}} {
					ob, k := mulForm(pair[1])
					_, isLen := lenOf(ob)
					if lc, ok := ob.(*ssa.Call); ok && !isLen {
						if f := lc.Call.StaticCallee(); f != nil && f.Name() == "Len" {
							isLen = true
						}
					}
					if !isLen || k.Cmp(big.NewInt(1)) <= 0 {
						continue
					}
					n++
					gkey := fmt.Sprintf("%s ratio-guard#%d", fnKey(fn), n)
					if k.Cmp(big.NewInt(22)) >= 0 {
						r.OKf("ratio-guard", gkey, bo.Pos(), "decoded length compared with %s x the compressed length", k)
					} else {
						r.Fail("ratio-guard", gkey, bo.Pos(), "a decoded length above %s x the compressed length is rejected, but Snappy expands up to 21.33x (64 bytes from a 3-byte copy): legitimate highly compressible data is refused (integer division truncates 64/3 to 21)", k)
					}
				}
			}
		}
	}
	// Snappy: sizing is delegated to snappy.Decode(nil, src) - recorded for the evidence
	r.Extra["snappy"] = "snappy.Decode(nil, src) sizes its own output; not checked"
}

func prefixCell(v ssa.Value) *ssa.Alloc {
	switch x := v.(type) {
	case *ssa.MakeInterface:
		return prefixCell(x.X)
	case *ssa.Alloc:
		return x
	}
	return nil
}

// sizedFromPrefix: n is (a conversion of) a load of a local cell filled by binary.Read, or a
// result of a primitive.Read* call.
func sizedFromPrefix(n ssa.Value) (string, bool) {
	base, k := mulForm(n)
	if k.Cmp(big.NewInt(1)) != 0 {
		return "", false
	}
	switch x := base.(type) {
	case *ssa.Parameter:
		// a helper sized by its caller: every static caller must pass the wire prefix
		fn := x.Parent()
		if fn == nil || fn.Object() == nil || fn.Object().Exported() || prefixDepth > 3 {
			return "", false
		}
		idx := -1
		for i, pp := range fn.Params {
			if pp == x {
				idx = i
			}
		}
		found, all := 0, true
		for g := range prefixAllFuncs(fn) {
			for _, b := range g.Blocks {
				for _, ins := range b.Instrs {
					if c, ok := ins.(*ssa.Call); ok && c.Call.StaticCallee() == fn && idx < len(c.Call.Args) {
						found++
						prefixDepth++
						_, ok := sizedFromPrefix(c.Call.Args[idx])
						prefixDepth--
						if !ok {
							all = false
						}
					}
				}
			}
		}
		if found > 0 && all {
			return "parameter " + x.Name() + " (the wire prefix at every call site)", true
		}
		return "", false
	case *ssa.UnOp:
		if x.Op != token.MUL {
			return "", false
		}
		cell, ok := x.X.(*ssa.Alloc)
		if !ok {
			return "", false
		}
		for _, ref := range *cell.Referrers() {
			mi, ok := ref.(*ssa.MakeInterface)
			if !ok {
				continue
			}
			for _, r2 := range *mi.Referrers() {
				if c, ok := r2.(*ssa.Call); ok {
					if f := c.Call.StaticCallee(); f != nil && f.String() == "encoding/binary.Read" {
						return "binary.Read into " + cell.Comment, true
					}
				}
			}
		}
	case *ssa.Extract:
		if c, ok := x.Tuple.(*ssa.Call); ok {
			if f := c.Call.StaticCallee(); f != nil && f.Pkg != nil && shortPkg(f.Pkg.Pkg) == "primitive" && strings.HasPrefix(f.Name(), "Read") {
				return "primitive." + f.Name(), true
			}
		}
	case *ssa.Call:
		// binary.BigEndian.UintN(buf) with buf filled from the wire by io.ReadFull
		if f := x.Call.StaticCallee(); f != nil && strings.HasPrefix(f.String(), "(encoding/binary.") && strings.HasPrefix(f.Name(), "Uint") && len(x.Call.Args) == 2 {
			buf := x.Call.Args[1]
			roots := []ssa.Value{buf}
			if sl, ok := buf.(*ssa.Slice); ok {
				roots = append(roots, sl.X)
			}
			for _, root := range roots {
				for _, ref := range *root.Referrers() {
					check := func(v ssa.Value) bool {
						for _, r2 := range *v.Referrers() {
							if c, ok := r2.(*ssa.Call); ok {
								if g := c.Call.StaticCallee(); g != nil && (g.String() == "io.ReadFull" || g.String() == "io.ReadAtLeast") {
									return true
								}
							}
						}
						return false
					}
					if sl, ok := ref.(*ssa.Slice); ok && check(sl) {
						return "io.ReadFull + " + f.Name(), true
					}
				}
				if func() bool {
					for _, r2 := range *root.Referrers() {
						if c, ok := r2.(*ssa.Call); ok {
							if g := c.Call.StaticCallee(); g != nil && (g.String() == "io.ReadFull" || g.String() == "io.ReadAtLeast") {
								return true
							}
						}
					}
					return false
				}() {
					return "io.ReadFull + " + f.Name(), true
				}
			}
		}
	}
	return "", false
}

// growthLoopSound: n is a loop phi n = phi(m0*len(src), n*s) guarded by n < M*len(src) (or <=).
func growthLoopSound(n ssa.Value, src ssa.Value) (string, bool) {
	phi, ok := n.(*ssa.Phi)
	if !ok || len(phi.Edges) != 2 {
		return "", false
	}
	var m0, s *big.Int
	for _, e := range phi.Edges {
		base, k := mulForm(e)
		if base == ssa.Value(phi) {
			s = k
			continue
		}
		if x, isLen := lenOf(base); isLen && sameSlice(x, src) {
			m0 = k
		}
	}
	if m0 == nil || s == nil || s.Cmp(big.NewInt(2)) < 0 {
		return fmt.Sprintf("destination size %s is a loop variable but not of the form m0*len(src) growing by a constant factor", describeVal(n)), false
	}
	// the loop condition in the phi's block
	blk := phi.Block()
	ifi, ok := blk.Instrs[len(blk.Instrs)-1].(*ssa.If)
	if !ok {
		return "growth loop without a bound test in its header", false
	}
	bo, ok := ifi.Cond.(*ssa.BinOp)
	if !ok {
		return "growth loop bound is not a comparison", false
	}
	var bound ssa.Value
	op := bo.Op
	switch {
	case bo.X == ssa.Value(phi):
		bound = bo.Y
	case bo.Y == ssa.Value(phi):
		bound = bo.X
		op = flipOp(op)
	default:
		return "growth loop bound does not test the buffer size", false
	}
	bb, M := mulForm(bound)
	x, isLen := lenOf(bb)
	if !isLen || !sameSlice(x, src) {
		return "growth loop bound is not a multiple of len(src)", false
	}
	// no other test of the buffer size may cut the growth short
	for _, ref := range *phi.Referrers() {
		if other, ok := ref.(*ssa.BinOp); ok && other != bo {
			switch other.Op {
			case token.LSS, token.LEQ, token.GTR, token.GEQ, token.EQL, token.NEQ:
				for _, r2 := range *other.Referrers() {
					if _, isIf := r2.(*ssa.If); isIf {
						return fmt.Sprintf("besides the bound %s x len(src) the buffer size is also tested against %s: the growth can stop before the buffer reaches LZ4's maximum expansion of the source, and data that compresses well is not decompressed", M, describeVal(otherOperand(other, phi))), false
					}
				}
			}
		}
	}
	// largest attempted multiple
	m := new(big.Int).Set(m0)
	cont := func(v *big.Int) bool {
		if op == token.LSS {
			return v.Cmp(M) < 0
		}
		if op == token.LEQ {
			return v.Cmp(M) <= 0
		}
		return false
	}
	if !cont(m) {
		return fmt.Sprintf("growth loop never runs (start %s x, bound %s x)", m0, M), false
	}
	for i := 0; i < 128; i++ {
		next := new(big.Int).Mul(m, s)
		if !cont(next) {
			break
		}
		m = next
	}
	if m.Cmp(big.NewInt(lz4MaxExpansion)) >= 0 {
		return fmt.Sprintf("growth loop tries %s x len(src), x%s each round, up to %s x (>= %d x): cannot give up while the buffer may still be too small", m0, s, m, lz4MaxExpansion), true
	}
	return fmt.Sprintf("growth loop starts at %s x len(src), multiplies by %s and stops at bound %s x: the largest buffer tried is %s x the source, but LZ4 can expand up to %dx - data compressing better than %s:1 cannot be decompressed", m0, s, M, m, lz4MaxExpansion, m), false
}

func sameSlice(a, b ssa.Value) bool {
	if a == b {
		return true
	}
	// len(source) taken before the loop on the same parameter
	return false
}

var _ = constant.MakeInt64
var _ types.Type

// c08DrainOnce: a reader that has been read to its end (bufferFromReader, io.ReadAll,
// Buffer.ReadFrom) is not handed to another reading call afterwards. A second read sees an empty
// stream for every reader that is not a *bytes.Buffer (whose Bytes() are taken without consuming),
// so the data is silently lost.
func c08DrainOnce(p *Program, r *Report) {
	drains := func(f *ssa.Function) bool {
		if f == nil {
			return false
		}
		switch f.String() {
		case "io.ReadAll", "io/ioutil.ReadAll", "(*bytes.Buffer).ReadFrom":
			return true
		}
		return f.Name() == "bufferFromReader"
	}
	n := 0
	for _, fn := range p.ModuleFuncs() {
		if fn.Pkg == nil || !strings.HasPrefix(shortPkg(fn.Pkg.Pkg), "compression") {
			continue
		}
		for _, b := range fn.Blocks {
			for _, ins := range b.Instrs {
				c, ok := ins.(*ssa.Call)
				if !ok || !drains(c.Call.StaticCallee()) {
					continue
				}
				n++
				key := fmt.Sprintf("%s drain#%d", fnKey(fn), n)
				var src ssa.Value
				for _, a := range c.Call.Args {
					if types.TypeString(a.Type(), nil) == "io.Reader" {
						src = a
					}
				}
				if src == nil {
					r.OKf("drain-once", key, c.Pos(), "no reader argument")
					continue
				}
				bad := ""
				for _, ref := range *src.Referrers() {
					other, ok := ref.(*ssa.Call)
					if !ok || other == c {
						continue
					}
					after := other.Block() == c.Block() && instrIndex(other) > instrIndex(c) || other.Block() != c.Block() && c.Block().Dominates(other.Block())
					if after {
						name := "a call"
						if f := other.Call.StaticCallee(); f != nil {
							name = f.Name()
						} else if other.Call.IsInvoke() {
							name = other.Call.Method.Name()
						}
						bad = fmt.Sprintf("%s: the reader already read to its end by %s is handed to %s: for any reader but a *bytes.Buffer the second read finds nothing and the data is lost", p.pos(other.Pos()), c.Call.StaticCallee().Name(), name)
					}
				}
				if bad != "" {
					r.Fail("drain-once", key, c.Pos(), "%s", bad)
				} else {
					r.OKf("drain-once", key, c.Pos(), "the drained reader is not read again")
				}
			}
		}
	}
}

func otherOperand(bo *ssa.BinOp, v ssa.Value) ssa.Value {
	if bo.X == v {
		return bo.Y
	}
	return bo.X
}

// c08CompressWrites: every successful return of a Compress* method has written to its destination:
// even the empty input has a compressed form (a length prefix and/or a one-byte block) that the
// matching Decompress* expects to find.
func c08CompressWrites(p *Program, r *Report) {
	for _, fn := range p.ModuleFuncs() {
		if fn.Pkg == nil || !strings.HasPrefix(shortPkg(fn.Pkg.Pkg), "compression") || !strings.HasPrefix(fn.Name(), "Compress") || fn.Signature.Recv() == nil || len(fn.Blocks) == 0 {
			continue
		}
		// the destination: the io.Writer parameter
		var dest *ssa.Parameter
		for _, pp := range fn.Params {
			if types.TypeString(pp.Type(), nil) == "io.Writer" {
				dest = pp
			}
		}
		if dest == nil {
			continue
		}
		// blocks containing a call that receives dest (dest.Write, binary.Write(dest,..), helper(dest))
		writes := map[*ssa.BasicBlock]bool{}
		for _, ref := range *dest.Referrers() {
			var ins ssa.Instruction
			switch x := ref.(type) {
			case *ssa.Call:
				ins = x
			case *ssa.MakeInterface:
				for _, r2 := range *x.Referrers() {
					if c, ok := r2.(*ssa.Call); ok {
						writes[c.Block()] = true
					}
				}
			}
			if ins != nil {
				writes[ins.Block()] = true
			}
		}
		key := fnKey(fn)
		bad := ""
		for _, b := range fn.Blocks {
			ret, ok := b.Instrs[len(b.Instrs)-1].(*ssa.Return)
			if !ok || len(ret.Results) == 0 {
				continue
			}
			if k, ok := ret.Results[len(ret.Results)-1].(*ssa.Const); !ok || k.Value != nil {
				continue // an error return (or a forwarded error)
			}
			dominated := false
			for wb := range writes {
				if wb == b || wb.Dominates(b) {
					dominated = true
				}
			}
			if !dominated {
				bad = fmt.Sprintf("%s: a successful return is reached without anything having been written to the destination: the compressed form of that input (even of the empty input) is missing and cannot be decompressed", p.pos(ret.Pos()))
			}
		}
		if bad != "" {
			r.Fail("compress-writes", key, fn.Pos(), "%s", bad)
		} else {
			r.OKf("compress-writes", key, fn.Pos(), "every success return follows a write to the destination")
		}
	}
}

var prefixDepth int

// prefixAllFuncs: the functions of fn's package (callers of an unexported helper live there).
func prefixAllFuncs(fn *ssa.Function) map[*ssa.Function]bool {
	out := map[*ssa.Function]bool{}
	if fn.Pkg == nil {
		return out
	}
	for _, m := range fn.Pkg.Members {
		if f, ok := m.(*ssa.Function); ok {
			out[f] = true
			for _, an := range f.AnonFuncs {
				out[an] = true
			}
		}
		if t, ok := m.(*ssa.Type); ok {
			for _, recvT := range []types.Type{t.Type(), types.NewPointer(t.Type())} {
				ms := fn.Prog.MethodSets.MethodSet(recvT)
				for i := 0; i < ms.Len(); i++ {
					if f := fn.Prog.MethodValue(ms.At(i)); f != nil {
						out[f] = true
					}
				}
			}
		}
	}
	return out
}
