package main

// prov: a small inter-procedural "provenance printer" over go/ssa. It renders, in a canonical
// vocabulary, (a) how a scalar value was computed from bytes / parameters (value provenance) and
// (b) which bytes a []byte value consists of (layout). Only the constructs the value codecs use are
// recognised; anything else is rendered as "?<what>" and makes the obligation undecided.

import (
	"fmt"
	"go/constant"
	"go/token"
	"go/types"
	"sort"
	"strings"

	"golang.org/x/tools/go/ssa"
)

type provCtx struct {
	p     *Program
	env   map[*ssa.Parameter]string
	depth int
	// conv: functions whose results are opaque "converted value" leaves
	leaf func(fn *ssa.Function) (string, bool)
	// noInline: module calls are rendered as name(args) instead of being expanded
	noInline bool
	// calls records the full names of the functions applied while rendering
	calls map[string]bool
	// signCasts: render same-width conversions that change signedness (the value can change)
	signCasts bool
	// seqOffset: reads performed by the caller before the inlined helper was called
	seqOffset int
	// keepZeros: zero constants on phi edges are real alternatives (writer side: a value forced
	// to zero on some path), not the zero value of an unset named result
	keepZeros bool
	seen      map[ssa.Value]bool
}

func (c *provCtx) child(env map[*ssa.Parameter]string) *provCtx {
	return &provCtx{p: c.p, env: env, depth: c.depth + 1, leaf: c.leaf, noInline: c.noInline, calls: c.calls, signCasts: c.signCasts, seqOffset: c.seqOffset, keepZeros: c.keepZeros, seen: map[ssa.Value]bool{}}
}

func alts(ss []string) string {
	m := map[string]bool{}
	for _, s := range ss {
		for _, a := range splitAlts(s) {
			m[a] = true
		}
	}
	var out []string
	for a := range m {
		out = append(out, a)
	}
	sort.Strings(out)
	return strings.Join(out, " | ")
}

func splitAlts(s string) []string {
	// split on top-level " | "
	var out []string
	depth, start := 0, 0
	for i := 0; i < len(s); i++ {
		switch s[i] {
		case '(', '[', '{':
			depth++
		case ')', ']', '}':
			depth--
		case '|':
			if depth == 0 && i > 0 && i+1 < len(s) && s[i-1] == ' ' && s[i+1] == ' ' {
				out = append(out, strings.TrimSpace(s[start:i]))
				start = i + 1
			}
		}
	}
	out = append(out, strings.TrimSpace(s[start:]))
	return out
}

func isZeroSSA(v ssa.Value) bool {
	k, ok := v.(*ssa.Const)
	if !ok {
		return false
	}
	if k.Value == nil {
		return true
	}
	switch k.Value.Kind() {
	case constant.Int, constant.Float:
		return constant.Sign(k.Value) == 0
	case constant.Bool:
		return !constant.BoolVal(k.Value)
	case constant.String:
		return constant.StringVal(k.Value) == ""
	}
	return false
}

func staticCallee(c *ssa.CallCommon) *ssa.Function { return c.StaticCallee() }

// val renders the provenance of a scalar / struct / slice-as-value.
func (c *provCtx) val(v ssa.Value) string {
	if c.depth > 6 {
		return "?depth"
	}
	if c.seen[v] {
		return "?cycle"
	}
	c.seen[v] = true
	defer delete(c.seen, v)
	switch x := v.(type) {
	case *ssa.Const:
		if x.Value == nil {
			return "nil"
		}
		return "k:" + x.Value.ExactString()
	case *ssa.Parameter:
		if s, ok := c.env[x]; ok {
			return s
		}
		return "$" + x.Name()
	case *ssa.Global:
		return "global:" + x.Name()
	case *ssa.Convert:
		from, to := x.X.Type(), x.Type()
		in := c.val(x.X)
		if isIntType(from) && isIntType(to) {
			fb, _, _ := intBits(from)
			tb, _, _ := intBits(to)
			if tb >= fb {
				_, fs, _ := intBits(from)
				_, ts, _ := intBits(to)
				if c.signCasts && (tb == fb && fs != ts || tb > fb && fs && !ts) {
					return fmt.Sprintf("signcast<%s>(%s)", types.TypeString(to, relQual), in)
				}
				return in // widening or same-width reinterpretation: no bit is lost
			}
			return fmt.Sprintf("trunc%d(%s)", tb, in)
		}
		if isByteSlice(to) || isByteSlice(from) {
			return in // string <-> []byte: same bytes
		}
		return fmt.Sprintf("conv<%s>(%s)", types.TypeString(to, relQual), in)
	case *ssa.ChangeType:
		return c.val(x.X)
	case *ssa.MakeInterface:
		return c.val(x.X)
	case *ssa.BinOp:
		l, r := c.val(x.X), c.val(x.Y)
		if (x.Op == token.ADD || x.Op == token.SUB || x.Op == token.XOR) && isIntType(x.Type()) {
			bits, _, _ := intBits(x.Type())
			if k, ok := x.Y.(*ssa.Const); ok && k.Value != nil && k.Value.Kind() == constant.Int {
				half := constant.Shift(constant.MakeInt64(1), token.SHL, uint(bits-1))
				abs := k.Value
				if constant.Sign(abs) < 0 {
					abs = constant.UnaryOp(token.SUB, abs, 0)
				}
				if constant.Compare(abs, token.EQL, half) {
					return fmt.Sprintf("flip%d(%s)", bits-1, l)
				}
			}
		}
		if l == "i" && x.Op == token.ADD && r == "k:1" {
			return "i" // the incremented range counter
		}
		return fmt.Sprintf("(%s %s %s)", l, x.Op, r)
	case *ssa.UnOp:
		if x.Op == token.MUL {
			return c.load(x.X)
		}
		return fmt.Sprintf("%s(%s)", x.Op, c.val(x.X))
	case *ssa.Field:
		return c.val(x.X) + "." + fieldName(x.X.Type(), x.Field)
	case *ssa.Extract:
		if call, ok := x.Tuple.(*ssa.Call); ok {
			return c.call(call, x.Index)
		}
		if ta, ok := x.Tuple.(*ssa.TypeAssert); ok && x.Index == 0 {
			return c.val(ta.X) + ".(" + types.TypeString(ta.AssertedType, relQual) + ")"
		}
		return "?extract"
	case *ssa.Call:
		return c.call(x, 0)
	case *ssa.Phi:
		// loop counter: phi(k, phi + 1)
		for _, e := range x.Edges {
			if bo, ok := e.(*ssa.BinOp); ok && bo.Op == token.ADD && bo.X == ssa.Value(x) {
				if k, ok := bo.Y.(*ssa.Const); ok && k.Value != nil && k.Value.ExactString() == "1" {
					return "i"
				}
			}
		}
		var as []string
		for i, e := range x.Edges {
			if isZeroSSA(e) && !(c.keepZeros && isIntType(x.Type())) {
				continue // the zero value of an unset named result
			}
			as = append(as, c.val(e)+c.guardOf(x.Block().Preds[i]))
		}
		if len(as) == 0 {
			return "zero"
		}
		return alts(as)
	case *ssa.Slice:
		lo, hi := "", ""
		if x.Low != nil {
			lo = c.val(x.Low)
		}
		if x.High != nil {
			hi = c.val(x.High)
		}
		base := c.val(x.X)
		if a, ok := x.X.(*ssa.Alloc); ok {
			base = c.arrayContents(a)
		}
		if lo == "" && hi == "" {
			return base
		}
		return fmt.Sprintf("%s[%s:%s]", base, strings.TrimPrefix(lo, "k:"), strings.TrimPrefix(hi, "k:"))
	case *ssa.Alloc:
		return c.load(x)
	case *ssa.Lookup:
		return fmt.Sprintf("%s[%s]", c.val(x.X), strings.TrimPrefix(c.val(x.Index), "k:"))
	case *ssa.IndexAddr, *ssa.FieldAddr:
		return "&" + c.load(x)
	case *ssa.TypeAssert:
		return c.val(x.X) + ".(" + types.TypeString(x.AssertedType, relQual) + ")"
	}
	return fmt.Sprintf("?%T", v)
}

func fieldName(t types.Type, i int) string {
	if p, ok := t.Underlying().(*types.Pointer); ok {
		t = p.Elem()
	}
	if s, ok := t.Underlying().(*types.Struct); ok && i < s.NumFields() {
		return s.Field(i).Name()
	}
	return fmt.Sprintf("f%d", i)
}

// load renders *addr.
func (c *provCtx) load(addr ssa.Value) string {
	switch a := addr.(type) {
	case *ssa.FieldAddr:
		base := ""
		if al, ok := a.X.(*ssa.Alloc); ok {
			// a local struct: either a spilled parameter or a value under construction
			if src, ok := soleStoreToAlloc(al); ok {
				base = c.val(src)
			} else {
				// field-wise construction: the stores to this field
				var as []string
				for _, ref := range *al.Referrers() {
					fa, ok := ref.(*ssa.FieldAddr)
					if !ok || fa.Field != a.Field {
						continue
					}
					for _, r2 := range *fa.Referrers() {
						if st, ok := r2.(*ssa.Store); ok && st.Addr == fa {
							as = append(as, c.val(st.Val))
						}
					}
				}
				if len(as) > 0 {
					return alts(as)
				}
				return "zero"
			}
		} else {
			base = c.val(a.X)
		}
		return base + "." + fieldName(a.X.Type(), a.Field)
	case *ssa.IndexAddr:
		return fmt.Sprintf("%s[%s]", c.val(a.X), strings.TrimPrefix(c.val(a.Index), "k:"))
	case *ssa.Alloc:
		if src, ok := soleStoreToAlloc(a); ok {
			return c.val(src)
		}
		if st, ok := a.Type().Underlying().(*types.Pointer).Elem().Underlying().(*types.Struct); ok {
			// struct assembled field by field
			var parts []string
			for i := 0; i < st.NumFields(); i++ {
				var as []string
				for _, ref := range *a.Referrers() {
					fa, ok := ref.(*ssa.FieldAddr)
					if !ok || fa.Field != i {
						continue
					}
					for _, r2 := range *fa.Referrers() {
						if s, ok := r2.(*ssa.Store); ok && s.Addr == fa {
							as = append(as, c.val(s.Val)+c.guardOf(s.Block()))
						}
					}
				}
				if len(as) > 0 {
					parts = append(parts, st.Field(i).Name()+": "+alts(as))
				}
			}
			return "{" + strings.Join(parts, ", ") + "}"
		}
		var as []string
		for _, ref := range *a.Referrers() {
			if s, ok := ref.(*ssa.Store); ok && s.Addr == a && !isZeroSSA(s.Val) {
				as = append(as, c.val(s.Val))
			}
			// copy(local[:], src)
			if sl, ok := ref.(*ssa.Slice); ok && sl.X == a {
				for _, r2 := range *sl.Referrers() {
					if call, ok := r2.(*ssa.Call); ok {
						if b, ok := call.Call.Value.(*ssa.Builtin); ok && b.Name() == "copy" && call.Call.Args[0] == sl {
							as = append(as, c.val(call.Call.Args[1]))
						}
					}
				}
			}
		}
		if len(as) > 0 {
			return alts(as)
		}
		return "zero"
	case *ssa.Global:
		return "global:" + a.Name()
	}
	return "*" + c.val(addr)
}

func soleStoreToAlloc(a *ssa.Alloc) (ssa.Value, bool) {
	var src ssa.Value
	n := 0
	for _, ref := range *a.Referrers() {
		switch r := ref.(type) {
		case *ssa.Store:
			if r.Addr == a {
				src = r.Val
				n++
			}
		case *ssa.FieldAddr:
			for _, r2 := range *r.Referrers() {
				if s, ok := r2.(*ssa.Store); ok && s.Addr == r {
					return nil, false
				}
			}
		}
	}
	return src, n == 1
}

// arrayContents renders a local array filled by constant-index stores ([]byte{a, b}).
func (c *provCtx) arrayContents(a *ssa.Alloc) string {
	items := map[int64]string{}
	for _, ref := range *a.Referrers() {
		ia, ok := ref.(*ssa.IndexAddr)
		if !ok {
			continue
		}
		k, ok := ia.Index.(*ssa.Const)
		if !ok {
			return "?array-dynamic-index"
		}
		i, _ := constant.Int64Val(k.Value)
		for _, r2 := range *ia.Referrers() {
			if s, ok := r2.(*ssa.Store); ok && s.Addr == ia {
				items[i] = c.val(s.Val)
			}
		}
	}
	n := int64(0)
	if at, ok := a.Type().Underlying().(*types.Pointer).Elem().Underlying().(*types.Array); ok {
		n = at.Len()
	}
	var parts []string
	for i := int64(0); i < n; i++ {
		s, ok := items[i]
		if !ok {
			s = "k:0"
		}
		parts = append(parts, "u8("+s+")")
	}
	return strings.Join(parts, " ")
}

func (c *provCtx) call(call *ssa.Call, idx int) string {
	cc := &call.Call
	if b, ok := cc.Value.(*ssa.Builtin); ok {
		switch b.Name() {
		case "len":
			return "len(" + c.val(cc.Args[0]) + ")"
		case "append":
			if len(cc.Args) == 2 {
				return c.val(cc.Args[0]) + " " + c.val(cc.Args[1])
			}
		}
		return "?builtin:" + b.Name()
	}
	fn := staticCallee(cc)
	if fn == nil {
		if cc.IsInvoke() {
			var as []string
			for _, a := range cc.Args {
				as = append(as, c.val(a))
			}
			s := fmt.Sprintf("%s.%s(%s)", c.val(cc.Value), cc.Method.Name(), strings.Join(as, ", "))
			if idx > 0 {
				s += fmt.Sprintf("#%d", idx)
			}
			return s
		}
		var as []string
		for _, a := range cc.Args {
			as = append(as, c.val(a))
		}
		s := fmt.Sprintf("%s(%s)", c.val(cc.Value), strings.Join(as, ", "))
		if idx > 0 {
			s += fmt.Sprintf("#%d", idx)
		}
		return s
	}
	if c.leaf != nil {
		if s, ok := c.leaf(fn); ok {
			if idx > 0 {
				return fmt.Sprintf("%s#%d", s, idx)
			}
			return s
		}
	}
	full := fn.String()
	if c.calls != nil {
		c.calls[full] = true
	}
	var args []string
	arg := func(i int) string {
		if i < len(cc.Args) {
			return c.val(cc.Args[i])
		}
		return "?"
	}
	switch full {
	case "(encoding/binary.bigEndian).Uint16", "(encoding/binary.bigEndian).Uint32", "(encoding/binary.bigEndian).Uint64":
		return fmt.Sprintf("be%s(%s)", strings.TrimPrefix(fn.Name(), "Uint"), arg(1))
	case "(encoding/binary.littleEndian).Uint16", "(encoding/binary.littleEndian).Uint32", "(encoding/binary.littleEndian).Uint64":
		return fmt.Sprintf("le%s(%s)", strings.TrimPrefix(fn.Name(), "Uint"), arg(1))
	case "(encoding/binary.bigEndian).AppendUint16", "(encoding/binary.bigEndian).AppendUint32", "(encoding/binary.bigEndian).AppendUint64":
		n := strings.TrimPrefix(fn.Name(), "AppendUint")
		bytesN := map[string]string{"16": "2", "32": "4", "64": "8"}[n]
		prefix := arg(1)
		if prefix == "nil" || strings.HasPrefix(prefix, "zeros(0") {
			prefix = ""
		}
		return strings.TrimSpace(prefix + " be" + n + "(" + arg(2) + ")@" + bytesN)
	case "math.Float32bits", "math.Float64bits":
		return "ieee(" + arg(0) + ")"
	case "math.Float32frombits", "math.Float64frombits":
		return "ieee⁻¹(" + arg(0) + ")"
	case "(*bytes.Buffer).Bytes":
		return c.bufferContents(cc.Args[0])
	case "bytes.NewReader":
		return arg(0)
	}
	if fn.Pkg != nil && shortPkg(fn.Pkg.Pkg) == "primitive" && isModulePkg(fn.Pkg.Pkg) && strings.HasPrefix(fn.Name(), "Read") && len(cc.Args) == 1 {
		// sequence number among the reads of the same reader, counted from the enclosing loop
		// header (or the entry) along the acyclic paths; all paths must agree
		k := readSeq(call, fn.Pkg) + c.seqOffset
		s := fmt.Sprintf("%s@%d(%s)", strings.ToLower(strings.TrimPrefix(fn.Name(), "Read")), k, arg(0))
		if idx > 0 {
			s += fmt.Sprintf("#%d", idx)
		}
		return s
	}
	if fn.Pkg != nil && shortPkg(fn.Pkg.Pkg) == "datacodec" && fn.Name() == "readBigInt" {
		return "varint⁻¹(" + arg(0) + ")"
	}
	if !c.noInline && fn.Pkg != nil && isModulePkg(fn.Pkg.Pkg) && fn.Blocks != nil && shortPkg(fn.Pkg.Pkg) == "datacodec" {
		// inline: provenance of the idx-th result over all returns
		env := map[*ssa.Parameter]string{}
		for i, p := range fn.Params {
			if i < len(cc.Args) {
				env[p] = c.val(cc.Args[i])
			}
		}
		cc2 := c.child(env)
		if primPkg := primitivePkgOf(c.p); primPkg != nil && helperReads(fn, primPkg) {
			// the helper reads from a reader: its reads come after those the caller did before
			cc2.seqOffset = c.seqOffset + readSeq(call, primPkg) - 1
		}
		var as []string
		for _, b := range fn.Blocks {
			if ret, ok := b.Instrs[len(b.Instrs)-1].(*ssa.Return); ok && idx < len(ret.Results) {
				if isZeroSSA(ret.Results[idx]) {
					continue
				}
				as = append(as, cc2.val(ret.Results[idx]))
			}
		}
		if len(as) == 0 {
			return "zero"
		}
		return alts(as)
	}
	for i := range cc.Args {
		args = append(args, arg(i))
	}
	name := fn.Name()
	if fn.Pkg != nil && fn.Pkg.Pkg.Name() != "datacodec" {
		name = fn.Pkg.Pkg.Name() + "." + name
	}
	if recv := fn.Signature.Recv(); recv != nil {
		name = "(" + types.TypeString(recv.Type(), relQual) + ")." + fn.Name()
	}
	s := fmt.Sprintf("%s(%s)", name, strings.Join(args, ", "))
	if idx > 0 {
		s += fmt.Sprintf("#%d", idx)
	}
	return s
}

// bufferContents renders what was written to a local bytes.Buffer, in dominance order.
func (c *provCtx) bufferContents(buf ssa.Value) string {
	type ev struct {
		ins ssa.Instruction
		s   string
	}
	var evs []ev
	var visit func(v ssa.Value)
	seen := map[ssa.Value]bool{}
	visit = func(v ssa.Value) {
		if seen[v] {
			return
		}
		seen[v] = true
		refs := v.Referrers()
		if refs == nil {
			return
		}
		for _, ref := range *refs {
			switch r := ref.(type) {
			case *ssa.MakeInterface:
				visit(r)
			case *ssa.ChangeInterface:
				visit(r)
			case *ssa.Call:
				fn := staticCallee(&r.Call)
				if fn == nil {
					evs = append(evs, ev{r, "?dynamic-write"})
					continue
				}
				switch {
				case fn.Pkg != nil && shortPkg(fn.Pkg.Pkg) == "primitive" && strings.HasPrefix(fn.Name(), "Write"):
					name := strings.ToLower(strings.TrimPrefix(fn.Name(), "Write"))
					switch name {
					case "long":
						evs = append(evs, ev{r, fmt.Sprintf("be64(%s)@8", c.val(r.Call.Args[0]))})
					case "int":
						evs = append(evs, ev{r, fmt.Sprintf("be32(%s)@4", c.val(r.Call.Args[0]))})
					case "short":
						evs = append(evs, ev{r, fmt.Sprintf("be16(%s)@2", c.val(r.Call.Args[0]))})
					case "byte":
						evs = append(evs, ev{r, fmt.Sprintf("u8(%s)", c.val(r.Call.Args[0]))})
					default:
						evs = append(evs, ev{r, fmt.Sprintf("%s(%s)", name, c.val(r.Call.Args[0]))})
					}
				case fn.String() == "encoding/binary.Write" && len(r.Call.Args) == 3:
					// binary.Write(buf, order, v): fixed-width integer of v's size
					order := "?order"
					if ld, ok := r.Call.Args[1].(*ssa.MakeInterface); ok {
						if u, ok := ld.X.(*ssa.UnOp); ok {
							if g, ok := u.X.(*ssa.Global); ok {
								switch g.Name() {
								case "BigEndian":
									order = "be"
								case "LittleEndian":
									order = "le"
								}
							}
						}
					}
					data := r.Call.Args[2]
					if mi, ok := data.(*ssa.MakeInterface); ok {
						data = mi.X
					}
					bits := 0
					if bt, ok := data.Type().Underlying().(*types.Basic); ok {
						switch bt.Kind() {
						case types.Int8, types.Uint8:
							bits = 8
						case types.Int16, types.Uint16:
							bits = 16
						case types.Int32, types.Uint32, types.Float32:
							bits = 32
						case types.Int64, types.Uint64, types.Float64:
							bits = 64
						}
					}
					if bits == 0 || order == "?order" {
						evs = append(evs, ev{r, "?binary.Write"})
					} else if bits == 8 {
						evs = append(evs, ev{r, "u8(" + c.val(data) + ")"})
					} else {
						evs = append(evs, ev{r, fmt.Sprintf("%s%d(%s)@%d", order, bits, c.val(data), bits/8)})
					}
				case fn.String() == "(*bytes.Buffer).Bytes" || fn.String() == "(*bytes.Buffer).Len":
				case fn.String() == "(*bytes.Buffer).Write":
					evs = append(evs, ev{r, "raw(" + c.val(r.Call.Args[1]) + ")"})
				case fn.String() == "(*bytes.Buffer).WriteByte":
					evs = append(evs, ev{r, "u8(" + c.val(r.Call.Args[1]) + ")"})
				default:
					evs = append(evs, ev{r, "?" + fn.Name()})
				}
			}
		}
	}
	visit(buf)
	sort.SliceStable(evs, func(i, j int) bool {
		bi, bj := evs[i].ins.Block(), evs[j].ins.Block()
		if bi == bj {
			return instrIndex(evs[i].ins) < instrIndex(evs[j].ins)
		}
		return bi.Dominates(bj)
	})
	var parts []string
	for i, e := range evs {
		if i > 0 && e.ins.Block() != evs[i-1].ins.Block() && !evs[i-1].ins.Block().Dominates(e.ins.Block()) {
			parts = append(parts, "?unordered")
		}
		parts = append(parts, e.s)
	}
	return strings.Join(parts, " ")
}

func instrIndex(ins ssa.Instruction) int {
	for i, x := range ins.Block().Instrs {
		if x == ins {
			return i
		}
	}
	return -1
}

// bytesOf renders the layout of a []byte value produced by a writer.
func (c *provCtx) bytesOf(v ssa.Value) string {
	switch x := v.(type) {
	case *ssa.MakeSlice:
		n := strings.TrimPrefix(c.val(x.Len), "k:")
		if filled := c.filledSlice(x); filled != "" {
			return filled
		}
		parts := c.putUints(x, n)
		if len(parts) == 0 {
			return fmt.Sprintf("zeros(%s)", n)
		}
		return strings.Join(parts, " ")
	case *ssa.Phi:
		var as []string
		for _, e := range x.Edges {
			if k, ok := e.(*ssa.Const); ok && k.Value == nil {
				continue
			}
			as = append(as, c.bytesOf(e))
		}
		return alts(as)
	case *ssa.Call:
		return c.bytesCall(x, 0)
	case *ssa.Extract:
		if call, ok := x.Tuple.(*ssa.Call); ok {
			return c.bytesCall(call, x.Index)
		}
	case *ssa.Slice:
		if a, ok := x.X.(*ssa.Alloc); ok {
			// make([]byte, K) with constant K is lowered to new([K]byte)[:K]
			if at, ok := a.Type().Underlying().(*types.Pointer).Elem().Underlying().(*types.Array); ok {
				if parts := c.putUints(x, fmt.Sprint(at.Len())); len(parts) > 0 {
					return strings.Join(parts, " ")
				}
			}
			if x.Low == nil && x.High == nil {
				return c.arrayContents(a)
			}
		}
	case *ssa.Parameter:
		if s, ok := c.env[x]; ok {
			return s
		}
	}
	return "raw(" + c.val(v) + ")"
}

func (c *provCtx) bytesCall(call *ssa.Call, idx int) string {
	cc := &call.Call
	if b, ok := cc.Value.(*ssa.Builtin); ok && b.Name() == "append" && len(cc.Args) == 2 {
		return c.bytesOf(cc.Args[0]) + " " + c.bytesOf(cc.Args[1])
	}
	fn := staticCallee(cc)
	if fn == nil {
		return "raw(" + c.call(call, idx) + ")"
	}
	if c.leaf != nil {
		if s, ok := c.leaf(fn); ok {
			return "raw(" + s + ")"
		}
	}
	if fn.String() == "(*bytes.Buffer).Bytes" {
		return c.bufferContents(cc.Args[0])
	}
	if fn.Pkg != nil && shortPkg(fn.Pkg.Pkg) == "datacodec" && isModulePkg(fn.Pkg.Pkg) && fn.Blocks != nil {
		if fn.Name() == "writeBigInt" {
			return "varint(" + c.val(cc.Args[0]) + ")"
		}
		env := map[*ssa.Parameter]string{}
		for i, p := range fn.Params {
			if i < len(cc.Args) {
				env[p] = c.val(cc.Args[i])
			}
		}
		cc2 := c.child(env)
		var as []string
		for _, b := range fn.Blocks {
			if ret, ok := b.Instrs[len(b.Instrs)-1].(*ssa.Return); ok && idx < len(ret.Results) {
				if k, ok := ret.Results[idx].(*ssa.Const); ok && k.Value == nil {
					continue
				}
				as = append(as, cc2.bytesOf(ret.Results[idx]))
			}
		}
		if len(as) == 0 {
			return "nil"
		}
		return alts(as)
	}
	return "raw(" + c.call(call, idx) + ")"
}

// putUints: the binary.*Endian.PutUintN calls that fill buffer buf (of length n).
func (c *provCtx) putUints(buf ssa.Value, n string) []string {
	var parts []string
	for _, ref := range *buf.Referrers() {
		call, ok := ref.(*ssa.Call)
		if !ok {
			continue
		}
		fn := staticCallee(&call.Call)
		if fn == nil {
			continue
		}
		full := fn.String()
		switch {
		case strings.HasPrefix(full, "(encoding/binary.bigEndian).PutUint"):
			parts = append(parts, fmt.Sprintf("be%s(%s)@%s", strings.TrimPrefix(fn.Name(), "PutUint"), c.val(call.Call.Args[2]), n))
		case strings.HasPrefix(full, "(encoding/binary.littleEndian).PutUint"):
			parts = append(parts, fmt.Sprintf("le%s(%s)@%s", strings.TrimPrefix(fn.Name(), "PutUint"), c.val(call.Call.Args[2]), n))
		}
	}
	return parts
}

// guardOf renders the length conditions that hold in block b: the conditions of dominating
// branches that compare a len(...) with a constant.
func (c *provCtx) guardOf(b *ssa.BasicBlock) string {
	var conds []string
	for d := b; d.Idom() != nil; d = d.Idom() {
		id := d.Idom()
		ifi, ok := id.Instrs[len(id.Instrs)-1].(*ssa.If)
		if !ok {
			continue
		}
		bo, ok := ifi.Cond.(*ssa.BinOp)
		if !ok {
			continue
		}
		var pol int // 1: condition true in b, -1: false
		for i, s := range id.Succs {
			if (s == d || s.Dominates(d)) && len(s.Preds) == 1 {
				if i == 0 {
					pol = 1
				} else {
					pol = -1
				}
			}
		}
		if pol == 0 {
			continue
		}
		l, r := c.val(bo.X), c.val(bo.Y)
		if !strings.HasPrefix(l, "len(") || !strings.HasPrefix(r, "k:") {
			continue
		}
		op := bo.Op
		if pol < 0 {
			switch op {
			case token.EQL:
				op = token.NEQ
			case token.NEQ:
				op = token.EQL
			case token.LSS:
				op = token.GEQ
			case token.LEQ:
				op = token.GTR
			case token.GTR:
				op = token.LEQ
			case token.GEQ:
				op = token.LSS
			}
		}
		conds = append(conds, fmt.Sprintf("%s%s%s", l, op, strings.TrimPrefix(r, "k:")))
	}
	if len(conds) == 0 {
		return ""
	}
	sort.Strings(conds)
	return "{" + strings.Join(conds, ",") + "}"
}

func isPrimRead(ins ssa.Instruction, pkg *ssa.Package) bool {
	c, ok := ins.(*ssa.Call)
	if !ok {
		return false
	}
	f := staticCallee(&c.Call)
	if f == nil {
		return false
	}
	if f.Pkg == pkg && strings.HasPrefix(f.Name(), "Read") {
		return true
	}
	// a helper of the module that performs one primitive read per call counts as one read
	return f.Pkg != nil && shortPkg(f.Pkg.Pkg) == "datacodec" && f.Blocks != nil && f.Signature.Recv() == nil && helperReads(f, pkg)
}

var helperReadsMemo = map[*ssa.Function]bool{}

// helperReads: f (not a container reader itself) calls primitive.Read* directly on a parameter.
func helperReads(f *ssa.Function, pkg *ssa.Package) bool {
	if v, ok := helperReadsMemo[f]; ok {
		return v
	}
	res := false
	if !strings.HasPrefix(f.Name(), "readCollectionSize") {
		for _, b := range f.Blocks {
			for _, ins := range b.Instrs {
				if c, ok := ins.(*ssa.Call); ok {
					if g := staticCallee(&c.Call); g != nil && g.Pkg == pkg && strings.HasPrefix(g.Name(), "Read") && strings.HasSuffix(g.Name(), "Bytes") {
						res = true
					}
				}
			}
		}
	}
	helperReadsMemo[f] = res
	return res
}

func primitivePkgOf(p *Program) *ssa.Package {
	for _, pk := range p.SSA().AllPackages() {
		if pk.Pkg != nil && isModulePkg(pk.Pkg) && shortPkg(pk.Pkg) == "primitive" {
			return pk
		}
	}
	return nil
}

// readSeq: 1 + the number of primitive.Read* calls executed before call since the innermost loop
// header; 0 when paths disagree.
func readSeq(call *ssa.Call, pkg *ssa.Package) int {
	fn := call.Parent()
	in := map[*ssa.BasicBlock]int{}
	done := map[*ssa.BasicBlock]bool{}
	var count func(b *ssa.BasicBlock) int
	count = func(b *ssa.BasicBlock) int {
		if done[b] {
			return in[b]
		}
		done[b] = true
		in[b] = 0
		res, first := 0, true
		for _, p := range b.Preds {
			if b.Dominates(p) {
				// back edge: b is a loop header, counting restarts
				in[b] = 0
				return 0
			}
		}
		for _, p := range b.Preds {
			n := count(p)
			if n < 0 {
				in[b] = -1
				return -1
			}
			for _, ins := range p.Instrs {
				if isPrimRead(ins, pkg) {
					n++
				}
			}
			if first {
				res, first = n, false
			} else if n != res {
				// paths through error exits do not rejoin; a disagreement is a real ambiguity
				in[b] = -1
				return -1
			}
		}
		in[b] = res
		return res
	}
	_ = fn
	n := count(call.Block())
	if n < 0 {
		return 0
	}
	for _, ins := range call.Block().Instrs {
		if ins == ssa.Instruction(call) {
			break
		}
		if isPrimRead(ins, pkg) {
			n++
		}
	}
	return n + 1
}

// filledSlice: a buffer filled piecewise at constant offsets - PutUintN(buf[a:b], v) and
// copy(buf[a:], x) - rendered in offset order; "" when the buffer is not filled that way.
func (c *provCtx) filledSlice(buf ssa.Value) string {
	type piece struct {
		off int64
		s   string
	}
	var pieces []piece
	constOf := func(v ssa.Value) (int64, bool) {
		if v == nil {
			return 0, true
		}
		if k, ok := v.(*ssa.Const); ok && k.Value != nil {
			i, ok := constant.Int64Val(k.Value)
			return i, ok
		}
		return 0, false
	}
	add := func(target ssa.Value, off int64) bool {
		ok := true
		for _, ref := range *target.Referrers() {
			call, isCall := ref.(*ssa.Call)
			if !isCall {
				continue
			}
			if b, isB := call.Call.Value.(*ssa.Builtin); isB && b.Name() == "copy" && call.Call.Args[0] == target {
				pieces = append(pieces, piece{off, c.bytesOf(call.Call.Args[1])})
				continue
			}
			if f := staticCallee(&call.Call); f != nil {
				full := f.String()
				for _, pre := range []string{"(encoding/binary.bigEndian).PutUint", "(encoding/binary.littleEndian).PutUint"} {
					if strings.HasPrefix(full, pre) && len(call.Call.Args) == 3 && call.Call.Args[1] == target {
						bits := strings.TrimPrefix(f.Name(), "PutUint")
						order := "be"
						if strings.Contains(pre, "little") {
							order = "le"
						}
						bytesN := map[string]string{"16": "2", "32": "4", "64": "8"}[bits]
						pieces = append(pieces, piece{off, fmt.Sprintf("%s%s(%s)@%s", order, bits, c.val(call.Call.Args[2]), bytesN)})
					}
				}
			}
		}
		return ok
	}
	sliced := false
	add(buf, 0)
	for _, ref := range *buf.Referrers() {
		sl, ok := ref.(*ssa.Slice)
		if !ok || sl.X != buf {
			continue
		}
		off, ok := constOf(sl.Low)
		if !ok {
			return ""
		}
		sliced = true
		add(sl, off)
	}
	if !sliced || len(pieces) < 2 {
		return ""
	}
	sort.SliceStable(pieces, func(i, j int) bool { return pieces[i].off < pieces[j].off })
	var parts []string
	for _, p := range pieces {
		parts = append(parts, p.s)
	}
	return strings.Join(parts, " ")
}
